"""C08 - legacy grids: pos, cell contents, empties and empty_mask never disagree
(+ the legacy-grid sites of C18: a rejected mutating call leaves the observable state unchanged).
SingleGrid, MultiGrid, HexSingleGrid, HexMultiGrid share one model: Model/LegacyGrid.v."""
import itertools
import random as _random
import warnings

import coqlit as L

ID = "C08"
COQ_PROPERTY_FILE = "Properties/C08.v"
COQ_DEPS = ["Common/ListX.v", "Common/ObsHash.v", "Generated/Tables.v", "Model/LegacyGrid.v", "Proofs/LegacyGridProofs.v",
            "Proofs/LegacyGridSim.v", "Proofs/LegacyGridRefine.v", "Proofs/LegacyGridBridge.v", "Proofs/LegacyGridForms.v",
            "Model/NetGrid.v", "Proofs/NetGridProofs.v"]
COQ_IMPORTS = "From Mesa Require Import Model.LegacyGrid Model.NetGrid."
COQ_CASE_TYPE = "anycase"
COQ_RUN = "run_any"
TABLE_CONSTRUCTS = ["mask_single_place", "mask_single_remove", "mask_multi_place", "mask_multi_remove",
                    # code-level T1 (harness/tables/legacy_space_code.py; gen_out_of_bounds comes from legacy_nbhd_code.py)
                    "grid_out_of_bounds_code", "grid_torus_adj_code", "hexgrid_torus_adj_2d_code", "grid_distance_squared_code", "grid_is_cell_empty_code",
                    "grid_move_to_empty_branch_code", "grid_move_to_empty_skeleton", "grid_closest_code",
                    "grid_move_one_of_skeleton", "grid_swap_pos_skeleton",
                    "body_single_place_code", "body_single_remove_code", "body_multi_place_code", "body_multi_remove_code",
                    "body_grid_move_code", "body_single_move_code"]
ENUM_ALWAYS = False
RULE = ("histories = (a) one legacy grid: class in SingleGrid/MultiGrid/HexSingleGrid/HexMultiGrid, w,h in 1..5 (3% 6x6 for the rejection-"
        "sampling branch of move_to_empty), torus on/off, 0/1/2 integer property layers, 1..7 agents of three classes (base, subclass, "
        "subclass-of-subclass with a mixin after the base; in 35% of the histories they belong to 2-3 models, so equal class + unique_id "
        "pairs share the grid and MultiGrid cells; the driver tells agents apart by identity only); 6 stored corpus histories, ~70 spelled-out corner cases, then random "
        "histories of up to 35 calls of place_agent (unplaced agent, in-grid), remove_agent, move_agent (integer targets: in grid, one "
        "wrap away, far away, beyond 2**64, own cell, an occupied cell), swap_pos (same cell, same agent, one/both unplaced), "
        "move_to_empty (incl. full grids), move_agent_to_one_of (random/closest/invalid selection, empty list with every handle_empty, "
        "ties, out-of-grid offers, offers taken from select_cells), layer set_cell/set_cells/reads, read-only calls of the neighbouring "
        "APIs that touch the same state (select_cells with every combination of conditions / extreme_values / masks / only_empty / "
        "return_list, get_neighborhood_mask, PropertyLayer.select_cells / aggregate_property, repeated empty_mask reads - no-ops for the "
        "model, the oracle requires every view and every layer unchanged), interleaved with every reader: empties, empty_mask, is_cell_empty, "
        "exists_empty_cells, grid[x], grid[x,y], grid[(x1,y1),...], grid[x,a:b], grid[a:b,y], grid[a:b,c:d] (None/negative/oversized/"
        "crossed bounds), iteration, coord_iter, agents, get/iter_cell_list_contents (lists with repeats, the bare-tuple form), torus_adj, "
        "torus_adj_2d; a third of the histories never read empties, a fifth read it first; 42% hand coordinates over in a rare legal form "
        "(NumPy int64/int32 scalars, bools for 0/1, an int subclass); list-taking calls with lengths crossing 1..257; a SCALE stream "
        "(implementation+oracle only: 100x100..200x200 grids filled to just above the move_to_empty cutoff with 60-120 move_to_empty "
        "calls, 2049 agents in one MultiGrid cell, 1025x3 / 2x4097 grids with coordinates beyond 256 / 65536 / 2**31); a USER-CODE stream "
        "(implementation+oracle only, 56 histories in quick: agents whose `pos` is a property that stores and then notifies; listeners raise "
        "six exception types or re-enter the grid - remove / move the arriving agent, place a spare agent, read empties / empty_mask - during "
        "place / move / swap / move_to_empty / move_agent_to_one_of / remove on all four classes; the views must agree after every call, "
        "returned or raised); 30% of the modelled histories run on a user subclass of the grid class (docstring-only / extra constructor "
        "arguments / place_agent+remove_agent overridden calling super); every read is asked twice, iterators are first started and abandoned half-way; a populated second grid "
        "of the same class is alive in the process; after the last call a fault sweep issues every applicable rejecting call; 9% are an "
        "ORACLE-ONLY stream (agents whose truth value is False, slices with positive/negative steps); (b) one NetworkGrid (1..6 nodes, "
        "1..5 agents incl. falsy ones): place/move/remove (also towards unknown nodes), is_cell_empty, get_cell_list_contents, "
        "get_all_cell_contents, agents. After every call the observer records every agent's pos, every cell's content, what `empties` "
        "would return (without forcing the lazy build), empty_mask and all layer values. Non-trivial = at least 3 calls with one "
        "successful mutation and one read; distinct = by SHA1 of the history. Targeted enumerator: all 3-call histories over ~20 calls "
        "on 2x1 (+2x2 thorough) grids x 3 start states x torus x classes")
TRUSTED_BASE = [
    "Coq 8.16.1 kernel (coqc); vm_compute used for the Examples and for evaluating the model in the correspondence",
    "no axioms: Print Assumptions reports 'Closed under the global context' for all 44 property theorems of Properties/C08.v "
    "(and for the C18_legacygrid_* / C18_networkgrid_* lemmas re-exported by Properties/C18.v)",
    "T1 extractors: harness/tables/c08_mask_writes.py ((value, guarded-by-_empties_built) of the four _empty_mask writes, used by the "
    "model itself) and harness/tables/legacy_space_code.py with harness/pyexpr.py (gen_torus_adj, gen_torus_adj_2d, "
    "gen_distance_squared, gen_is_cell_empty, gen_move_to_empty_branch, gen_closest; the bodies of SingleGrid/MultiGrid.place_agent/"
    "remove_agent, _Grid.move_agent and SingleGrid.move_agent as lg_stmt lists; three statement skeletons compared modulo local "
    "names, message texts, docstrings); gen_out_of_bounds from legacy_nbhd_code.py",
    "the statement-DSL interpreter exec1/exec_list/run_body of Proofs/LegacyGridBridge.v (it gives the lg_stmt lists their meaning)",
    "harness/props/C08.py drivers+observers (grid and NetworkGrid) and the Gallina literal printer (T2, differential testing, not a proof)",
    "Model/LegacyGrid.v and Model/NetGrid.v are hand transcriptions of mesa/space.py as repaired by the committed fixes C08-1..4; "
    "Python int = Z, list-of-lists = coord -> list, set = list observed through membership only, NumPy bool/int arrays = functions",
    "random outcomes (cell picked by move_to_empty, position picked by move_agent_to_one_of, which branch of move_to_empty ran) "
    "are inputs to the model and legality-checked there; random.Random is not modelled",
    "exceptions are classified by type and call site, never by message text",
    "Uint63 primitive hash only in scratch Cases files, never under a theorem",
]
ASSUMPTIONS = [
    "coordinates are integers (Python ints of any size, bools for 0/1, an int subclass, or NumPy int64/int32 scalars below 2**31; "
    "NumPy uint8 is not generated: unsigned subtraction inside _distance_squared wraps around, which is NumPy arithmetic, not the grid - a NumPy position combined with an offer "
    "beyond int64 raises NumPy's own OverflowError and is not generated; grid[x] with a NumPy scalar is rejected by the library and not "
    "generated); place_agent only for an unplaced agent at in-grid coordinates; movers/remove only for a placed agent; is_cell_empty / "
    "cell lists / layer cells only in-grid (these calls are outside the quantifier and skipped by driver and model alike)",
    "order of agents inside a MultiGrid cell, of `agents`, `empties` and get_cell_list_contents is not part of the statement: compared "
    "sorted (+ duplicate flag); the order of cells in every indexing form IS compared",
    "oracle-only (not in the Gallina model): agents with truth value False, slices with a step, the not-mutated checks on caller-owned "
    "lists, repeatability of reads, the C18 fault sweep from the final state",
    "property layers: construction with 0/1/2 layers, set_cell/set_cells/reads in the model; masks, select_cells, "
    "move_agent_to_one_of via masks, add/remove_property_layer belong to C11",
    "hex grids: placement, movers, emptiness views, indexing forms, torus_adj_2d; hex neighbourhoods are C09",
    "the float cutoff of move_to_empty is not modelled: which branch ran is an input, the theorems hold for both branches",
    "move_agent_to_one_of('closest') shuffles the caller's list of offers in place (a permutation; checked as such); agents with a "
    "value-based __eq__/__hash__ are not generated (grid.agents is an AgentSet, a dict keyed by the agents: equal agents collapse there "
    "by design, and MultiGrid cells are lists searched with ==); user listeners never touch an agent that is in the middle of a call",
]
CLASSES = ["SingleGrid", "MultiGrid", "HexSingleGrid", "HexMultiGrid"]
E_OOB, E_CELL, E_NOEMPTY, E_NOTON, E_BADSEL, E_NOPOS, E_KEY, E_INDEX = 1, 2, 3, 4, 5, 6, 8, 9
MUTATORS = ("place", "remove", "move", "swap", "move_to_empty", "move_one_of")
FORM_KINDS = ("col", "ilist", "slice_y", "slice_x", "slice_xy", "cell_list", "adj", "adj2d")
SITE = {"place": "place_agent", "remove": "remove_agent", "move": "move_agent", "swap": "swap_pos",
        "move_to_empty": "move_to_empty", "move_one_of": "move_agent_to_one_of"}


# ------------------------------------------------------------------ generation
def _rand_target(rng, w, h, posn, a):
    r = rng.random()
    others = [p for b, p in posn.items() if b != a and p is not None]
    if r < 0.43:
        return [rng.randrange(w), rng.randrange(h)]
    if r < 0.46:
        # far beyond 2**53 / 2**64: Python ints are unbounded and so is the model's Z
        return [rng.choice([-1, 1]) * (10 ** rng.randint(16, 22) + rng.randrange(w)), rng.choice([-1, 1]) * (2 ** rng.choice([53, 63, 64, 70]) + rng.randrange(h))]
    if r < 0.65:
        # one wrap away in one or both axes
        x, y = rng.randrange(w), rng.randrange(h)
        return [x + rng.choice([-w, 0, w]), y + rng.choice([-h, 0, h])]
    if r < 0.80:
        return [rng.randint(-3 * w, 4 * w), rng.randint(-3 * h, 4 * h)]
    if r < 0.87 and posn.get(a) is not None:
        return list(posn[a])
    if r < 0.95 and others:
        return list(rng.choice(others))
    return [rng.choice([-1, w]), rng.randrange(h)] if rng.random() < 0.5 else [rng.randrange(w), rng.choice([-1, h])]


def _gen_history(rng, cls, w, h, torus, n, length, mode, nlayers=0):
    """mode: 'nobuild' (never reads empties), 'buildfirst', 'mixed'"""
    single = "Single" in cls
    posn = {a: None for a in range(1, n + 1)}   # approximate shadow (exact until a random mover runs)
    ops = []
    if mode == "buildfirst":
        ops.append([rng.choice(["empties", "exists"])])
    for _ in range(length):
        placed = [a for a in posn if posn[a] is not None]
        unplaced = [a for a in posn if posn[a] is None]
        occ = {p for p in posn.values() if p is not None}
        r = rng.random()
        if r < 0.20 and unplaced or not placed:
            a = rng.choice(unplaced) if unplaced else 1
            free = [(x, y) for x in range(w) for y in range(h) if (x, y) not in occ]
            if single and free and rng.random() < 0.85:
                c = rng.choice(free)
            else:
                c = (rng.randrange(w), rng.randrange(h))
            ops.append(["place", a, c[0], c[1]])
            if not (single and c in occ) and a in unplaced:
                posn[a] = c
        elif r < 0.42:
            a = rng.choice(placed)
            t = _rand_target(rng, w, h, posn, a)
            ops.append(["move", a, t[0], t[1]])
            inb = 0 <= t[0] < w and 0 <= t[1] < h
            if inb or torus:
                tt = (t[0] % w, t[1] % h)
                if not (single and tt in occ and tt != posn[a]):
                    posn[a] = tt
        elif r < 0.48:
            a = rng.choice(placed)
            ops.append(["remove", a])
            posn[a] = None
        elif r < 0.55:
            a = rng.choice(list(posn))
            b = rng.choice(list(posn)) if rng.random() < 0.85 else a
            if placed and rng.random() < 0.7:
                a = rng.choice(placed)
                b = rng.choice(placed)
            ops.append(["swap", a, b])
            if posn[a] is not None and posn[b] is not None:
                posn[a], posn[b] = posn[b], posn[a]
        elif r < 0.63 and mode != "nobuild":
            a = rng.choice(placed)
            ops.append(["move_to_empty", a])
            # outcome unknown here: keep the old position as an approximation
        elif r < 0.76:
            a = rng.choice(placed)
            k = rng.choice([0, 1, 1, 2, 2, 3, 4, 5])
            cells = [_rand_target(rng, w, h, posn, a) for _ in range(k)]
            if cells and rng.random() < 0.3:
                # force distance ties: mirror images around the agent's position
                px, py = posn[a]
                d = rng.randint(0, 2)
                cells += [[px + d, py], [px - d, py], [px, py + d]]
            if cells and rng.random() < 0.06:
                # the length crosses an algorithm-switch threshold: pad with one far filler (duplicates are allowed)
                filler = [(posn[a][0] + w // 2) % w, (posn[a][1] + h // 2) % h]
                cells = cells + [filler] * (rng.choice(THRESHOLDS[3:]) - len(cells))
            sel = rng.choice(["random", "random", "closest", "closest", "closest", "bad"])
            he = rng.choice([None, None, "warning", "error"])
            if rng.random() < 0.85 and sel == "bad":
                sel = "closest"
            ops.append(["move_one_of", a, cells, sel, he])
        else:
            kinds = ["mask", "is_empty", "index", "index", "iter", "coord_iter", "agents",
                     "col", "ilist", "slice_y", "slice_x", "slice_xy", "cell_list", "cell_list", "adj", "adj2d"]
            if mode != "nobuild":
                kinds += ["empties", "empties", "exists"]
            if nlayers:
                kinds += ["lset", "lset", "lget", "lfill", "query", "query", "query", "move_sel"]
            else:
                kinds += ["query"]
            kd = rng.choice(kinds)
            if kd == "query":
                qk = rng.choice(["select", "select", "select", "nbmask", "layer", "empty_mask_twice"])
                if qk == "select":
                    q = ["select", rng.choice([0, 1, 1, 2]), rng.choice([None, None, "highest", "lowest"]), rng.choice([0, 0, 1, 2]),
                         rng.random() < 0.6, rng.random() < 0.6, rng.randrange(3), rng.randint(-2, 3)]
                elif qk == "nbmask":
                    q = ["nbmask", rng.randrange(w), rng.randrange(h), rng.random() < 0.5, rng.random() < 0.5, rng.randint(1, 2)]
                elif qk == "layer":
                    q = ["layer", rng.randrange(3), rng.randint(-2, 3)]
                else:
                    q = ["empty_mask_twice"]
                ops.append(["query", q])
                continue
            if kd == "move_sel":
                if placed:
                    ops.append(["move_sel", rng.choice(placed), rng.choice([0, 1]), rng.random() < 0.7, rng.choice(["random", "closest"]),
                                rng.randrange(3), rng.randint(-1, 2)])
                continue

            def bound(nn):
                return rng.choice([None, None, rng.randint(-nn - 2, nn + 2)])
            if kd in ("adj", "adj2d"):
                t2 = _rand_target(rng, w, h, posn, 0)
                ops.append([kd, t2[0], t2[1]])
            elif kd == "col":
                ops.append([kd, rng.randint(-w - 1, w)])
            elif kd == "ilist":
                ops.append([kd, [_rand_target(rng, w, h, posn, 0) for _ in range(rng.randint(1, 4))]])
            elif kd == "slice_y":
                ops.append([kd, _rand_target(rng, w, h, posn, 0)[0], bound(h), bound(h)])
            elif kd == "slice_x":
                ops.append([kd, bound(w), bound(w), _rand_target(rng, w, h, posn, 0)[1]])
            elif kd == "slice_xy":
                ops.append([kd, bound(w), bound(w), bound(h), bound(h)])
            elif kd == "cell_list":
                single1 = rng.random() < 0.35
                cl = [[rng.randrange(w), rng.randrange(h)] for _ in range(1 if single1 else rng.randint(0, 4))]
                if not single1 and rng.random() < 0.05:
                    cl = cl + [[rng.randrange(w), rng.randrange(h)]] * rng.choice(THRESHOLDS[3:])
                if placed and rng.random() < 0.6:
                    cl[:1] = [list(posn[rng.choice(placed)])]
                ops.append([kd, cl, single1, rng.choice(["get", "iter"])])
            elif kd == "lset":
                t2 = [rng.randrange(w), rng.randrange(h)] if rng.random() < 0.9 else _rand_target(rng, w, h, posn, 0)
                ops.append([kd, rng.randrange(nlayers), t2[0], t2[1], rng.randint(-5, 9)])
            elif kd == "lfill":
                ops.append([kd, rng.randrange(nlayers), rng.randint(-5, 9)])
            elif kd == "lget":
                ops.append([kd, rng.randrange(nlayers), rng.randrange(w), rng.randrange(h)])
            elif kd == "is_empty":
                ops.append([kd, rng.randrange(w), rng.randrange(h)])
            elif kd == "index":
                t = _rand_target(rng, w, h, posn, 0)
                ops.append([kd, t[0], t[1]])
            else:
                ops.append([kd])
    return ops


def _mk(cls, w, h, torus, layers, n, ops, rseed=0):
    return {"cls": cls, "w": w, "h": h, "torus": bool(torus), "layers": int(layers), "n": n, "rseed": rseed, "ops": ops}


THRESHOLDS = [1, 2, 8, 16, 17, 32, 33, 64, 65, 100, 257]


def _threshold_cases(classes=None):
    """list-taking calls whose LENGTH crosses the thresholds at which an implementation might switch algorithm: long offer
    lists for move_agent_to_one_of (closest / random; duplicates; fillers far from the agent; offers that are out of range:
    negative, >= size, > 2 * size - wrapped on a torus, rejected if chosen on a bounded grid), long cell lists for
    get/iter_cell_list_contents and grid[(x1, y1), ...]"""
    out = []
    w, h = 5, 4
    for cls in (classes or CLASSES):
        for torus in (False, True):
            for sel in ("closest", "random"):
                ops = [["place", 1, 0, 0], ["place", 2, 3, 2]]
                for n in THRESHOLDS:
                    if torus:
                        # (2w-1, 0) wraps to (w-1, 0): one step from (0, 0); (2, 0) is two steps; (-w-1, 2h+1) wraps to (w-1, 1)
                        heads = [[2 * w - 1, 0], [2, 0], [-w - 1, 2 * h + 1]]
                    else:
                        heads = [[1, 0], [2, 0], [w + 5, 0]] if sel == "closest" else [[1, 0], [2, 0], [0, 1]]
                    filler = [2, 2]
                    offers = (heads + [filler] * n)[:max(n, 1)] if n < len(heads) else heads[:2] + [filler] * (n - len(heads)) + heads[2:]
                    ops.append(["move_one_of", 1, offers, sel, rng_free_he(n)])
                    ops.append(["move", 1, 0, 0])
                    if n in (33, 257):
                        ops.append(["move_one_of", 1, [filler] * n, sel, None])      # all offers equal
                        ops.append(["move", 1, 0, 0])
                ops += [["move_one_of", 1, [], sel, he] for he in (None, "warning", "error")]
                out.append(_mk(cls, w, h, torus, 0, 2, ops, rseed=7))
            # long cell lists / coordinate lists
            ops = [["place", 1, 0, 0], ["place", 2, 3, 2]]
            for n in THRESHOLDS:
                ops.append(["cell_list", [[3, 2]] * (n - 1) + [[0, 0]], False, "get" if n % 2 else "iter"])
                ops.append(["ilist", [[0, 0]] + [[3 + (w if torus else 0), 2]] * (n - 1)])
            out.append(_mk(cls, w, h, torus, 0, 2, ops))
    return out


def rng_free_he(n):
    return [None, "warning", "error"][n % 3]


def _fixed_cases():
    """the corner cases the quantifier names, spelled out (all four classes)"""
    out = _threshold_cases()
    for cls in CLASSES:
        for torus in (False, True):
            # mask / empties after one placement, never / before / after reading empties
            out.append(_mk(cls, 2, 2, torus, False, 2, [["place", 1, 0, 1], ["mask"], ["empties"], ["place", 2, 1, 1], ["mask"],
                                                        ["remove", 1], ["mask"], ["empties"], ["exists"]]))
            out.append(_mk(cls, 2, 2, torus, True, 2, [["empties"], ["place", 1, 0, 1], ["place", 2, 0, 1], ["remove", 1], ["mask"],
                                                       ["remove", 2], ["mask"], ["empties"]]))
            # move onto an occupied cell, out of bounds, own cell, wrapped own cell
            out.append(_mk(cls, 3, 2, torus, False, 2, [["place", 1, 0, 0], ["place", 2, 1, 1], ["move", 1, 1, 1], ["move", 1, 4, 3],
                                                        ["move", 1, -1, 0], ["move", 2, 1, 1], ["move", 2, 4, 3], ["agents"],
                                                        ["place", 1, 0, 0], ["move", 1, 3, 0]]))
            # full grid: move_to_empty / exists / place onto occupied
            out.append(_mk(cls, 1, 2, torus, False, 3, [["place", 1, 0, 0], ["place", 2, 0, 1], ["move_to_empty", 1], ["exists"],
                                                        ["place", 3, 0, 0], ["swap", 1, 2], ["swap", 1, 3], ["swap", 3, 3],
                                                        ["swap", 1, 1], ["remove", 2], ["move_to_empty", 1], ["empties"]]))
            out.append(_mk(cls, 1, 1, torus, False, 2, [["place", 1, 0, 0], ["move_to_empty", 1], ["move", 1, 5, -7], ["move", 1, 0, 0],
                                                        ["place", 2, 0, 0], ["index", 3, 3], ["remove", 1], ["move_to_empty", 2]]))
            # move_agent_to_one_of: every rejection and the closest rule with far-away offers
            out.append(_mk(cls, 5, 4, torus, False, 2, [
                ["place", 1, 0, 0], ["place", 2, 2, 2],
                ["move_one_of", 1, [], "random", None], ["move_one_of", 1, [], "closest", "warning"],
                ["move_one_of", 1, [], "bad", "error"], ["move_one_of", 1, [[1, 1]], "bad", None],
                ["move_one_of", 1, [[9, 0], [2, 0]], "closest", None],
                ["move_one_of", 1, [[2, 2]], "random", None], ["move_one_of", 1, [[7, 6]], "closest", None],
                ["move_one_of", 1, [[-11, 3], [3, 9], [1, 2]], "closest", None],
                ["move_one_of", 2, [[2, 3], [2, 1], [3, 2], [1, 2]], "closest", None],
                ["move_one_of", 2, [[0, -1], [5, 5]], "random", "error"]]))
        # swap_pos corner cases (same cell on the Multi grids, same agent, one / both unplaced, then a real swap),
        # exists_empty_cells before / after the grid fills up, coord_iter, torus_adj / torus_adj_2d
        for torus in (False, True):
            out.append(_mk(cls, 2, 1, torus, 0, 3, [
                ["exists"], ["swap", 1, 2], ["place", 1, 0, 0], ["swap", 1, 2], ["swap", 2, 1], ["swap", 1, 1], ["place", 2, 0, 0],
                ["swap", 1, 2], ["coord_iter"], ["place", 2, 1, 0], ["exists"], ["swap", 1, 2], ["coord_iter"], ["swap", 3, 3],
                ["adj", 0, 0], ["adj", 2, 0], ["adj", -1, -1], ["adj", 5, 7], ["adj2d", 0, 0], ["adj2d", 2, 0], ["adj2d", -1, -1], ["adj2d", 5, 7],
                ["remove", 1], ["exists"], ["swap", 1, 2], ["agents"]]))
        # every indexing form, on a bounded and on a toroidal grid, with two layers written in between
        for torus in (False, True):
            out.append(_mk(cls, 3, 2, torus, 2, 3, [
                ["place", 1, 0, 1], ["place", 2, 2, 0], ["place", 3, 2, 0], ["lset", 0, 2, 0, 7], ["lget", 0, 2, 0], ["lget", 1, 2, 0],
                ["col", 0], ["col", 2], ["col", -1], ["col", -3], ["col", 3], ["col", -4],
                ["ilist", [[2, 0], [0, 1]]], ["ilist", [[5, 2]]], ["ilist", [[0, 0], [-1, -1], [3, 0]]],
                ["slice_y", 2, None, None], ["slice_y", 5, None, None], ["slice_y", 0, 1, None], ["slice_y", 0, -1, 5], ["slice_y", 2, None, -1],
                ["slice_x", None, None, 0], ["slice_x", None, None, 2], ["slice_x", 1, None, 1], ["slice_x", -2, -1, 0], ["slice_x", 2, 1, 0],
                ["slice_xy", None, None, None, None], ["slice_xy", 1, None, None, 1], ["slice_xy", -1, None, -5, 9],
                ["cell_list", [[2, 0]], True, "get"], ["cell_list", [[2, 0]], True, "iter"], ["cell_list", [[0, 1], [2, 0], [1, 1]], False, "get"],
                ["cell_list", [[0, 1], [2, 0]], False, "iter"], ["cell_list", [], False, "get"],
                ["lfill", 1, 4], ["move", 2, 0, 0], ["lget", 1, 1, 1], ["remove", 3], ["lset", 1, 0, 0, -2], ["mask"], ["coord_iter"]]))
        # the neighbouring read-only APIs, every combination of select_cells' arguments, between mutators (2 layers)
        qs = [["query", ["select", c, e, m, oe, rl, 0, 1]] for c in (0, 1, 2) for e in (None, "highest", "lowest") for m in (0, 1, 2)
              for oe in (False, True) for rl in (True, False)]
        for torus in (False, True):
            out.append(_mk(cls, 3, 2, torus, 2, 3, [["place", 1, 0, 1], ["place", 2, 2, 0], ["lset", 0, 1, 1, 5], ["lset", 1, 0, 0, -3]] + qs[:54]
                           + [["mask"], ["empties"], ["move", 1, 1, 1]] + qs[54:] + [["query", ["nbmask", 1, 1, True, False, 1]], ["query", ["layer", 0, 1]],
                              ["query", ["empty_mask_twice"]], ["move_sel", 1, 1, True, "closest", 0, 0], ["move_sel", 2, 0, True, "random", 0, 0],
                              ["move_sel", 1, 1, False, "closest", 1, -5], ["mask"], ["exists"], ["remove", 2], ["query", ["select", 1, None, 0, True, True, 0, 0]], ["mask"]]))
        # agents 1 and 2 (3 and 4) have the same class and the same unique_id (two models); they share cells on the Multi grids and
        # every mover / remover is applied to the later-placed one
        for torus in (False, True):
            k = _mk(cls, 3, 2, torus, 0, 4, [["place", 1, 1, 1], ["place", 2, 1, 1], ["place", 3, 0, 0], ["place", 4, 1, 1], ["move", 2, 2, 0], ["cell_list", [[1, 1], [2, 0]], False, "get"],
                                           ["move", 2, 1, 1], ["remove", 2], ["place", 2, 1, 1], ["swap", 2, 3], ["swap", 1, 2], ["move_to_empty", 2], ["move", 2, 1, 1],
                                           ["move_one_of", 2, [[2, 1]], "closest", None], ["move", 4, 0, 0], ["remove", 4], ["agents"], ["remove", 1], ["mask"], ["empties"]])
            k["models"] = 2
            out.append(k)
        # coordinates spelled as bools (values 0 / 1) and as an int subclass
        for ct in ("bool", "sub"):
            k = _mk(cls, 3, 3, False, 1, 2, [["place", 1, 1, 0], ["mask"], ["empties"], ["is_empty", 1, 0], ["move", 1, 0, 1], ["mask"], ["place", 2, 1, 1],
                                             ["swap", 1, 2], ["mask"], ["move_one_of", 2, [[1, 0], [0, 0]], "closest", None], ["index", 1, 0],
                                             ["query", ["select", 0, None, 0, True, True, 0, 0]], ["remove", 1], ["mask"], ["move_to_empty", 2], ["mask"], ["exists"]])
            k["ctype"] = ct
            out.append(k)
        # rejection-sampling branch of move_to_empty (needs > 31.5 empty cells of 36)
        out.append(_mk(cls, 6, 6, False, False, 2, [["place", 1, 2, 3], ["move_to_empty", 1], ["place", 2, 0, 0], ["move_to_empty", 2],
                                                    ["move_to_empty", 1], ["mask"]], rseed=3))
    return out


def gen_cases(rng, tier):
    cases = _fixed_cases()
    n = 1000 if tier == "quick" else 12000
    for i in range(n):
        cls = CLASSES[i % 4] if rng.random() < 0.7 else rng.choice(CLASSES)
        r = rng.random()
        if r < 0.25:
            w, h = rng.choice([(1, 1), (1, 2), (2, 1), (1, 3), (3, 1), (2, 2), (1, 4)])
        elif r < 0.93:
            w, h = rng.randint(1, 4), rng.randint(1, 4)
        elif r < 0.97:
            w, h = rng.randint(3, 5), rng.randint(3, 5)
        else:
            w, h = 6, 6
        torus = rng.random() < 0.5
        layers = rng.choice([0, 0, 0, 1, 1, 2])
        if (w, h) == (6, 6):
            nag = rng.randint(1, 3)
            length = rng.randint(4, 10)
        else:
            cap = w * h
            nag = rng.randint(1, min(7, cap + 2)) if "Single" in cls else rng.randint(1, 6)
            length = rng.randint(6, 35)
        mode = rng.choice(["nobuild", "nobuild", "buildfirst", "mixed", "mixed", "mixed"])
        ops = _gen_history(rng, cls, w, h, torus, nag, length, mode, nlayers=layers)
        k = _mk(cls, w, h, torus, layers, nag, ops, rseed=rng.randrange(1 << 30))
        if rng.random() < 0.35:
            k["models"] = rng.choice([2, 2, 3])     # agents of several models on one grid: equal classes and unique_ids occur
        if rng.random() < 0.3:
            k["gridsub"] = rng.choice([1, 2, 3])      # a user subclass of the grid class (docstring-only / extra ctor args / hooks calling super)
        r2 = rng.random()
        if r2 < 0.2:
            k["np"] = True          # coordinates handed over as NumPy integer scalars (int64 / int32 mixed)
        elif r2 < 0.34:
            k["ctype"] = "bool"     # 0 / 1 handed over as False / True
        elif r2 < 0.42:
            k["ctype"] = "sub"      # an int subclass
        if rng.random() < 0.09:
            # oracle-only stream (the Z-valued model has no notion of these): agents whose truth value is False,
            # slices with a step (also negative = reversed)
            k["oracle_only"] = True
            k["falsy"] = sorted(rng.sample(range(1, nag + 1), rng.randint(1, nag)))
            for o in k["ops"]:
                if o[0] in ("slice_y", "slice_x") and rng.random() < 0.7:
                    o.append(rng.choice([-1, -1, 2, -2, 3, 1]))
                elif o[0] == "slice_xy" and rng.random() < 0.7:
                    o += [rng.choice([-1, 2, 1, -2]), rng.choice([-1, 2, 1, 3])]
        cases.append(k)
    # spelled-out exotic cases (oracle only): every agent falsy on every class, stepped / reversed slices, all readers
    for cls in CLASSES:
        k = _mk(cls, 3, 2, True, 1, 3, [
            ["place", 1, 0, 1], ["place", 2, 2, 0], ["place", 3, 1, 1], ["agents"], ["iter"], ["coord_iter"], ["cell_list", [[0, 1], [2, 0]], False, "iter"],
            ["index", 2, 0], ["slice_y", 2, None, None, -1], ["slice_x", None, None, 1, 2], ["slice_xy", None, None, None, None, -1, -1],
            ["slice_xy", 2, 0, None, None, -1, 1], ["move", 1, 10 ** 20, -(2 ** 64)], ["move_to_empty", 2], ["agents"], ["empties"], ["mask"],
            ["swap", 1, 3], ["remove", 2], ["agents"], ["exists"]])
        k.update({"oracle_only": True, "falsy": [1, 2, 3], "np": True})
        cases.append(k)
    cases.append({"cls": "NetworkGrid", "nodes": [3, 0, 7], "edges": [[0, 3]], "n": 3, "ops": [
        ["place", 1, 0], ["place", 2, 0], ["place", 3, 9], ["is_empty", 0], ["is_empty", 7], ["move", 1, 7], ["cell_list", [7, 0, 7]],
        ["all"], ["agents"], ["move", 2, 11], ["all"], ["remove", 1], ["remove", 1], ["place", 2, 3], ["cell_list", []], ["agents"]]
        + [["cell_list", [3] * (n - 1) + [0]] for n in THRESHOLDS]})
    for _ in range(120 if tier == "quick" else 1500):
        cases.append(_gen_net(rng))
    return cases + _scale_cases(tier) + _user_cases(rng, tier)


def gen_fault_cases(rng, tier):
    """for the C18 aggregator (which samples a capped number of histories): the spelled-out corner cases, the
    NetworkGrid histories (unknown-node targets) and a share of the random grid histories - all contain rejecting calls
    and every grid history ends with the fault sweep"""
    cs = gen_cases(rng, tier)
    net = [c for c in cs if c["cls"] == "NetworkGrid"]
    grid = [c for c in cs if c["cls"] != "NetworkGrid"]
    fixed, rnd = grid[:len(_fixed_cases())], grid[len(_fixed_cases()):]
    k = 90 if tier == "quick" else 1200
    return fixed + net[:(70 if tier == "quick" else 900)] + [c for c in rnd if not c.get("scale") and not c.get("user")][:k] + [c for c in cs if c.get("scale") or c.get("user")]


def enumerate_cases(tier, broken=False):
    """targeted exhaustive sweep: every history of `depth` calls from a small alphabet of mutators and reads
    on 2x1 (and 2x2 when thorough) grids with 2 agents, SingleGrid and MultiGrid (on 2x1 all four classes when
    thorough), torus on/off,
    started from three placements (nothing placed / one placed / both placed)."""
    if broken:
        for k in _threshold_cases():
            yield k
        for k in _scale_cases(tier, broken=True):
            yield k
        for k in _user_cases(_random.Random(4242), tier, broken=True):
            yield k
    depth = 3
    shapes = [(2, 2), (2, 1)] if tier == "thorough" else [(2, 1)]
    classes = CLASSES if tier == "thorough" else ["SingleGrid", "MultiGrid"]
    for (w, h) in shapes:
        cells = [(x, y) for x in range(w) for y in range(h)]
        alpha = []
        for a in (1, 2):
            alpha += [["place", a, c[0], c[1]] for c in cells[:3]]
            alpha += [["remove", a], ["move_to_empty", a]]
            alpha += [["move", a, t[0], t[1]] for t in ([0, 0], [1, 0], [w, h - 1], [-1, 0])]
        alpha += [["swap", 1, 2], ["empties"], ["move_one_of", 1, [[1, 0], [w, 0]], "closest", None]]
        starts = [[], [["place", 1, 0, 0]], [["place", 1, 0, 0], ["place", 2, 1, 0]]]
        for cls in (classes if (w, h) == (2, 1) else classes[:2]):
            for torus in (False, True):
                for st in starts:
                    # pack many depth-3 histories into one case each; the trailing probes make the views observable
                    for seq in itertools.product(alpha, repeat=depth):
                        k = _mk(cls, w, h, torus, False, 2, st + [list(o) for o in seq] + [["mask"]])
                        k["sweep"] = False      # the alphabet already holds the rejecting calls
                        yield k


# ------------------------------------------------------------------ implementation side
def _enc(p):
    return int(p[0]) * 65536 + int(p[1])


class _RecRandom(_random.Random):
    """random.Random that remembers what choice() returned last (the outcome handed to the model)"""
    last_choice = None

    def choice(self, seq):
        v = super().choice(seq)
        self.last_choice = v
        return v


def _kind_of(e, op=None, w=0, h=0, torus=True, chosen=None):
    """the kind of a rejection, from the exception TYPE and the call it came from - never from the message text
    (rewording a message must not change an observation)"""
    if isinstance(e, IndexError):
        return E_INDEX
    if isinstance(e, KeyError):
        return E_KEY
    k = op[0] if op else None

    def oob(c):
        return c is not None and not torus and not (0 <= c[0] < w and 0 <= c[1] < h)
    if type(e) is ValueError and k == "move_one_of":
        return E_BADSEL if op[2] else E_NOPOS
    if type(e) is Exception:
        if k == "swap":
            return E_NOTON
        if k == "move_to_empty":
            return E_NOEMPTY
        if k == "place":
            return E_CELL
        if k == "move":
            return E_OOB if oob((op[2], op[3])) else E_CELL
        if k == "move_one_of":
            return 99 if chosen is None else E_OOB if oob(chosen) else E_CELL
        targets = {"index": lambda: [(op[1], op[2])], "adj": lambda: [(op[1], op[2])], "ilist": lambda: [tuple(c) for c in op[1]],
                   "slice_y": lambda: [(op[1], 0)], "slice_x": lambda: [(0, op[3])]}.get(k)
        if targets and any(oob(c) for c in targets()):
            return E_OOB
    return 99


def _ids(content):
    if content is None:
        return []
    if isinstance(content, (list, tuple)):
        return [getattr(x, "_verif_id", -99) for x in content]
    return [getattr(content, "_verif_id", -99)]


def _obs_cell(ids):
    return [len(ids)] + sorted(ids)


def _axis(torus, n, d):
    d = abs(d)
    if torus:
        d %= n
        d = min(d, n - d)
    return d


def _run_net(case):
    """NetworkGrid: place / move / remove / is_cell_empty / get_cell_list_contents / get_all_cell_contents / agents"""
    import mesa
    import networkx as nx
    from mesa.space import NetworkGrid

    nodes, n = list(case["nodes"]), case["n"]
    G = nx.Graph()
    G.add_nodes_from(nodes)
    G.add_edges_from([tuple(e) for e in case.get("edges", [])])
    with warnings.catch_warnings():
        warnings.simplefilter("ignore")
        model = mesa.Model(seed=1)
        g = NetworkGrid(G)
        nmodels = [model, mesa.Model(seed=2)]

        class FalsyLen(mesa.Agent):          # every third agent has truth value False (a user class with __len__)
            def __len__(self):
                return 0

        class Sub(mesa.Agent):
            pass
        agents = {}
        for aid in range(1, n + 1):
            a = (FalsyLen, mesa.Agent, Sub)[((aid - 1) // 2) % 3](nmodels[(aid - 1) % 2])     # two models: equal class + unique_id pairs
            a._verif_id = aid
            agents[aid] = a
    name = "NetworkGrid"

    def snapshot():
        return ({aid: a.pos for aid, a in agents.items()}, {m: [x._verif_id for x in G.nodes[m]["agent"]] for m in nodes})

    def obs_state(s):
        o = [(-1 if s[0][aid] is None else int(s[0][aid])) for aid in range(1, n + 1)] + [-7]
        for m in nodes:
            o += _obs_cell(s[1][m])
        return o

    shadow = {aid: None for aid in agents}
    obs, failures = [], []

    def fail(key, i, what):
        failures.append({"key": key, "op": i, "what": f"NetworkGrid(nodes {nodes}): {what}"})

    for i, op in enumerate(case["ops"]):
        kind = op[0]
        before = snapshot()
        skip = False
        if kind == "place":
            skip = op[1] not in agents or agents[op[1]].pos is not None
        elif kind in ("remove", "move"):
            skip = op[1] not in agents or agents[op[1]].pos is None
        elif kind == "is_empty":
            skip = op[1] not in nodes
        elif kind == "cell_list":
            skip = not all(m in nodes for m in op[1])
        if skip:
            obs.append([-2, -8] + obs_state(before))
            continue
        res, exc = None, None
        try:
            with warnings.catch_warnings():
                warnings.simplefilter("ignore")
                if kind == "place":
                    g.place_agent(agents[op[1]], op[2])
                    res = []
                elif kind == "remove":
                    g.remove_agent(agents[op[1]])
                    res = []
                elif kind == "move":
                    g.move_agent(agents[op[1]], op[2])
                    res = []
                elif kind == "is_empty":
                    res = [1 if g.is_cell_empty(op[1]) else 0]
                elif kind in ("cell_list", "all", "agents"):
                    got = g.get_cell_list_contents(list(op[1])) if kind == "cell_list" else g.get_all_cell_contents() if kind == "all" else list(g.agents)
                    ids = [a._verif_id for a in got]
                    res = [1 if len(set(ids)) != len(ids) else 0] + sorted(ids)
                else:
                    raise ValueError(f"unknown op {kind}")
        except Exception as e:  # noqa: BLE001
            exc = e
        after = snapshot()
        ekind = _kind_of(exc) if exc is not None else None
        obs.append(([0] + res if exc is None else [-1, ekind]) + [-8] + obs_state(after))
        # ---- oracle
        site = {"place": "place_agent", "remove": "remove_agent", "move": "move_agent"}.get(kind, kind)
        expect_reject = None
        if kind == "place":
            if op[2] not in nodes:
                expect_reject = {E_KEY}
            elif exc is None:
                shadow[op[1]] = op[2]
        elif kind == "remove" and exc is None:
            shadow[op[1]] = None
        elif kind == "move":
            if op[2] not in nodes:
                expect_reject = {E_KEY}
            elif exc is None:
                shadow[op[1]] = op[2]
        if expect_reject is not None and exc is None:
            fail(f"C08/{name}/{site}/unknown-node-accepted", i, f"{op} was not rejected although node {op[2]} does not exist")
        if exc is not None:
            if expect_reject is None or ekind not in expect_reject:
                fail(f"C08/{name}/{site}/unexpected-exception", i, f"{op} raised {type(exc).__name__}: {exc}")
            if kind in ("place", "remove", "move") and after != before:
                failures.append({"key": f"C18/legacy-grid/networkgrid_{site}", "op": i,
                                 "what": f"NetworkGrid(nodes {nodes}): {site}{tuple(op[1:])} raised {type(exc).__name__}({exc}) but changed the state: "
                                         f"pos before {before[0]}, after {after[0]}"})
            for aid in shadow:
                shadow[aid] = after[0][aid]
        for aid in sorted(agents):
            p = after[0][aid]
            if kind in ("place", "remove", "move") and exc is None and p != shadow[aid]:
                fail(f"C08/{name}/{site}/wrong-position", i, f"after {op} agent {aid} has pos {p}, required {shadow[aid]}")
                shadow[aid] = p
            holders = [m for m in nodes for x in after[1][m] if x == aid]
            if holders != ([] if p is None else [p]):
                fail(f"C08/{name}/pos-contents-disagree", i, f"after {op} agent {aid} has pos {p} but is held by nodes {holders}")
        everyone = sorted(x for m in nodes for x in after[1][m])
        if exc is None:
            if kind == "is_empty" and res != [0 if after[1][op[1]] else 1]:
                fail(f"C08/{name}/is_cell_empty", i, f"is_cell_empty({op[1]}) = {bool(res[0])}, node holds {after[1][op[1]]}")
            expl = sorted(x for m in op[1] for x in after[1][m]) if kind == "cell_list" else []
            if kind == "cell_list" and res != [1 if len(set(expl)) != len(expl) else 0] + expl:
                fail(f"C08/{name}/cell_list_contents/wrong-agents", i, f"get_cell_list_contents({op[1]}) = {res[1:]}, nodes hold {[after[1][m] for m in op[1]]}")
            if kind in ("all", "agents") and res != [0] + everyone:
                fail(f"C08/{name}/{'get_all_cell_contents' if kind == 'all' else 'agents'}/wrong-agents", i, f"{kind} shows {res[1:]} (duplicates: {bool(res[0])}), the nodes hold {everyone}")
    return {"obs": obs, "failures": failures, "ops_for_model": [list(o) for o in case["ops"]]}


def _gen_net(rng):
    k = rng.randint(1, 6)
    nodes = rng.sample(range(0, 12), k)
    edges = [[a, b] for a in nodes for b in nodes if a < b and rng.random() < 0.4]
    n = rng.randint(1, 5)
    pos = {a: None for a in range(1, n + 1)}
    ops = []
    for _ in range(rng.randint(5, 30)):
        placed = [a for a in pos if pos[a] is not None]
        unplaced = [a for a in pos if pos[a] is None]
        r = rng.random()
        node = rng.choice(nodes) if rng.random() < 0.9 else rng.randint(0, 14)
        if (r < 0.25 and unplaced) or not placed:
            a = rng.choice(unplaced) if unplaced else 1
            ops.append(["place", a, node])
            if node in nodes and a in unplaced:
                pos[a] = node
        elif r < 0.5:
            a = rng.choice(placed)
            ops.append(["move", a, node])
            if node in nodes:
                pos[a] = node
        elif r < 0.6:
            a = rng.choice(placed)
            ops.append(["remove", a])
            pos[a] = None
        elif r < 0.7:
            ops.append(["is_empty", rng.choice(nodes)])
        elif r < 0.82:
            ops.append(["cell_list", [rng.choice(nodes) for _ in range(rng.randint(0, 4))]])
        else:
            ops.append([rng.choice(["all", "agents"])])
    return {"cls": "NetworkGrid", "nodes": nodes, "edges": edges, "n": n, "ops": ops}


def _scale_cases(tier, broken=False):
    """SCALE stream (implementation + oracle only): grids with a dimension in the hundreds that are ~97-99 % full (so that
    move_to_empty still takes its rejection-sampling branch: the cutoff grows like cells**0.384), thousands of agents in
    one MultiGrid cell, coordinates beyond 256 / 65536, handed over also as NumPy scalars"""
    out = []
    sizes = [(100, 100)] if tier == "quick" and not broken else [(100, 100), (150, 120), (200, 200)]
    classes = ["SingleGrid", "MultiGrid"] if tier == "quick" and not broken else CLASSES
    seeds = (1,) if tier == "quick" and not broken else (1, 2, 3)
    for (w, h) in sizes:
        for cls in classes:
            for sd in seeds:
                out.append({"cls": cls, "scale": "nearly_full", "w": w, "h": h, "torus": bool(sd % 2), "extra_free": 3 + 2 * sd,
                            "moves": 120 if (w, h) == (100, 100) else 60, "rseed": 1000 * sd + w, "ops": []})
    for cls in (["MultiGrid"] if tier == "quick" and not broken else ["MultiGrid", "HexMultiGrid"]):
        out.append({"cls": cls, "scale": "heavy_cell", "w": 3, "h": 2, "torus": True, "count": 2049, "rseed": 5, "ops": []})
    for cls in (["SingleGrid", "MultiGrid"] if tier == "quick" and not broken else CLASSES):
        out.append({"cls": cls, "scale": "wide", "w": 1025, "h": 3, "torus": True, "rseed": 9, "ops": []})
        if tier != "quick" or broken:
            out.append({"cls": cls, "scale": "wide", "w": 2, "h": 4097, "torus": False, "rseed": 11, "ops": []})
    return out


def _run_scale(case):
    import mesa
    import numpy as np
    from mesa import space

    name, w, h, torus = case["cls"], case["w"], case["h"], case["torus"]
    single = "Single" in name
    failures = []

    def fail(key, what):
        failures.append({"key": key, "op": 0, "what": f"{name}({w}x{h}, torus={torus}) [scale stream {case['scale']}]: {what}"})
    rng = _random.Random(case.get("rseed", 0))
    with warnings.catch_warnings():
        warnings.simplefilter("ignore")
        model = mesa.Model(seed=case.get("rseed", 0))
        g = getattr(space, name)(w, h, torus)
    where = {}          # shadow: agent -> cell
    holds = {}          # shadow: cell -> list of agents

    def put(a, c):
        where[a] = c
        holds.setdefault(c, []).append(a)

    def take(a):
        c = where.pop(a)
        holds[c].remove(a)
        if not holds[c]:
            del holds[c]
        return c

    def full_check(tag):
        empt = {(x, y) for x in range(w) for y in range(h)} - set(holds)
        if set(g.empties) != empt:
            fail(f"C08/{name}/empties", f"{tag}: `empties` differs from the cells without agents in {len(set(g.empties) ^ empt)} cells")
        m = g.empty_mask
        wrong = [(x, y) for x in range(w) for y in range(h) if bool(m[x, y]) != ((x, y) in empt)]
        if wrong:
            fail(f"C08/{name}/empty_mask", f"{tag}: empty_mask is wrong at {len(wrong)} cells, e.g. {wrong[:3]}")
        if g.exists_empty_cells() != bool(empt):
            fail(f"C08/{name}/exists_empty_cells", f"{tag}: exists_empty_cells() = {g.exists_empty_cells()} with {len(empt)} empty cells")
        bad = 0
        for x in range(w):
            col = g._grid[x]
            for y in range(h):
                content = col[y]
                ids = [] if content is None else list(content) if isinstance(content, list) else [content]
                if sorted(map(id, ids)) != sorted(map(id, holds.get((x, y), []))):
                    bad += 1
        if bad:
            fail(f"C08/{name}/pos-contents-disagree", f"{tag}: {bad} cells do not hold the agents whose pos names them")
        for a, c in where.items():
            if a.pos is None or tuple(int(v) for v in a.pos) != c:
                fail(f"C08/{name}/pos-contents-disagree", f"{tag}: an agent has pos {a.pos}, required {c}")
                break

    try:
        with warnings.catch_warnings():
            warnings.simplefilter("ignore")
            if case["scale"] == "nearly_full":
                cells = [(x, y) for x in range(w) for y in range(h)]
                rng.shuffle(cells)
                nfree = int(g.cutoff_empties) + 1 + case.get("extra_free", 3)      # just above the cutoff: the sampling branch
                for c in cells[nfree:]:
                    a = mesa.Agent(model)
                    g.place_agent(a, c)
                    put(a, c)
                movers = rng.sample(list(where), case["moves"])
                for k, a in enumerate(movers):
                    was_empty_count = w * h - len(holds)
                    try:
                        g.move_to_empty(a)
                    except Exception as e:  # noqa: BLE001
                        fail(f"C08/{name}/move_to_empty/unexpected-exception",
                             f"move_to_empty #{k} raised {type(e).__name__}: {e} although {was_empty_count} cells are empty; agent.pos is now {a.pos}")
                        if a.pos is None:
                            take(a)         # continue the final comparison from what the implementation left behind
                            failures.append({"key": "C18/legacy-grid/move_to_empty", "op": 0,
                                             "what": f"{name}({w}x{h}) [scale]: move_to_empty raised {e} and left the agent off the grid"})
                        break
                    old = take(a)
                    new = tuple(int(v) for v in a.pos)
                    if new in holds or new == old:
                        fail(f"C08/{name}/move_to_empty/not-an-empty-cell",
                             f"move_to_empty #{k} landed on {new}, which held {len(holds.get(new, []))} agent(s) (it was the agent's own cell: {new == old}); "
                             f"{was_empty_count} of {w * h} cells were empty")
                        put(a, new)
                        break
                    put(a, new)
                full_check("after the move_to_empty calls")
            elif case["scale"] == "heavy_cell":
                n = case["count"]
                ags = [mesa.Agent(model) for _ in range(n)]
                for i, a in enumerate(ags):
                    g.place_agent(a, (1, 1))
                    put(a, (1, 1))
                if len(g[1, 1]) != n or len(g.get_cell_list_contents([(1, 1)])) != n or len(g.agents) != n:
                    fail(f"C08/{name}/readers-disagree", f"a cell with {n} agents is shown with {len(g[1, 1])} / {len(g.get_cell_list_contents([(1, 1)]))} / {len(g.agents)}")
                for i in (0, 255, 256, 257, 1024, n - 1):
                    g.move_agent(ags[i], (2 + 3 * i, -i))
                    take(ags[i])
                    put(ags[i], ((2 + 3 * i) % w, (-i) % h))
                for i in (1, 512, 2047):
                    g.remove_agent(ags[i])
                    take(ags[i])
                g.swap_pos(ags[0], ags[2])
                c0, c2 = take(ags[0]), take(ags[2])
                put(ags[0], c2)
                put(ags[2], c0)
                full_check(f"after moving / removing members of a cell with {n} agents")
            elif case["scale"] == "wide":
                # coordinates in the hundreds / thousands, also as NumPy scalars, beyond 256 (small-int cache) and 65536
                spots = [(0, 0), (255, 1), (256, 2), (257, 0), (512, 1), (1000, 2), (1024, 0), (w - 1, h - 1), (300, 2), (301, 2)]
                spots = [(x % w, y % h) for x, y in spots]
                spots = list(dict.fromkeys(spots))
                ags = []
                for i, c in enumerate(spots):
                    a = mesa.Agent(model)
                    g.place_agent(a, (np.int64(c[0]), np.int32(c[1])) if i % 2 else c)
                    put(a, c)
                    ags.append(a)
                full_check("after placing at large coordinates")
                if torus:
                    targets = [(w + 256, h), (-1, -1), (65536 + 5, 2 ** 31 + 1), (2 * w + 257, -h - 2), (1024 + w, 7)]
                    for a, t in zip(ags, targets):
                        dest = (t[0] % w, t[1] % h)
                        if single and dest in holds and where[a] != dest:
                            continue
                        g.move_agent(a, t)
                        take(a)
                        put(a, dest)
                    full_check("after moves with wrapped large targets")
                a, b = ags[-1], ags[-2]
                g.swap_pos(a, b)
                ca, cb = take(a), take(b)
                put(a, cb)
                put(b, ca)
                for a in ags[:3]:
                    if not single or len(holds) < w * h:
                        g.move_to_empty(a)
                        old = take(a)
                        new = tuple(int(v) for v in a.pos)
                        if new in holds:
                            fail(f"C08/{name}/move_to_empty/not-an-empty-cell", f"landed on occupied {new}")
                        put(a, new)
                col = g[where[ags[-1]][0]]
                if len(col) != h:
                    fail(f"C08/{name}/getitem/wrong-contents", f"grid[x] has {len(col)} entries, height is {h}")
                full_check("at the end")
    except Exception as e:  # noqa: BLE001
        fail(f"C08/{name}/scale/unexpected-exception", f"{type(e).__name__}: {e}")
    return {"obs": [], "failures": failures, "model": False}


USER_LISTENERS = ["raise_on_trap", "raise_on_set", "raise_on_none", "remove_on_trap", "move_on_trap", "place_other_on_trap", "read"]
USER_EXC = ["Forbidden", "KeyError", "StopIteration", "IndexError", "AttributeError", "TypeError"]


def _user_cases(rng, tier, broken=False):
    """USER-CODE stream (implementation + oracle only): agents whose `pos` is a property that stores the value and then notifies
    listeners; the listeners raise (the caller catches and carries on) or re-enter the grid (remove / move the arriving agent,
    place another one, read empties / empty_mask) in the middle of place / move / swap / move_to_empty / move_agent_to_one_of /
    remove, on all four classes, with the empties set built or not"""
    out = []
    n = (48 if tier == "quick" else 600) if not broken else 400
    for i in range(n):
        cls = CLASSES[i % 4]
        w, h = rng.choice([(2, 2), (3, 2), (3, 3), (1, 3), (4, 2)])
        nag = rng.randint(2, 4)
        cells = [[x, y] for x in range(w) for y in range(h)]
        trap = rng.choice(cells)
        other = rng.choice([c for c in cells if c != trap] or cells)
        listeners = {}
        for a in range(1, nag + 1):
            if rng.random() < 0.7:
                listeners[str(a)] = [rng.choice(USER_LISTENERS), rng.choice(USER_EXC)]
        ops = [rng.choice([["empties"], ["mask"], ["noop"]])]
        for _ in range(rng.randint(4, 14)):
            a = rng.randint(1, nag)
            tgt = trap if rng.random() < 0.5 else rng.choice(cells)
            k = rng.choice(["place", "place", "move", "move", "move", "remove", "swap", "move_to_empty", "move_one_of", "empties", "mask"])
            if k in ("place", "move"):
                ops.append([k, a, tgt[0] + rng.choice([0, 0, w]), tgt[1]])
            elif k == "remove" or k == "move_to_empty":
                ops.append([k, a])
            elif k == "swap":
                ops.append([k, a, rng.randint(1, nag)])
            elif k == "move_one_of":
                ops.append([k, a, [tgt, rng.choice(cells)], rng.choice(["random", "closest"])])
            else:
                ops.append([k])
        out.append({"cls": cls, "user": True, "w": w, "h": h, "torus": rng.random() < 0.5, "n": nag, "trap": trap, "other": other,
                    "listeners": listeners, "rseed": rng.randrange(1 << 30), "ops": ops})
    # spelled out: the two situations of a notifying `pos`, on every class, empties built and not built
    for cls in CLASSES:
        for built in (False, True):
            pre = [["empties"]] if built else []
            out.append({"cls": cls, "user": True, "w": 3, "h": 3, "torus": True, "n": 2, "trap": [2, 2], "other": [0, 2], "rseed": 1,
                        "listeners": {"1": ["raise_on_trap", "Forbidden"]},
                        "ops": pre + [["place", 1, 0, 0], ["place", 2, 1, 1], ["move", 1, 2, 2], ["mask"], ["empties"], ["move", 2, 0, 1], ["move", 1, 1, 0]]})
            out.append({"cls": cls, "user": True, "w": 3, "h": 3, "torus": True, "n": 2, "trap": [2, 2], "other": [0, 2], "rseed": 1,
                        "listeners": {"1": ["remove_on_trap", "Forbidden"]},
                        "ops": pre + [["place", 1, 0, 0], ["place", 2, 1, 1], ["move", 1, 2, 2], ["mask"], ["empties"], ["place", 1, 2, 2], ["move", 2, 2, 2]]})
    return out


def _run_user(case):
    import mesa
    from mesa import space

    name, w, h, torus, n = case["cls"], case["w"], case["h"], case["torus"], case["n"]
    single = "Single" in name
    cells = [(x, y) for x in range(w) for y in range(h)]
    trap, other = tuple(case["trap"]), tuple(case["other"])
    failures = []

    class Forbidden(Exception):
        pass
    excs = {"Forbidden": Forbidden, "KeyError": KeyError, "StopIteration": StopIteration, "IndexError": IndexError,
            "AttributeError": AttributeError, "TypeError": TypeError}

    class Walker(mesa.Agent):
        """`pos` is a property: the setter stores the value, then notifies the listeners"""

        def __init__(self, m):
            self._pos = None
            self.listeners = []
            super().__init__(m)

        @property
        def pos(self):
            return self._pos

        @pos.setter
        def pos(self, value):
            old, self._pos = self._pos, value
            for fn in list(getattr(self, "listeners", ())):
                fn(self, old, value)

    with warnings.catch_warnings():
        warnings.simplefilter("ignore")
        model = mesa.Model(seed=1)
        model.random = _random.Random(case.get("rseed", 0))
        g = getattr(space, name)(w, h, torus)
        agents = {}
        for aid in range(1, n + 1):
            a = Walker(model)
            a._verif_id = aid
            agents[aid] = a
        spare = Walker(model)
        spare._verif_id = n + 1
    busy = [False]

    def mk_listener(kind, exc):
        def fn(agent, old, new):
            if busy[0]:
                return
            at_trap = new is not None and (int(new[0]) % w, int(new[1]) % h) == trap
            busy[0] = True
            try:
                if kind == "raise_on_trap" and at_trap:
                    raise excs[exc]("user code objects")
                if kind == "raise_on_set" and new is not None:
                    raise excs[exc]("user code objects")
                if kind == "raise_on_none" and new is None:
                    raise excs[exc]("user code objects")
                if kind == "remove_on_trap" and at_trap:
                    g.remove_agent(agent)
                if kind == "move_on_trap" and at_trap:
                    g.move_agent(agent, other)
                if kind == "place_other_on_trap" and at_trap and spare.pos is None:
                    g.place_agent(spare, other)       # a spare agent no call of the history touches
                if kind == "read":
                    _ = sorted(g.empties)
                    _ = g.empty_mask.sum()
                    g.exists_empty_cells()
            finally:
                busy[0] = False
        return fn
    for aid, (kind, exc) in (case.get("listeners") or {}).items():
        agents[int(aid)].listeners.append(mk_listener(kind, exc))

    def fail(key, i, what):
        failures.append({"key": key, "op": i, "what": f"{name}({w}x{h}, torus={torus}) [user-code stream, listeners {case.get('listeners')}, trap {trap}]: {what}"})

    def consistent(i, op, how):
        raw = {c: _ids(g._grid[c[0]][c[1]]) for c in cells}
        for aid, a in list(agents.items()) + [(n + 1, spare)]:
            p = None if a.pos is None else (int(a.pos[0]), int(a.pos[1]))
            holders = [c for c in cells for x in raw[c] if x == aid]
            if holders != ([] if p is None else [p]):
                fail(f"C08/{name}/pos-contents-disagree", i, f"after {op} ({how}) agent {aid} has pos {p} but is held by cells {holders}")
        empt = [c for c in cells if not raw[c]]
        if single and any(len(v) > 1 for v in raw.values()):
            fail(f"C08/{name}/two-agents-in-cell", i, f"after {op} ({how}) a cell holds two agents: {raw}")
        m = g.empty_mask
        if [c for c in cells if bool(m[c[0], c[1]])] != empt:
            fail(f"C08/{name}/empty_mask", i, f"after {op} ({how}) empty_mask is True at {[c for c in cells if bool(m[c[0], c[1]])]}, the cells without agents are {empt}")
        if g._empties_built and sorted(g._empties) != empt:
            fail(f"C08/{name}/empties", i, f"after {op} ({how}) `empties` is {sorted(g._empties)}, the cells without agents are {empt}")
        if [c for c in cells if g.is_cell_empty(c)] != empt:
            fail(f"C08/{name}/is_cell_empty", i, f"after {op} ({how}) is_cell_empty disagrees with the contents")
        with warnings.catch_warnings():
            warnings.simplefilter("ignore")
            if sorted(a._verif_id for a in g.agents) != sorted(x for c in cells for x in raw[c]):
                fail(f"C08/{name}/readers-disagree", i, f"after {op} ({how}) grid.agents disagrees with the contents {raw}")

    for i, op in enumerate(case["ops"]):
        k = op[0]
        how = "returned"
        try:
            with warnings.catch_warnings():
                warnings.simplefilter("ignore")
                if k == "place":
                    a = agents.get(op[1])
                    if a is None or a.pos is not None or not (0 <= op[2] < w and 0 <= op[3] < h):
                        continue
                    g.place_agent(a, (op[2], op[3]))
                elif k in ("move", "remove", "move_to_empty", "move_one_of"):
                    a = agents.get(op[1])
                    if a is None or a.pos is None:
                        continue
                    if k == "move":
                        g.move_agent(a, (op[2], op[3]))
                    elif k == "remove":
                        g.remove_agent(a)
                    elif k == "move_to_empty":
                        g.move_to_empty(a)
                    else:
                        g.move_agent_to_one_of(a, [tuple(c) for c in op[2]], selection=op[3])
                elif k == "swap":
                    if op[1] in agents and op[2] in agents:
                        g.swap_pos(agents[op[1]], agents[op[2]])
                elif k == "empties":
                    _ = g.empties
                elif k == "mask":
                    _ = g.empty_mask
        except Exception as e:  # noqa: BLE001  user code objected, or the grid rejected the call: the caller carries on
            how = f"raised {type(e).__name__}"
        consistent(i, op, how)
    if not failures:
        _ = g.empties
        consistent(len(case["ops"]), ["<end>"], "after reading empties")
    return {"obs": [], "failures": failures, "model": False}


def run_impl(case):
    if case.get("scale"):
        return _run_scale(case)
    if case.get("user"):
        return _run_user(case)
    if case["cls"] == "NetworkGrid":
        return _run_net(case)
    import mesa
    from mesa import space

    cls = getattr(space, case["cls"])
    name = case["cls"]
    w, h, torus, n = case["w"], case["h"], case["torus"], case["n"]
    single = "Single" in name
    cells = [(x, y) for x in range(w) for y in range(h)]
    with warnings.catch_warnings():
        warnings.simplefilter("ignore")
        model = mesa.Model(seed=1)
        rec = _RecRandom(case.get("rseed", 0))
        model.random = rec
        # agents of TWO or THREE models may share one grid: unique_ids are unique per model only, so agents of the same class
        # with the same unique_id meet (also in one MultiGrid cell); the driver tells agents apart by identity only
        models = [model] + [mesa.Model(seed=2 + j) for j in range(max(0, int(case.get("models") or 1) - 1))]
        for m2 in models:
            m2.random = rec
        decoy_model = mesa.Model(seed=9)
        nl = int(case.get("layers") or 0)
        lay = [space.PropertyLayer(f"layer{j}", w, h, j, dtype=int) for j in range(nl)]
        gs = int(case.get("gridsub") or 0)
        if gs == 1:
            cls = type("DocOnly" + name, (cls,), {"__doc__": "a user subclass that only changes the docstring"})
        elif gs == 2:
            base2 = cls

            class WithArgs(base2):
                """extra constructor arguments, passed on to the library class"""

                def __init__(self, width, height, torus, *rest, label="mine", **kw):
                    self.label = label
                    super().__init__(width, height, torus, *rest, **kw)
            cls = WithArgs
        elif gs == 3:
            base3 = cls

            class Counting(base3):
                """overrides the public hooks and calls super()"""
                placed_count = 0

                def place_agent(self, agent, pos):
                    type(self).placed_count += 1
                    return super().place_agent(agent, pos)

                def remove_agent(self, agent):
                    self.last_removed = agent
                    return super().remove_agent(agent)
            cls = Counting
        g = cls(w, h, torus) if nl == 0 else cls(w, h, torus, lay[0]) if nl == 1 else cls(w, h, torus, lay)
        lshadow = {j: {c: j for c in cells} for j in range(nl)}      # what the layers must hold (statement: last write)
        # prior history in the same process: a second grid of the same class, alive and populated, must not matter
        decoy = cls(w, h, torus)
        decoy_agent = mesa.Agent(decoy_model)
        decoy.place_agent(decoy_agent, (0, 0))
        _ = decoy.empties
        # a heterogeneous population: the framework base, a subclass with an extra attribute, a subclass of the subclass
        # with a mixin AFTER the framework base in the MRO, and (oracle-only stream) agents whose truth value is False

        class Sub(mesa.Agent):
            def __init__(self, m):
                super().__init__(m)
                self.wealth = 3

        class Mixin:
            tag = "mixin"

        class SubSub(Sub, Mixin):
            pass

        class FalsyBool(mesa.Agent):
            def __bool__(self):
                return False

        class FalsyLen(Sub):
            def __len__(self):
                return 0

        class IterableAgent(mesa.Agent):
            def __iter__(self):
                return iter(())
        falsy = set(case.get("falsy") or [])
        agents = {}
        for aid in range(1, n + 1):
            row = (aid - 1) // len(models)       # the agents of one row have the same class and the same unique_id
            kls = (FalsyBool, FalsyLen, IterableAgent)[row % 3] if aid in falsy else (mesa.Agent, Sub, SubSub)[row % 3]
            a = kls(models[(aid - 1) % len(models)])
            a._verif_id = aid
            agents[aid] = a
    agents_pending = False      # fixes/"_Grid.agents keeps agents whose truth value is False" is in /repo: always checked
    def _huge(v):
        return any(_huge(x) for x in v) if isinstance(v, (list, tuple)) else isinstance(v, int) and not isinstance(v, bool) and abs(v) >= 2 ** 31
    # NumPy-scalar spelling only in histories without coordinates beyond int32: arithmetic between a stored NumPy position
    # and an unbounded Python int raises NumPy's own OverflowError, which is NumPy's limit, not the grid's
    use_np = bool(case.get("np")) and not _huge(case["ops"])

    ctype = case.get("ctype") or ("np" if use_np else "int")

    class MyInt(int):
        """a user subclass of int"""

    def P1(v):
        """the spelling of one integer coordinate handed to the API: a Python int, a NumPy integer scalar, a bool where the
        value is 0 / 1 (bool is an int subclass), an int subclass"""
        if ctype == "np" and use_np and abs(v) < 2 ** 31:
            import numpy as np
            return np.int64(v) if v % 2 else np.int32(v)
        if ctype == "bool" and v in (0, 1):
            return bool(v)
        if ctype == "sub":
            return MyInt(v)
        return v

    def P(c):
        return (P1(c[0]), P1(c[1]))

    def step_of(o, k):
        return o[k] if len(o) > k else None

    def raw():
        return {c: _ids(g._grid[c[0]][c[1]]) for c in cells}

    def snapshot():
        """everything the property talks about, read without changing anything"""
        r = raw()
        if g._empties_built:
            emp = sorted(tuple(p) for p in g._empties)
        else:
            emp = sorted(c for c in cells if g.is_cell_empty(c))
        m = g.empty_mask
        return {"pos": {aid: (None if a.pos is None else tuple(int(v) for v in a.pos)) for aid, a in agents.items()},
                "raw": r, "emp": emp, "mask": [bool(m[c[0], c[1]]) for c in cells]}

    def obs_state(s):
        o = [(-1 if s["pos"][aid] is None else _enc(s["pos"][aid])) for aid in range(1, n + 1)]
        o.append(-7)
        for c in cells:
            o += _obs_cell(s["raw"][c])
        o.append(-7)
        o += [_enc(p) for p in s["emp"]]
        o.append(-7)
        o += [1 if b else 0 for b in s["mask"]]
        return o

    def layers_now():
        return [int(g.properties[f"layer{j}"].data[c[0], c[1]]) for j in range(nl) for c in cells]

    def canon(s):
        return (s["pos"], {c: sorted(v) for c, v in s["raw"].items()}, s["emp"], s["mask"])

    shadow = {aid: None for aid in agents}
    obs, failures, ops_for_model = [], [], []

    def fail(key, i, what):
        failures.append({"key": key, "op": i, "what": f"{name}({w}x{h}, torus={torus}): {what}"})

    def occupied_by_other(c, aid):
        return any(p == c for b, p in shadow.items() if b != aid and p is not None)

    def neighbour_query(q):
        """read-only calls of the neighbouring APIs that touch the same state (property-layer selection, neighbourhood masks,
        layer aggregates).  They are no-ops for C08: whatever they answer, every view and every layer must be as before."""
        import numpy as np
        what = q[0]
        lname = (lambda j: f"layer{j % nl}") if nl else None
        if what == "select":
            _, cond, extreme, nmasks, only_empty, return_list, j, thr = q
            kw = {"only_empty": bool(only_empty), "return_list": bool(return_list)}
            if cond and nl:
                kw["conditions"] = {lname(j): (lambda d, thr=thr: d >= thr)} if cond == 1 else \
                    {lname(j): (lambda d, thr=thr: d >= thr), lname(j + 1): (lambda d, thr=thr: d <= thr + 3)}
            if extreme and nl:
                kw["extreme_values"] = {lname(j): extreme}
            if nmasks:
                m1 = np.zeros((w, h), dtype=bool)
                m1[::2, :] = True
                m2 = np.ones((w, h), dtype=bool)
                m2[:, -1] = False
                kw["masks"] = m1 if nmasks == 1 else [m1, m2]
            out = g.select_cells(**kw)
            if only_empty:
                sel = [tuple(int(v) for v in c) for c in out] if return_list else [tuple(int(v) for v in c) for c in zip(*np.where(out))]
                return [c for c in sel if g._grid[c[0]][c[1]] not in (None, [])]     # occupied cells selected as empty
            return []
        if what == "nbmask":
            _, x, y, moore, ic, r = q
            x, y = x % w, y % h
            if "Hex" in name:
                g.get_neighborhood_mask((x, y), bool(ic), r)
            else:
                g.get_neighborhood_mask((x, y), bool(moore), bool(ic), r)
            return []
        if what == "layer" and nl:
            _, j, thr = q
            layer = g.properties[lname(j)]
            layer.select_cells(lambda d: d >= thr)
            layer.select_cells(lambda d: d >= thr, return_list=False)
            layer.aggregate_property(np.sum)
            layer.aggregate_property(np.max)
            return []
        if what == "empty_mask_twice":
            m = g.empty_mask
            (m & g.empty_mask).any()
            return []
        return []

    for i, op in enumerate(case["ops"]):
        kind = op[0]
        if kind == "move_sel":
            # move_agent_to_one_of over the result of select_cells: the query first (a no-op), then the move with those offers
            _, aid, cond, only_empty, selmode, j, thr = op
            b4 = snapshot()
            l4 = layers_now()
            try:
                import numpy as np  # noqa: F401
                kw = {"only_empty": bool(only_empty)}
                if cond and nl:
                    kw["conditions"] = {f"layer{j % nl}": (lambda d, thr=thr: d >= thr)}
                with warnings.catch_warnings():
                    warnings.simplefilter("ignore")
                    offers = [[int(c[0]), int(c[1])] for c in g.select_cells(**kw)][:6]
            except Exception as e:  # noqa: BLE001
                offers = []
                fail(f"C08/{name}/select_cells/unexpected-exception", i, f"select_cells for {op} raised {type(e).__name__}: {e}")
            if canon(snapshot()) != canon(b4) or layers_now() != l4:
                fail(f"C08/{name}/select_cells/changed-the-grid", i, f"the query of {op} changed a view of the grid or a layer: {snapshot()} / before {b4}")
            op = ["move_one_of", aid, offers, selmode, None]
            kind = "move_one_of"
        mop = list(op)
        # ---- calls outside the quantifier are skipped (driver and model alike)
        skip = False
        if kind == "place":
            a = agents.get(op[1])
            skip = a is None or a.pos is not None or not (0 <= op[2] < w and 0 <= op[3] < h)
        elif kind in ("remove", "move", "move_to_empty", "move_one_of"):
            a = agents.get(op[1])
            skip = a is None or a.pos is None
        elif kind == "swap":
            skip = op[1] not in agents or op[2] not in agents
        elif kind == "is_empty":
            skip = not (0 <= op[1] < w and 0 <= op[2] < h)
        elif kind == "ilist":
            skip = not op[1]
        elif kind == "cell_list":
            skip = not all(0 <= c[0] < w and 0 <= c[1] < h for c in op[1]) or (op[2] and len(op[1]) != 1)
        elif kind in ("lset", "lget"):
            skip = not (0 <= op[1] < nl and 0 <= op[2] < w and 0 <= op[3] < h)
        elif kind == "lfill":
            skip = not (0 <= op[1] < nl)
        before = snapshot()
        if skip:
            obs.append([-2, -8] + obs_state(before) + [-9] + layers_now())
            if kind == "move_to_empty":
                mop = ["move_to_empty", op[1], False, 0, 0]
            elif kind == "move_one_of":
                mop = list(op) + [0, 0]
            ops_for_model.append(mop)
            continue
        res = None
        exc = None
        warned = 0
        rec.last_choice = None
        n_empty_before = sum(1 for c in cells if not before["raw"][c])
        offered_arg = [P(c) for c in op[2]] if kind == "move_one_of" else None
        offered_copy = list(offered_arg) if offered_arg is not None else None
        cell_arg = (P(op[1][0]) if op[2] else [P(c) for c in op[1]]) if kind == "cell_list" else None
        cell_copy = list(cell_arg) if isinstance(cell_arg, list) else None

        def call():
            res = None
            if kind == "place":
                g.place_agent(agents[op[1]], P((op[2], op[3])))
                res = []
            elif kind == "remove":
                g.remove_agent(agents[op[1]])
                res = []
            elif kind == "move":
                g.move_agent(agents[op[1]], P((op[2], op[3])))
                res = []
            elif kind == "swap":
                g.swap_pos(agents[op[1]], agents[op[2]])
                res = []
            elif kind == "move_to_empty":
                g.move_to_empty(agents[op[1]])
                res = []
            elif kind == "move_one_of":
                g.move_agent_to_one_of(agents[op[1]], offered_arg,
                                       selection={"random": "random", "closest": "closest"}.get(op[3], "nearest"),
                                       handle_empty=op[4])
                res = []
            elif kind == "empties":
                v = g.empties
                res = [_enc(p) for p in sorted(tuple(p) for p in v)]
            elif kind == "mask":
                m = g.empty_mask
                res = [1 if m[c[0], c[1]] else 0 for c in cells]
            elif kind == "query":
                try:
                    with warnings.catch_warnings():
                        warnings.simplefilter("ignore")
                        bad = neighbour_query(op[1])
                except Exception:  # noqa: BLE001  what the query itself answers / rejects is C11's business
                    bad = []
                if bad:
                    fail(f"C08/{name}/select_cells/occupied-cell-selected-as-empty", i, f"{op}: only_empty selection contains occupied cells {bad}")
                m = g.empty_mask        # for the model this op is a read of empty_mask: the query itself is a no-op
                res = [1 if m[c[0], c[1]] else 0 for c in cells]
            elif kind == "is_empty":
                res = [1 if g.is_cell_empty(P((op[1], op[2]))) else 0]
            elif kind == "exists":
                res = [1 if g.exists_empty_cells() else 0]
            elif kind == "index":
                res = _obs_cell(_ids(g[P((op[1], op[2]))]))
            elif kind == "iter":
                res = []
                for content in g:
                    res += _obs_cell(_ids(content))
            elif kind == "coord_iter":
                res = []
                for content, c in g.coord_iter():
                    res += [_enc(c)] + _obs_cell(_ids(content))
            elif kind == "agents":
                ids = [a._verif_id for a in g.agents]
                res = [1 if len(set(ids)) != len(ids) else 0] + sorted(ids)
            elif kind == "adj":
                q = g.torus_adj(P((op[1], op[2])))
                res = [int(q[0]), int(q[1])]
            elif kind == "adj2d":
                q = space._HexGrid.torus_adj_2d(g, P((op[1], op[2])))     # defined on the hex classes; uses width / height only
                res = [int(q[0]), int(q[1])]
            elif kind == "col":
                res = [v for content in g[op[1]] for v in _obs_cell(_ids(content))]
            elif kind == "ilist":
                res = [v for content in g[tuple(P(c) for c in op[1])] for v in _obs_cell(_ids(content))]
            elif kind == "slice_y":
                res = [v for content in g[P1(op[1]), slice(op[2], op[3], step_of(op, 4))] for v in _obs_cell(_ids(content))]
            elif kind == "slice_x":
                res = [v for content in g[slice(op[1], op[2], step_of(op, 4)), P1(op[3])] for v in _obs_cell(_ids(content))]
            elif kind == "slice_xy":
                res = [v for content in g[slice(op[1], op[2], step_of(op, 5)), slice(op[3], op[4], step_of(op, 6))] for v in _obs_cell(_ids(content))]
            elif kind == "cell_list":
                arg = cell_arg
                got = g.get_cell_list_contents(arg) if op[3] == "get" else list(g.iter_cell_list_contents(arg))
                ids = [a._verif_id for a in got]
                res = [1 if len(set(ids)) != len(ids) else 0] + sorted(ids)
            elif kind == "lset":
                g.properties[f"layer{op[1]}"].set_cell((op[2], op[3]), op[4])
                lshadow[op[1]][(op[2], op[3])] = op[4]
                res = []
            elif kind == "lfill":
                g.properties[f"layer{op[1]}"].set_cells(op[2])
                lshadow[op[1]] = {c: op[2] for c in cells}
                res = []
            elif kind == "lget":
                res = [int(g.properties[f"layer{op[1]}"].data[op[2], op[3]])]
            else:
                raise ValueError(f"unknown op {kind}")
            return res

        try:
            with warnings.catch_warnings(record=True) as wl:
                warnings.simplefilter("always")
                if kind in ("iter", "coord_iter", "agents") or (kind == "cell_list" and op[3] == "iter"):
                    # an iterator started and abandoned half-way must not disturb anything
                    it = iter(g) if kind in ("iter", "agents") else g.coord_iter() if kind == "coord_iter" else g.iter_cell_list_contents(cell_arg)
                    it = iter(it)
                    for _k in range(len(cells) // 2 + 1):      # abandon it in the middle (past the first column)
                        next(it, None)
                    del it
                res = call()
                if kind not in MUTATORS and kind not in ("lset", "lfill"):
                    again = call()      # the same question at the same logical time has the same answer
                    if again != res:
                        fail(f"C08/{name}/{kind}/not-repeatable", i, f"{op} answered {res} and then {again} with nothing in between")
            warned = 1 if any(issubclass(x.category, RuntimeWarning) for x in wl) else 0
        except Exception as e:  # noqa: BLE001
            exc = e
        after = snapshot()
        ekind = _kind_of(exc, op, w, h, torus, rec.last_choice) if exc is not None else None
        if kind == "move_one_of" and exc is None and not op[2]:
            res = [warned]
        obs.append(([0] + res if exc is None else [-1, ekind]) + [-8] + obs_state(after) + [-9] + layers_now())
        # ---- outcome handed to the model
        if kind == "move_to_empty":
            out = after["pos"][op[1]] if exc is None and after["pos"][op[1]] is not None else (0, 0)
            mop = ["move_to_empty", op[1], bool(n_empty_before > g.cutoff_empties), out[0], out[1]]
        elif kind == "move_one_of":
            out = rec.last_choice if rec.last_choice is not None else (0, 0)
            mop = list(op) + [int(out[0]), int(out[1])]
        ops_for_model.append(mop)

        # ================= the oracle: the property statement over the implementation's own observations
        site = SITE.get(kind, kind)
        raw_after = after["raw"]
        expect_reject = None      # None = must succeed; else set of acceptable error kinds
        if kind == "place":
            aid, c = op[1], (op[2], op[3])
            if single and occupied_by_other(c, aid):
                expect_reject = {E_CELL}
                if exc is None:
                    fail(f"C08/{name}/place_agent/occupied-cell-accepted", i, f"place_agent(agent {aid}, {c}) succeeded although the cell holds agent(s) {before['raw'][c]}")
            elif exc is None:
                shadow[aid] = c
        elif kind == "remove" and exc is None:
            shadow[op[1]] = None
        elif kind == "move":
            aid, t = op[1], (op[2], op[3])
            inb = 0 <= t[0] < w and 0 <= t[1] < h
            if not inb and not torus:
                expect_reject = {E_OOB}
                if exc is None:
                    fail(f"C08/{name}/move_agent/out-of-bounds-accepted", i, f"move_agent(agent {aid}, {t}) on a bounded grid was not rejected; pos is now {after['pos'][aid]}")
            else:
                tt = (t[0] % w, t[1] % h)
                if single and occupied_by_other(tt, aid):
                    expect_reject = {E_CELL}
                    if exc is None:
                        fail(f"C08/{name}/move_agent/occupied-cell-accepted", i, f"move_agent(agent {aid}, {t}) succeeded although cell {tt} holds another agent")
                elif exc is None:
                    shadow[aid] = tt
                    if after["pos"][aid] != tt:
                        fail(f"C08/{name}/move_agent/wrong-target", i, f"move_agent(agent {aid}, {t}) left the agent at {after['pos'][aid]}, required {tt}")
                        shadow[aid] = after["pos"][aid]
        elif kind == "swap":
            a1, a2 = op[1], op[2]
            if shadow[a1] is None or shadow[a2] is None:
                expect_reject = {E_NOTON}
                if exc is None:
                    fail(f"C08/{name}/swap_pos/unplaced-agent-accepted", i, f"swap_pos(agent {a1}, agent {a2}) succeeded although one of them is not on the grid")
            elif exc is None:
                shadow[a1], shadow[a2] = shadow[a2], shadow[a1]
        elif kind == "move_to_empty":
            aid = op[1]
            was_empty = [c for c in cells if not any(p == c for p in shadow.values())]
            if not was_empty:
                expect_reject = {E_NOEMPTY}
                if exc is None:
                    fail(f"C08/{name}/move_to_empty/no-empty-cell-accepted", i, f"move_to_empty(agent {aid}) succeeded on a grid without an empty cell; pos now {after['pos'][aid]}")
            elif exc is None:
                if after["pos"][aid] not in was_empty:
                    fail(f"C08/{name}/move_to_empty/not-an-empty-cell", i, f"move_to_empty(agent {aid}) landed on {after['pos'][aid]}, which was not empty (empty cells were {was_empty})")
                shadow[aid] = after["pos"][aid]
        elif kind == "move_one_of":
            aid, offered, sel, he = op[1], [tuple(c) for c in op[2]], op[3], op[4]
            if not offered:
                if he == "error":
                    expect_reject = {E_NOPOS}
            elif sel not in ("random", "closest"):
                expect_reject = {E_BADSEL}
            else:
                cur = shadow[aid] if shadow[aid] is not None else before["pos"][aid]

                def d2(c):
                    return _axis(torus, w, c[0] - cur[0]) ** 2 + _axis(torus, h, c[1] - cur[1]) ** 2
                allowed = offered
                if sel == "closest":
                    dmin = min(d2(c) for c in offered)
                    allowed = [c for c in offered if d2(c) == dmin]
                ok_targets, kinds = set(), set()
                for c in allowed:
                    inb = 0 <= c[0] < w and 0 <= c[1] < h
                    if not inb and not torus:
                        kinds.add(E_OOB)
                        continue
                    tt = (c[0] % w, c[1] % h)
                    if single and occupied_by_other(tt, aid):
                        kinds.add(E_CELL)
                    else:
                        ok_targets.add(tt)
                if exc is None:
                    land = after["pos"][aid]
                    if land not in ok_targets:
                        all_wrapped = {(c[0] % w, c[1] % h) for c in offered if torus or (0 <= c[0] < w and 0 <= c[1] < h)}
                        if land not in all_wrapped:
                            fail(f"C08/{name}/move_agent_to_one_of/not-an-offered-cell", i, f"move_agent_to_one_of(agent {aid}, {offered}, {sel}) landed on {land}")
                        elif sel == "closest":
                            fail(f"C08/{name}/move_agent_to_one_of/closest-not-nearest", i,
                                 f"move_agent_to_one_of(agent {aid} at {cur}, {offered}, 'closest') landed on {land}; the nearest offered cells (toroidal distance) are {sorted(ok_targets)}")
                        else:
                            fail(f"C08/{name}/move_agent_to_one_of/occupied-cell-accepted", i, f"move_agent_to_one_of(agent {aid}, {offered}) landed on {land}, held by another agent")
                    shadow[aid] = land
                else:
                    expect_reject = kinds     # empty: nothing justifies a rejection
                    picked = tuple(rec.last_choice) if rec.last_choice is not None else None
                    if sel == "closest" and picked is not None and picked not in allowed and ekind not in kinds:
                        expect_reject = {ekind}
                        fail(f"C08/{name}/move_agent_to_one_of/closest-not-nearest", i,
                             f"move_agent_to_one_of(agent {aid} at {cur}, {offered}, 'closest') picked {picked} (and raised {exc}); the nearest offered positions (toroidal distance) are {allowed}")
        elif kind == "index":
            t = (op[1], op[2])
            inb = 0 <= t[0] < w and 0 <= t[1] < h
            if not inb and not torus:
                expect_reject = {E_OOB}
                if exc is None:
                    fail(f"C08/{name}/getitem/out-of-bounds-accepted", i, f"grid[{t[0]}, {t[1]}] on a bounded grid was not rejected")
            elif exc is None:
                tt = (t[0] % w, t[1] % h)
                if sorted(res[1:]) != sorted(raw_after[tt]) or res[0] != len(raw_after[tt]):
                    fail(f"C08/{name}/getitem/wrong-contents", i, f"grid[{t[0]}, {t[1]}] shows agents {res[1:]}, cell {tt} holds {raw_after[tt]}")
        # -- rejected / unexpected
        if exc is not None:
            if kind not in FORM_KINDS and (expect_reject is None or ekind not in expect_reject):
                fail(f"C08/{name}/{site}/unexpected-exception", i, f"{op} raised {type(exc).__name__}: {exc}")
            if kind in MUTATORS and canon(after) != canon(before):
                changed = [k for k, x, y in zip(("pos", "cell contents", "empties", "empty_mask"), canon(before), canon(after)) if x != y]
                what = (f"{site}{tuple(op[1:])} raised {type(exc).__name__}({exc}) but changed {', '.join(changed)}: "
                        f"pos before {before['pos']}, after {after['pos']}")
                failures.append({"key": f"C18/legacy-grid/{site}", "op": i, "what": f"{name}({w}x{h}, torus={torus}): {what}"})
            for aid in shadow:      # continue from what the implementation left behind
                shadow[aid] = after["pos"][aid]
        # ---- state checks after every call
        for aid in sorted(agents):
            p = after["pos"][aid]
            if kind in MUTATORS and exc is None and p != shadow[aid]:
                fail(f"C08/{name}/{site}/wrong-position", i, f"after {op} agent {aid} has pos {p}, required {shadow[aid]}")
                shadow[aid] = p
            holders = [c for c in cells for x in raw_after[c] if x == aid]
            want = [] if p is None else [p]
            if holders != want:
                fail(f"C08/{name}/pos-contents-disagree", i, f"after {op} agent {aid} has pos {p} but is held by cells {holders}")
        for c in cells:
            if single and len(raw_after[c]) > 1:
                fail(f"C08/{name}/two-agents-in-cell", i, f"after {op} cell {c} holds {raw_after[c]}")
            if -99 in raw_after[c]:
                fail(f"C08/{name}/foreign-content", i, f"after {op} cell {c} holds something that is not one of the agents")
        truly_empty = [c for c in cells if not raw_after[c]]
        if after["emp"] != truly_empty:
            st = "already built" if g._empties_built else "not built yet"
            fail(f"C08/{name}/empties", i, f"after {op} `empties` ({st}) is {after['emp']}, the cells without agents are {truly_empty}")
        if [c for c, b in zip(cells, after["mask"]) if b] != truly_empty:
            fail(f"C08/{name}/empty_mask", i, f"after {op} empty_mask is True at {[c for c, b in zip(cells, after['mask']) if b]}, the cells without agents are {truly_empty} "
                                             f"(_empties_built={g._empties_built})")
        if [c for c in cells if g.is_cell_empty(c)] != truly_empty:
            fail(f"C08/{name}/is_cell_empty", i, f"after {op} is_cell_empty disagrees with the cell contents")
        # the public readers against the raw cell contents
        try:
            via_index = {c: _ids(g[c[0], c[1]]) for c in cells}
            via_iter = [_ids(x) for x in g]
            via_coord = [(tuple(c), _ids(x)) for x, c in g.coord_iter()]
            with warnings.catch_warnings():
                warnings.simplefilter("ignore")
                via_agents = sorted(a._verif_id for a in g.agents)
            if agents_pending:
                via_agents = sorted(x for c in cells for x in raw_after[c])
            if via_index != raw_after or via_iter != [raw_after[c] for c in cells] or via_coord != [(c, raw_after[c]) for c in cells] \
                    or via_agents != sorted(x for c in cells for x in raw_after[c]):
                fail(f"C08/{name}/readers-disagree", i, f"after {op}: grid[x,y] {via_index}, iteration {via_iter}, coord_iter {via_coord}, agents {via_agents}, cells {raw_after}")
        except Exception as e:  # noqa: BLE001
            fail(f"C08/{name}/readers-disagree", i, f"after {op} a reader raised {type(e).__name__}: {e}")
        if kind == "query" and canon(after) != canon(before):
            changed = [k for k, x, y in zip(("pos", "cell contents", "empties", "empty_mask"), canon(before), canon(after)) if x != y]
            fail(f"C08/{name}/{op[1][0]}/read-only-call-changed-the-grid", i,
                 f"the read-only call {op[1]} changed {', '.join(changed)}: empty_mask before {before['mask']}, after {after['mask']}")
        # the property layers never interfere: they hold the last value written, whatever the grid did;
        # and a layer call leaves pos / contents / empties / mask alone
        if nl:
            want_l = [lshadow[j][c] for j in range(nl) for c in cells]
            if layers_now() != want_l:
                fail(f"C08/{name}/layers/changed-by-grid-call" if kind not in ("lset", "lfill") else f"C08/{name}/layers/wrong-value", i,
                     f"after {op} the property layers hold {layers_now()}, required {want_l}")
                for j in range(nl):
                    for c in cells:
                        lshadow[j][c] = int(g.properties[f'layer{j}'].data[c[0], c[1]])
            if kind in ("lset", "lfill", "lget") and canon(after) != canon(before):
                fail(f"C08/{name}/layers/grid-changed-by-layer-call", i, f"{op} changed the grid state: pos {before['pos']} -> {after['pos']}")
        # the indexing forms against the raw cell contents
        if kind in FORM_KINDS:
            def wrap(c):
                if 0 <= c[0] < w and 0 <= c[1] < h:
                    return c
                return (c[0] % w, c[1] % h) if torus else None
            want, want_exc = None, None
            if kind == "col":
                want_exc = None if -w <= op[1] < w else E_INDEX
                if want_exc is None:
                    want = [(op[1] % w, y) for y in range(h)]
            elif kind in ("adj", "adj2d"):
                wq = wrap((op[1], op[2])) if kind == "adj" else (op[1] % w, op[2] % h)
                want_exc = E_OOB if wq is None else None
                if exc is None and wq is not None and tuple(res) != tuple(wq):
                    fail(f"C08/{name}/{'torus_adj' if kind == 'adj' else 'torus_adj_2d'}/wrong-coordinate", i,
                         f"{'torus_adj' if kind == 'adj' else 'torus_adj_2d'}({(op[1], op[2])}) = {tuple(res)}, required {wq}")
            elif kind == "ilist":
                ws = [wrap(tuple(c)) for c in op[1]]
                want_exc = E_OOB if None in ws else None
                want = None if want_exc else ws
            elif kind == "slice_y":
                x0 = wrap((op[1], 0))
                want_exc = E_OOB if x0 is None else None
                want = None if want_exc else [(x0[0], y) for y in range(h)[slice(op[2], op[3], step_of(op, 4))]]
            elif kind == "slice_x":
                y0 = wrap((0, op[3]))
                want_exc = E_OOB if y0 is None else None
                want = None if want_exc else [(x, y0[1]) for x in range(w)[slice(op[1], op[2], step_of(op, 4))]]
            elif kind == "slice_xy":
                want = [(x, y) for x in range(w)[slice(op[1], op[2], step_of(op, 5))] for y in range(h)[slice(op[3], op[4], step_of(op, 6))]]
            form = {"adj": "torus_adj", "adj2d": "torus_adj_2d", "col": "grid[x]", "ilist": "grid[(x1, y1), ...]", "slice_y": "grid[x, a:b]", "slice_x": "grid[a:b, y]",
                    "slice_xy": "grid[a:b, c:d]", "cell_list": f"{op[3] if kind == 'cell_list' else ''}_cell_list_contents"}[kind]
            if kind == "cell_list":
                exp = sorted(x for c in op[1] for x in raw_after[tuple(c)])
                if exc is not None:
                    fail(f"C08/{name}/cell_list_contents/unexpected-exception", i, f"{op} raised {type(exc).__name__}: {exc}")
                elif res != [1 if len(set(exp)) != len(exp) else 0] + exp:
                    fail(f"C08/{name}/cell_list_contents/wrong-agents", i,
                         f"{form}({'bare tuple ' if op[2] else ''}{op[1]}) returned agents {res[1:]} (duplicates: {bool(res[0])}), the cells hold {exp}")
            elif want_exc is not None:
                expect_reject = {want_exc}
                if exc is None:
                    fail(f"C08/{name}/getitem/out-of-range-accepted", i, f"{form} with {op[1:]} was not rejected")
            elif exc is None and kind not in ("adj", "adj2d"):
                exp = [v for c in want for v in _obs_cell(raw_after[c])]
                if res != exp:
                    fail(f"C08/{name}/getitem/wrong-contents", i, f"{form} with {op[1:]} shows {res}, the cells {want} hold {[raw_after[c] for c in want]}")
            if exc is not None and kind != "cell_list" and (expect_reject is None or ekind not in expect_reject):
                fail(f"C08/{name}/getitem/unexpected-exception", i, f"{form} with {op[1:]} raised {type(exc).__name__}: {exc}")
        # caller-owned arguments: the list of cells given to get/iter_cell_list_contents is not touched; the list of
        # offers given to move_agent_to_one_of keeps its elements ("closest" shuffles it in place - a permutation only)
        if cell_copy is not None and cell_arg != cell_copy:
            fail(f"C08/{name}/cell_list_contents/argument-mutated", i, f"{op}: the caller's list became {cell_arg}")
        if offered_copy is not None and (sorted(offered_arg) != sorted(offered_copy) or (op[3] == "random" and offered_arg != offered_copy)):
            fail(f"C08/{name}/move_agent_to_one_of/argument-mutated", i, f"{op}: the caller's list of offers became {offered_arg}")
        # the explicit reads
        if exc is None:
            if kind == "empties" and res != [_enc(c) for c in truly_empty]:
                fail(f"C08/{name}/empties", i, f"`empties` returned {sorted(tuple(p) for p in g._empties)}, the cells without agents are {truly_empty}")
            if kind == "exists" and res != [1 if truly_empty else 0]:
                fail(f"C08/{name}/exists_empty_cells", i, f"exists_empty_cells() = {bool(res[0])}, cells without agents: {truly_empty}")
            if kind == "is_empty" and res != [1 if (op[1], op[2]) in truly_empty else 0]:
                fail(f"C08/{name}/is_cell_empty", i, f"is_cell_empty({(op[1], op[2])}) = {bool(res[0])}, cell holds {raw_after[(op[1], op[2])]}")
    # ---- C18 fault sweep from the final state: every rejecting call applicable there must raise and leave
    #      the observable state as it was (the sweep is not part of the history handed to the model)
    def sweep(site, call, why, accepted_key=None):
        b = snapshot()
        try:
            with warnings.catch_warnings():
                warnings.simplefilter("ignore")
                call()
            raised = None
        except Exception as e:  # noqa: BLE001
            raised = e
        a = snapshot()
        if raised is None:
            if accepted_key:
                fail(accepted_key, len(case["ops"]), f"fault sweep after the history: {why} was accepted")
        elif canon(a) != canon(b):
            failures.append({"key": f"C18/legacy-grid/{site}", "op": len(case["ops"]),
                             "what": f"{name}({w}x{h}, torus={torus}): fault sweep after the history: {why} raised "
                                     f"{type(raised).__name__}({raised}) but changed the state: pos before {b['pos']}, after {a['pos']}"})
        return raised is not None and canon(a) == canon(b)

    if case.get("sweep", True) and not failures:
        fin = snapshot()
        placed_ids = [aid for aid in sorted(agents) if fin["pos"][aid] is not None]
        unplaced_ids = [aid for aid in sorted(agents) if fin["pos"][aid] is None]
        okay = True
        for aid in placed_ids:
            a = agents[aid]
            if not okay:
                break
            if not torus:
                for t in ((-1, 0), (w, h - 1), (0, h), (w + 3, -2)):
                    okay = okay and sweep("move_agent", lambda a=a, t=t: g.move_agent(a, t), f"move_agent(agent {aid}, {t}) outside the bounded grid",
                                          f"C08/{name}/move_agent/out-of-bounds-accepted")
                okay = okay and sweep("move_agent_to_one_of", lambda a=a: g.move_agent_to_one_of(a, [(w, 0)], selection="closest"),
                                      f"move_agent_to_one_of(agent {aid}, [({w}, 0)], 'closest') outside the bounded grid",
                                      f"C08/{name}/move_agent/out-of-bounds-accepted")
            if single:
                for bid in placed_ids:
                    if bid != aid:
                        tb = fin["pos"][bid]
                        okay = okay and sweep("move_agent", lambda a=a, tb=tb: g.move_agent(a, tb), f"move_agent(agent {aid}, {tb}) onto agent {bid}",
                                              f"C08/{name}/move_agent/occupied-cell-accepted")
                        okay = okay and sweep("move_agent_to_one_of", lambda a=a, tb=tb: g.move_agent_to_one_of(a, [tb]),
                                              f"move_agent_to_one_of(agent {aid}, [{tb}]) onto agent {bid}",
                                              f"C08/{name}/move_agent_to_one_of/occupied-cell-accepted")
                        break
            okay = okay and sweep("move_agent_to_one_of", lambda a=a: g.move_agent_to_one_of(a, [(0, 0)], selection="nearest"),
                                  f"move_agent_to_one_of(agent {aid}, [(0, 0)], selection='nearest')")
            okay = okay and sweep("move_agent_to_one_of", lambda a=a: g.move_agent_to_one_of(a, [], handle_empty="error"),
                                  f"move_agent_to_one_of(agent {aid}, [], handle_empty='error')")
            for uid in unplaced_ids[:1]:
                okay = okay and sweep("swap_pos", lambda a=a, u=agents[uid]: g.swap_pos(a, u), f"swap_pos(agent {aid}, unplaced agent {uid})",
                                      f"C08/{name}/swap_pos/unplaced-agent-accepted")
                okay = okay and sweep("swap_pos", lambda a=a, u=agents[uid]: g.swap_pos(u, a), f"swap_pos(unplaced agent {uid}, agent {aid})",
                                      f"C08/{name}/swap_pos/unplaced-agent-accepted")
        if okay and single:
            for uid in unplaced_ids[:1]:
                for bid in placed_ids[:2]:
                    tb = fin["pos"][bid]
                    okay = okay and sweep("place_agent", lambda u=agents[uid], tb=tb: g.place_agent(u, tb), f"place_agent(unplaced agent {uid}, {tb}) onto agent {bid}",
                                          f"C08/{name}/place_agent/occupied-cell-accepted")
        if okay and placed_ids and all(fin["raw"][c] for c in cells):
            aid = placed_ids[0]
            sweep("move_to_empty", lambda: g.move_to_empty(agents[aid]), f"move_to_empty(agent {aid}) on a grid without an empty cell",
                  f"C08/{name}/move_to_empty/no-empty-cell-accepted")
    out = {"obs": obs, "failures": failures, "ops_for_model": ops_for_model}
    if case.get("oracle_only"):
        out["model"] = False
    return out


# ------------------------------------------------------------------ model side
_SEL = {"random": "SelRandom", "closest": "SelClosest"}
_HE = {None: "HNone", "warning": "HWarn", "error": "HError"}


def _runs(items, show):
    """a Gallina list term for a (possibly long) list: runs of >= 4 equal consecutive items become `repeat x n`"""
    if len(items) <= 12:
        return L.lst([show(x) for x in items])
    segs, plain, i = [], [], 0
    while i < len(items):
        j = i
        while j < len(items) and items[j] == items[i]:
            j += 1
        if j - i >= 4:
            if plain:
                segs.append(L.lst(plain))
                plain = []
            segs.append(f"repeat {show(items[i])} {j - i}%nat")
        else:
            plain += [show(x) for x in items[i:j]]
        i = j
    if plain:
        segs.append(L.lst(plain))
    return "(" + " ++ ".join(segs) + ")"


def _clist(cells):
    return _runs([tuple(c) for c in cells], L.zpair)


def _coq_op(op):
    k = op[0]
    if k == "place":
        return f"Place {L.z(op[1])} {L.zpair((op[2], op[3]))}"
    if k == "remove":
        return f"Remove {L.z(op[1])}"
    if k == "move":
        return f"Move {L.z(op[1])} {L.zpair((op[2], op[3]))}"
    if k == "swap":
        return f"Swap {L.z(op[1])} {L.z(op[2])}"
    if k == "move_to_empty":
        if len(op) < 5:
            op = [k, op[1], False, 0, 0]
        return f"MoveToEmpty {L.z(op[1])} {L.b(op[2])} {L.zpair((op[3], op[4]))}"
    if k == "move_one_of":
        out = (op[5], op[6]) if len(op) >= 7 else (0, 0)
        return (f"MoveToOneOf {L.z(op[1])} {_clist(op[2])} {_SEL.get(op[3], 'SelBad')} "
                f"{_HE.get(op[4], 'HNone')} {L.zpair(out)}")
    def oz(v):
        return "None" if v is None else f"(Some {L.z(v)})"
    if k == "adj":
        return f"ReadForm (FAdj {L.zpair((op[1], op[2]))})"
    if k == "adj2d":
        return f"ReadForm (FAdj2d {L.zpair((op[1], op[2]))})"
    if k == "col":
        return f"ReadForm (FCol {L.z(op[1])})"
    if k == "ilist":
        return f"ReadForm (FList {_clist(op[1])})"
    if k == "slice_y":
        return f"ReadForm (FSliceY {L.z(op[1])} {oz(op[2])} {oz(op[3])})"
    if k == "slice_x":
        return f"ReadForm (FSliceX {oz(op[1])} {oz(op[2])} {L.z(op[3])})"
    if k == "slice_xy":
        return f"ReadForm (FSliceXY {oz(op[1])} {oz(op[2])} {oz(op[3])} {oz(op[4])})"
    if k == "cell_list":
        return f"ReadForm (FCellList {_clist(op[1])} {L.b(op[2])})"
    if k == "lset":
        return f"LayerOp (LSet {L.z(op[1])} {L.zpair((op[2], op[3]))} {L.z(op[4])})"
    if k == "lfill":
        return f"LayerOp (LFill {L.z(op[1])} {L.z(op[2])})"
    if k == "lget":
        return f"LayerOp (LGet {L.z(op[1])} {L.zpair((op[2], op[3]))})"
    if k == "query":
        return "ReadMask"
    if k == "move_sel":     # only without the driver's rewrite (never for a model case)
        return f"MoveToOneOf {L.z(op[1])} [] SelRandom HNone (0, 0)"
    if k == "is_empty":
        return f"IsCellEmpty {L.zpair((op[1], op[2]))}"
    if k == "index":
        return f"Index {L.zpair((op[1], op[2]))}"
    return {"empties": "ReadEmpties", "mask": "ReadMask", "exists": "ExistsEmpty", "iter": "Iter",
            "coord_iter": "CoordIter", "agents": "Agents"}[k]


def coq_case(case):
    ops = case.get("_ops_for_model") or case["ops"]
    if case["cls"] == "NetworkGrid":
        return (f"NetCase {{| nk_nodes := {L.zlist(case['nodes'])}; nk_n := {L.z(case['n'])}; "
                f"nk_ops := {L.lst([_coq_nop(o) for o in ops])} |}}")
    if case.get("user"):
        return (f"GridCase {{| k_cfg := {{| c_w := {L.z(case['w'])}; c_h := {L.z(case['h'])}; c_torus := {L.b(case['torus'])}; "
                f"c_multi := {L.b('Multi' in case['cls'])} |}}; k_n := 0; k_layers := 0; k_ops := [] |}}")
    if case.get("scale"):     # implementation + oracle only: the model is not run on these (an empty history for replay files)
        return (f"GridCase {{| k_cfg := {{| c_w := {L.z(case['w'])}; c_h := {L.z(case['h'])}; c_torus := {L.b(case['torus'])}; "
                f"c_multi := {L.b('Multi' in case['cls'])} |}}; k_n := 0; k_layers := 0; k_ops := [] |}}")
    cfg = (f"{{| c_w := {L.z(case['w'])}; c_h := {L.z(case['h'])}; c_torus := {L.b(case['torus'])}; "
           f"c_multi := {L.b('Multi' in case['cls'])} |}}")
    return (f"GridCase {{| k_cfg := {cfg}; k_n := {L.z(case['n'])}; k_layers := {L.z(int(case.get('layers') or 0))}; "
            f"k_ops := {L.lst([_coq_op(o) for o in ops])} |}}")


def _coq_nop(op):
    k = op[0]
    if k == "place":
        return f"NPlace {L.z(op[1])} {L.z(op[2])}"
    if k == "remove":
        return f"NRemove {L.z(op[1])}"
    if k == "move":
        return f"NMove {L.z(op[1])} {L.z(op[2])}"
    if k == "is_empty":
        return f"NIsEmpty {L.z(op[1])}"
    if k == "cell_list":
        return f"NCellList {_runs(list(op[1]), L.z)}"
    return {"all": "NAll", "agents": "NAgents"}[k]


def op_kinds(case):
    out = []
    if case.get("scale"):
        return [case["cls"] + ":scale/" + case["scale"]]
    if case.get("user"):
        return [case["cls"] + ":user/" + op[0] for op in case["ops"]]
    if case["cls"] == "NetworkGrid":
        return ["NetworkGrid:" + op[0] for op in case["ops"]]
    for op in case["ops"]:
        k = op[0]
        if k == "move_one_of":
            k += "/" + str(op[3]) + ("/empty-list" if not op[2] else "")
        out.append(case["cls"] + ":" + k)
    return out


def nontrivial(case):
    obs = case.get("_obs", [])
    ok_mut = any(op[0] in MUTATORS and o and o[0] == 0 for op, o in zip(case["ops"], obs))
    read = any(op[0] not in MUTATORS and op[0] not in ("lset", "lfill") for op in case["ops"])
    return len(case["ops"]) >= 3 and ok_mut and read


LEVEL_TEXT = ("44 machine-checked Coq theorems (12 non-vacuity Examples) over two Gallina transcriptions of mesa/space.py. Legacy grids "
              "(Single/Multi/HexSingle/HexMulti share Model/LegacyGrid.v, run with 0..k property layers): for EVERY history of calls (any "
              "length, any integer coordinates, any interleaving of reads and layer writes, every legal random outcome) the invariant Agree "
              "holds (pos <-> cell contents, no duplicates, SingleGrid capacity, empties exact once built, empty_mask exact always) - "
              "C08_agree, C08_agree_layered; layers never interfere (C08_layers_never_interfere); all readers and all indexing / slice / "
              "cell-list forms are the stated function of the contents whether or not empties was read before (C08_views, C08_index_forms, "
              "C08_slice_indices, C08_empties_read_is_transparent[_layered]); place/remove/move/swap postconditions with frames, torus wrap, "
              "bounded and occupied-cell rejection (C08_place, C08_remove, C08_torus_wrap, C08_move_in_grid, C08_bounded_reject, "
              "C08_single_occupied_reject, C08_swap, C08_hex_torus_adj_2d); move_to_empty lands on a cell that was empty, is rejected "
              "exactly on a full grid; move_agent_to_one_of lands on an offered cell, a nearest one under the true toroidal distance "
              "(C08_closest_is_nearest, C08_toroidal_distance_is_least); refinement to an abstract position-map machine "
              "(C08_refines_position_map); every rejected call leaves the observation unchanged and every continuation is unaffected "
              "(C08_rejected_call_changes_nothing / _continue[_layered] = C18_legacygrid_atomic*). NetworkGrid (Model/NetGrid.v): "
              "C08_net_agree, C08_net_views, C08_net_place_move, C08_net_rejected_call_changes_nothing / _continue (= C18_networkgrid_atomic*). "
              "Code-level T1: torus_adj, torus_adj_2d, _distance_squared, is_cell_empty, the move_to_empty branch test, the 'closest' loop and "
              "six method bodies are REGENERATED from the source on every run; ten bridge equalities model = generated code "
              "(C08_source_is_model) and the headline theorems restated about the generated code (C08_torus_adj_of_source, "
              "C08_closest_of_source, C08_move_of_source incl. atomicity, C08_place_remove_of_source, C08_hex_torus_adj_2d_of_source, "
              "C08_source_mask_writes, C08_source_skeletons). The models are tied to the code by these tables (T1) and by differential "
              "evaluation of model vs implementation on all four grid classes and NetworkGrid after every call (T2, "
              "C08_run_case_is_step: the compared stream is this very step function); an independent oracle states the property on the "
              "implementation and supplies the failing input.")
LEVEL_NOTE = ("Theorems are about the models (the code with the committed fixes C08-1 MultiGrid empty_mask, C08-2 SingleGrid.move_agent "
              "atomic, C08-3 toroidal _distance_squared, C08-4 NetworkGrid.move_agent atomic; plus 5b51fea _Grid.agents keeps falsy agents, "
              "and fixes/C08-5 (empty_mask indexed with plain ints: bool coordinates) - until C08-5 is committed the check reports the bool-"
              "coordinate defect on /repo (keys C08/<cls>/empty_mask and its consequences); fixes/C08-6 (MultiGrid.place_agent assigns agent.pos "
              "last) - until it is committed the user-code stream reports C08/MultiGrid|HexMultiGrid/empties|empty_mask on /repo; "
              "found independently by the round-5 falsy-agent stream). One _refuted witness is kept on purpose: the inherited "
              "_Grid.move_agent is not atomic on a SingleGrid (why C08-2 exists). Oracle-only: falsy agents, stepped slices, argument "
              "non-mutation, repeatability, fault sweep. Trusted: Coq kernel, pyexpr + the two table modules, the DSL interpreter, the "
              "drivers/observers, CPython list/set/NumPy-array semantics as modelled. No axioms, no open defect known in this area.")
TECHNIQUE = ("Coq proof (invariant by induction over histories, simulation, refinement; closed under global context) + code-level T1 "
             "(pyexpr translation, statement-DSL interpreter, bridge lemmas) + vm_compute correspondence + independent oracle")
DESIGN_REF = "DESIGN.md section 4, C08 (and C18 legacy-grid / NetworkGrid sites)"
