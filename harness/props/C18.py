"""C18 - a mutating call that raises leaves all observable state unchanged.

Aggregator: no model of its own.  Every site of the statement lives in the model of the
property that owns that piece of state; that model's `step` returns, on `Err`, the state the code
leaves behind, and its proof file contains the atomicity lemma (`step s op = (s', Err e) -> s' = s`,
and the continuation corollary).  Properties/C18.v restates those lemmas site by site.
This module re-uses the owners' generators, drivers (which issue rejecting calls at the states
their histories reach, compare the full observation before/after the exception and then continue
the history) and Gallina printers, and keeps only the failures keyed `C18/...`."""
import importlib

ID = "C18"
COQ_PROPERTY_FILE = "Properties/C18.v"
SUBS = ["C06", "C08", "C10", "C11", "C12", "C14", "C16"]
_mods = {}


def _sub(name):
    if name not in _mods:
        _mods[name] = importlib.import_module("props." + name)
    return _mods[name]


def _available():
    out = []
    for s in SUBS:
        try:
            out.append(_sub(s))
        except ImportError:
            pass
    return out


COQ_DEPS = sorted({d for m in _available() for d in m.COQ_DEPS} | {m.COQ_PROPERTY_FILE for m in _available()})
COQ_IMPORTS = ""      # unused: model_of delegates
COQ_CASE_TYPE = ""
COQ_RUN = ""
TABLE_CONSTRUCTS = sorted({t for m in _available() for t in getattr(m, "TABLE_CONSTRUCTS", [])})
RULE = ("histories of the owning properties' generators (cell spaces, legacy grids, both continuous spaces, property layers, "
        "DataCollector tables, simulators, signal registries), each containing rejecting calls issued at the states the history "
        "reaches and followed by further valid operations; the drivers compare the full observation before/after every exception; "
        "non-trivial = the history contains at least one rejected call (an error observation); distinct = by SHA1 of the history")
TRUSTED_BASE = [
    "Coq 8.16.1 kernel; no axioms (Print Assumptions closed for every C18 theorem)",
    "the models, drivers, observers and T1 extractors of C06, C08, C10, C11, C12, C14, C16 (see their evidence files)",
    "an exception is recognised by kind, never by message; 'observable state' = the observation function of the owning model",
]
ASSUMPTIONS = [
    "sites: cell setter / move_to / move_relative / Grid2DMovingAgent.move / FixedAgent placement into a full or missing cell; legacy "
    "place/move/swap/move_to_empty/move_agent_to_one_of (occupied, out of bounds, no empty cell, bad selection); both continuous spaces "
    "out of bounds; add_table_row (missing column, unknown table); schedule_event_* (past, wrong unit); observe (unknown name/type, All "
    "in either position); add/remove_property_layer (clash, wrong shape, missing), set/modify_cell(s) rejections",
    "the global event-id counter of the simulators is not simulator state and is not observed",
]
LEVEL_TEXT = ("For every site named in the statement, a machine-checked Coq theorem over the owning model: whenever a step returns an "
              "error, the successor state equals the state before (so every later operation behaves as if the call had not been made - "
              "the *_continue corollaries), for all reachable states / all histories. The models return on error the state the code "
              "leaves behind (statements executed before the raise), and are tied to the code by the owners' regenerated tables and "
              "by differential evaluation on histories that contain rejected calls at many reachable states; the implementation-side "
              "oracle compares the complete observation before and after each exception and supplies the failing input.")
LEVEL_NOTE = ("Aggregates the atomicity theorems proved with C06, C08, C10, C11, C12, C14, C16; each is about that property's model. "
              "Trusted: Coq kernel, the owners' translators/drivers. No axioms.")
TECHNIQUE = "Coq proof (per-site atomicity lemmas + continuation corollaries) + vm_compute correspondence on fault-injecting histories"
DESIGN_REF = "DESIGN.md section 4, C18"
SHRINK = True


def _has_fault(case, r):
    return any(o and o[0] == -1 for o in r.get("obs", []))


def gen_cases(rng, tier):
    cases = []
    cap = 220 if tier == "quick" else 2500
    for m in _available():
        g = getattr(m, "gen_fault_cases", None)
        cs = g(rng, tier) if g else m.gen_cases(rng, tier)
        if len(cs) > cap:
            cs = rng.sample(cs, cap)
        for c in cs:
            c["sub"] = m.ID
        cases += cs
    return cases


def enumerate_cases(tier, broken=False):
    if not broken:
        return
    for m in _available():
        e = getattr(m, "enumerate_cases", None)
        if e is None:
            continue
        n = 0
        for c in e(tier, broken=True):
            c["sub"] = m.ID
            yield c
            n += 1
            if n >= (400 if tier == "quick" else 5000):
                break


def run_impl(case):
    return _sub(case["sub"]).run_impl(case)


def model_of(case):
    return _sub(case["sub"])


def coq_case(case):
    return _sub(case["sub"]).coq_case(case)


def op_kinds(case):
    return [f"{case['sub']}:{k}" for k in _sub(case["sub"]).op_kinds(case)]


def nontrivial(case):
    return any(o and o[0] == -1 for o in case.get("_obs", []))
