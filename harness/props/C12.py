"""C12 - DataCollector records exactly what the model showed at each collect.
Model: coq/Model/DataCollector.v (collect / _record_agents / _record_agenttype / add_table_row / frames)."""
import itertools

import coqlit as L

ID = "C12"
COQ_PROPERTY_FILE = "Properties/C12.v"
COQ_DEPS = ["Common/ListX.v", "Common/ObsHash.v", "Generated/Tables.v", "Model/DataCollector.v",
            "Proofs/DataCollectorProofs.v", "Proofs/DataCollectorBridge.v"]
COQ_IMPORTS = "From Mesa Require Import Model.DataCollector."
COQ_CASE_TYPE = "case"
COQ_RUN = "run_case"
TABLE_CONSTRUCTS = ["dc_add_row_code", "dc_type_choice_code", "dc_dispatch_code", "dc_collect_skeleton"]
RULE = ("histories = one reporter dictionary (model / agent / agent-type reporters in the four forms attribute name, "
        "function or partial, bound method, [function, args]; tables incl. a table without columns) + a sequence of "
        "model-attribute writes (ints, None, fresh lists, aliases, in-place appends, deletions), agent creations (6 classes in a "
        "3-level hierarchy, one with a mixin after the framework base, one falsy by __bool__, one by __len__) and removals, "
        "agent attribute writes, steps, 0-3 collects per step, add_table_row calls (complete, incomplete with and without "
        "ignore_missing, unknown table, extra keys) and DataFrame constructions (each built twice); four streams per run: "
        "420 random histories, a 150-case slice of the targeted sweep (reporter forms x levels, every subset of present "
        "columns, class populations with removals, frames of empty collectors), 60 histories with reporters that raise at a "
        "collect, 80 histories with values of other immutable types (bool, str, tuple, Decimal, Fraction, frozenset, floats "
        "incl. 0.1 / 1e300 / the smallest denormal, ints beyond 2^53) at agent, agent-type, model and table level; the whole "
        "collector state is observed after every operation; two oracle-only streams without the Z-valued model: 60 histories "
        "whose model reporters (all four forms and partial) return rare MUTABLE containers - object-dtype arrays of lists/dicts, "
        "tuples of tuples holding lists, dict of arrays, set, deque, a dataclass-like object, 2-D and structured arrays, a view of an "
        "array the model keeps writing to - mutated in place after the collect, and 4 SCALE cases (255/256/257/1025 agents, up to 257 "
        "collects, tables of 256..1025 rows, values beyond 2^53 / 2^62 / 2^63; thorough and the enumerator after a break go to 4097); "
        "and 70 USER-CODE histories (oracle-only): reporters of every form (property through an attribute name, function, bound method "
        "of the model, [function, args]) at model / agent / agent-type level that raise StopIteration (bare next()), IndexError, KeyError, "
        "AttributeError, TypeError, GeneratorExit or a custom exception for the first / a middle / the last / all agents in some states, "
        "or re-enter the API during collect (add_table_row, removing / creating an agent); the caller catches and carries on; between "
        "collects user code takes copy.copy(model.agents) / select() / shuffle() / a copy of agents_by_type[T] and changes THE COPY "
        "(discard, remove, add, in-place select / sort / shuffle) - registration is taken from the history's own ledger; "
        "a second DataCollector built from the same dictionaries collects "
        "at the end; non-trivial = at least 2 collects and one reporter; distinct = by SHA1 of the history")
TRUSTED_BASE = [
    "Coq 8.16.1 kernel (coqc); vm_compute used for finite facts and for evaluating the model in the correspondence",
    "no axioms: Print Assumptions reports 'Closed under the global context' for all 26 theorems of Properties/C12.v",
    "harness/props/C12.py driver+observer and the Gallina literal printer (T2, differential testing, not a proof); values of "
    "non-int types are injective value codes in the histories and in the Z-valued model, mapped to Python objects by the driver",
    "harness/pyexpr.py + harness/tables/datacollect_batch_code.py (code-level T1, on alpha-normalised functions: names of locals, "
    "docstrings, comments, formatting and exception messages do not matter): add_table_row's rejection test and per-column cell "
    "(gen_add_row_reject, gen_add_row_cells), _record_agenttype's three-way agent-source choice (gen_type_choice) and collect's "
    "isinstance dispatch chain (gen_dispatch) are translated from the working tree on every run and bridged to the model in "
    "Proofs/DataCollectorBridge.v (add_row_bridge, type_agents_bridge, dispatch_bridge, robust to harmless rewrites); what "
    "remains of collect / _record_agents / the head of _record_agenttype is a normalised statement skeleton (gen_collect_skeleton_ok)",
    "Model/DataCollector.v is a hand transcription of mesa/datacollection.py incl. every failing path; dict = insertion-ordered "
    "association list, deepcopy = reading the store into an immutable value, reporters = terms of a small DSL built identically "
    "as Python callables",
    "pandas is external: the four frames (index names, column labels and order, row order, values) are modelled as pure list "
    "functions of the records and compared with pandas' own result by T2 on every Frames operation",
    "Uint63 primitive hash only in scratch Cases files, never under a theorem",
]
ASSUMPTIONS = [
    "model-level reporter results are ints, None, lists of ints or one immutable value of another type; agent-level values are "
    "immutable (mutable ones are stored by reference by design and not compared)",
    "agent-type reporters are judged when the key class has no subclassed instances or no direct instances registered (quantifier)",
    "frames: NaN is read as None and integral floats as ints (pandas' own unification of a numeric column is not part of the "
    "statement: ints next to floats, ints next to None; for the same reason ints beyond 2^53 are never put next to a None or a "
    "float in one column); every other value must come back as the very same value and type",
    "a collect during which a reporter itself raises: the oracle demands that tables and the records of other steps stay "
    "untouched and no model_vars list shrinks or grows by more than one; the exact state left behind (C12_collect_raises_state) "
    "is compared model-vs-implementation by T2",
    "observation, not a verdict: after a model reporter j >= 1 raised, the model_vars lists are ragged for good and "
    "get_model_vars_dataframe raises ValueError (C12_raising_reporter_leaves_ragged_model_vars; candidate key "
    "C18/datacollector/collect-raising-reporter)",
]
E_ATTR, E_VALUE, E_RUNTIME, E_EXC, E_USERWARNING = 1, 2, 3, 4, 5
CLASSES = [0, 1, 2, 3, 4]          # creatable; 5 = mesa.Agent; 9 = not an Agent class
PARENT = {0: 5, 1: 5, 2: 1, 3: 1, 4: 2}


def _is_sub(c, t):
    while True:
        if c == t:
            return True
        if c not in PARENT:
            return False
        c = PARENT[c]


# ------------------------------------------------------------------ generation
def _gen_mfun(rng, safe):
    k = rng.choice(["attr", "attr", "count", "sum", "steps", "ids"])
    if k == "attr":
        return ["attr", rng.randrange(4)]
    if k == "sum":
        return ["sum", rng.randrange(3)]
    return [k]


def _gen_mrep(rng):
    form = rng.choice(["attr", "attr", "fun", "fun", "method", "args"])
    if form == "attr":
        return ["attr", rng.randrange(4)]
    if form == "fun":
        return ["fun", rng.random() < 0.3, _gen_mfun(rng, True)]
    if form == "method":
        return ["method", _gen_mfun(rng, True)]
    return ["args", rng.choice(["sum", "len", "list", "none"]), [rng.randint(-3, 9) for _ in range(rng.randint(0, 3))]]


def _gen_afun(rng):
    k = rng.choice(["attr", "id", "plus", "steps"])
    if k == "attr":
        return ["attr", rng.randrange(3)]
    if k == "id":
        return ["id"]
    if k == "plus":
        return ["plus", rng.randrange(3), rng.randint(-2, 5)]
    return ["steps", rng.randrange(3)]


def _gen_arep(rng):
    form = rng.choice(["attr", "attr", "fun", "method", "args"])
    if form == "attr":
        return ["attr", rng.randrange(4)]      # 3 = never set on any agent: recorded as None
    if form == "fun":
        return ["fun", _gen_afun(rng)]
    if form == "method":
        return ["method", _gen_afun(rng)]
    return ["args", rng.randrange(3), [rng.randint(-3, 9) for _ in range(rng.randint(0, 3))]]


def _gen_cfg(rng):
    cfg = {"mreps": [], "areps": [], "treps": [], "tables": []}
    for i in range(rng.choice([0, 1, 2, 2, 3, 4])):
        cfg["mreps"].append([i, _gen_mrep(rng)])
    for i in range(rng.choice([0, 1, 2, 2, 3])):
        cfg["areps"].append([i, _gen_arep(rng)])
    keys = [0, 1, 2, 3, 4, 5]
    rng.shuffle(keys)
    for t in keys[:rng.choice([0, 0, 1, 2, 2, 3])]:
        cfg["treps"].append([t, [[i, _gen_arep(rng)] for i in range(rng.randint(1, 2))]])
    if rng.random() < 0.02:
        cfg["treps"].append([9, [[0, ["attr", 0]]]])
    for t in range(rng.choice([0, 1, 1, 2])):
        cfg["tables"].append([t, list(range(rng.randint(1, 3)))])
    return cfg


def _gen_row(rng, cfg):
    if not cfg["tables"] or rng.random() < 0.06:
        return ["addrow", 7, [[0, 1]], rng.random() < 0.5]        # unknown table
    t, cols = rng.choice(cfg["tables"])
    row = []
    p = rng.random()
    for c in cols:
        if p < 0.65 or rng.random() < 0.5:
            row.append([c, rng.choice([None, rng.randint(-5, 20), rng.randint(0, 3)])])
    if rng.random() < 0.15:
        row.append([5, 1])                                           # a key that is no column
    rng.shuffle(row)
    return ["addrow", t, row, rng.random() < 0.4]


def _attrs(rng, full=0.8):
    out = []
    for n in range(3):
        if rng.random() < full:
            out.append([n, rng.randint(-3, 9)])
    return out


def _gen_history(rng, cfg, nops):
    ops = []
    live = []
    next_id = 1
    lists = set()
    # make most attribute reporters valid before the first collect
    names = set()
    for _, r in cfg["mreps"]:
        if r[0] == "attr":
            names.add(r[1])
        elif r[0] in ("fun", "method") and r[-1][0] == "attr":
            names.add(r[-1][1])
    for n in sorted(names):
        if rng.random() < 0.93:
            if rng.random() < 0.5:
                ops.append(["newlist", n, [rng.randint(0, 9) for _ in range(rng.randint(0, 3))]])
                lists.add(n)
            else:
                ops.append(["set", n, rng.randint(-5, 9)])
    for _ in range(rng.randint(0, 4)):
        ops.append(["create", rng.choice(CLASSES), _attrs(rng)])
        live.append(next_id)
        next_id += 1
    base_heavy = rng.random() < 0.3
    while len(ops) < nops:
        p = rng.random()
        if p < 0.22:
            ops.append(["collect"])
            if rng.random() < 0.25:
                ops.append(rng.choice([["collect"], ["frames"]]))
        elif p < 0.36:
            ops.append(["step"])
        elif p < 0.50:
            n = rng.randrange(4)
            k = rng.random()
            if k < 0.35 and lists:
                ops.append(["append", rng.choice(sorted(lists)), rng.randint(0, 9)])
            elif k < 0.55:
                ops.append(["newlist", n, [rng.randint(0, 9) for _ in range(rng.randint(0, 3))]])
                lists.add(n)
            elif k < 0.80:
                ops.append(["set", n, rng.randint(-5, 9)])
                lists.discard(n)
            elif k < 0.86:
                ops.append(["none", n])
                lists.discard(n)
            elif k < 0.95:
                ops.append(["alias", n, rng.randrange(4)])
                lists.add(n)  # may or may not be a list; append is a no-op otherwise
            else:
                ops.append(["del", n])
        elif p < 0.62:
            if len(live) < 6:
                cls = rng.choice([1, 2, 3, 4] if base_heavy else CLASSES)
                ops.append(["create", cls, _attrs(rng, 0.85)])
                live.append(next_id)
                next_id += 1
        elif p < 0.72:
            if live:
                a = rng.choice(live)
                live.remove(a)
                ops.append(["remove", a])
            elif rng.random() < 0.3:
                ops.append(["remove", rng.randint(1, 4)])
        elif p < 0.82:
            if live:
                ops.append(["aset", rng.choice(live), rng.randrange(3), rng.randint(-5, 20)])
        elif p < 0.93:
            ops.append(_gen_row(rng, cfg))
        else:
            ops.append(["frames"])
    ops.append(["frames"])
    return ops


def gen_cases(rng, tier):
    cases = []
    n = 420 if tier == "quick" else 5000
    for _ in range(n):
        cfg = _gen_cfg(rng)
        cases.append({"cfg": cfg, "ops": _gen_history(rng, cfg, rng.randint(6, 30))})
    # a slice of the targeted sweep is always part of the run (the corner cases the quantifier names)
    sweep = list(_enumerate_main(tier))
    rng.shuffle(sweep)
    cases += sweep[:150 if tier == "quick" else 0]
    # collects during which a reporter raises (the state collect leaves behind: C12_collect_raises_state)
    for _ in range(60 if tier == "quick" else 600):
        cases.append(_gen_raising_case(rng))
    # agent-level values of other immutable types (attribute a4): the frame cell must be the very same value and type
    for _ in range(80 if tier == "quick" else 800):
        cases.append(_gen_exotic_case(rng))
    # oracle-only streams (no Z-valued model): rare mutable containers mutated in place after the collect; SCALE
    for _ in range(60 if tier == "quick" else 600):
        cases.append(_gen_container_case(rng))
    cases += _scale_cases(rng, 4 if tier == "quick" else 24)
    for _ in range(70 if tier == "quick" else 700):
        cases.append(_gen_usercode_case(rng))
    return cases


def _gen_usercode_case(rng):
    level = rng.choice(["agent", "agent", "type", "model"])
    form = rng.choice(["prop", "fun", "method", "args"])
    exc = rng.choice(["StopIteration", "StopIteration", "IndexError", "KeyError", "AttributeError", "TypeError", "GeneratorExit", "custom"])
    if level == "model" and form == "prop" and exc == "AttributeError":
        exc = "KeyError"          # (hasattr / getattr(.., None) of the string form treat AttributeError as "no such attribute")
    n = rng.randint(1, 5)
    ops, live, nxt = [], list(range(1, n + 1)), n + 1
    for _ in range(rng.randint(5, 14)):
        p = rng.random()
        if p < 0.3:
            ops.append(["collect"])
        elif p < 0.45 and live:
            k = rng.choice([1, 1, 2, len(live)])
            ops.append(["arm", sorted(rng.sample(live, min(k, len(live))))])     # first, middle, last or all agents
        elif p < 0.55:
            ops.append(["disarm"])
        elif p < 0.65:
            ops.append(["step"])
        elif p < 0.75:
            ops.append(["reenter", rng.choice([0, 1, 1, 2, 3])])
        elif p < 0.83 and live:
            a = rng.choice(live)
            live.remove(a)
            ops.append(["remove", a])
        elif p < 0.92:
            ops.append(["create", rng.randint(20, 40)])
            live.append(nxt)
            nxt += 1
        elif live:
            ops.append(["setx", rng.choice(live), rng.randint(0, 99)])
        if rng.random() < 0.2:
            ops.append(["copymut", rng.randrange(6), rng.randrange(5)])   # a copy of model.agents is taken and changed
    ops += [["disarm"], ["reenter", 0], ["collect"], ["step"], ["collect"]]      # the NEXT collects must be complete
    return {"kind": "usercode", "exc": exc, "level": level, "form": form, "n": n, "ops": ops}


def _gen_container_case(rng):
    kinds = list(range(13))
    init = [[n, rng.choice(kinds), [rng.randint(0, 9) for _ in range(rng.randint(0, 3))]] for n in range(rng.randint(1, 3))]
    reps = [[rng.choice([i[0] for i in init]), rng.choice(["attr", "fun", "partial", "method", "args"])] for _ in range(rng.randint(1, 4))]
    ops = []
    for _ in range(rng.randint(5, 14)):
        p = rng.random()
        if p < 0.35:
            ops.append(["collect"])
        elif p < 0.8:
            ops.append(["mut", rng.choice([i[0] for i in init]), rng.randint(1, 9)])
        elif p < 0.9:
            ops.append(["step"])
        else:
            ops.append(["mk", rng.choice([i[0] for i in init]), rng.choice(kinds), [rng.randint(0, 9) for _ in range(rng.randint(0, 3))]])
    ops += [["collect"], ["mut", init[0][0], 5], ["mut", init[-1][0], 7]]
    return {"kind": "containers", "init": init, "reps": reps, "ops": ops}


def _scale_cases(rng, count):
    out = []
    sizes = [(255, 3, 256), (256, 4, 257), (257, 3, 1025), (3, 257, 300), (1025, 3, 64), (2, 1025, 4097), (4097, 2, 8), (129, 33, 2049)]
    for j in range(count):
        n, k, t = sizes[j % len(sizes)] if j >= 4 else [(256, 3, 257), (257, 4, 1025), (3, 257, 256), (1025, 2, 300)][j]
        out.append({"kind": "scale", "agents": n, "collects": k, "rows": t, "churn": rng.random() < 0.5, "ops": [["scale"]]})
    return out


def _gen_exotic_case(rng):
    """attribute a4 of every agent holds values of ONE family per history (a column mixing families is converted by
    pandas itself, e.g. ints with floats): object-forcing (bool, str, tuple, Decimal, Fraction, frozenset; plus small
    ints), dyadic floats (plus small ints), or ints beyond 2^53; reported by name, function and bound method, at agent
    and agent-type level; values change between collects"""
    fam = rng.choice([EXO_OBJECT, EXO_OBJECT, EXO_OBJECT + [3, 7], EXO_FLOAT + [3], EXO_BIGINT + [4]])
    cfg = {"mreps": [[0, ["fun", False, ["steps"]]]] if rng.random() < 0.5 else [], "treps": [], "tables": [],
           "areps": [[0, rng.choice([["attr", 4], ["fun", ["attr", 4]], ["method", ["attr", 4]]])]]}
    model_level = rng.random() < 0.5          # the same family at model level (model.m2) and in table cells
    if model_level:
        cfg["mreps"].append([1, rng.choice([["attr", 2], ["fun", False, ["attr", 2]], ["method", ["attr", 2]]])])
        cfg["tables"] = [[0, [0, 1]]] + ([[1, []]] if rng.random() < 0.3 else [])    # sometimes a table without columns
    if rng.random() < 0.5:
        cfg["areps"].append([1, rng.choice([["fun", ["id"]], ["attr", 0], ["attr", 4]])])
    if rng.random() < 0.5:
        cfg["treps"] = [[rng.choice([1, 2, 5]), [[0, rng.choice([["attr", 4], ["fun", ["attr", 4]]])]]]]
    ops, live, nxt = [], [], 1
    if model_level:
        ops.append(["set", 2, rng.choice(fam)])
    for _ in range(rng.randint(1, 3)):
        ops.append(["create", rng.choice([0, 2, 3]), [[0, nxt], [4, rng.choice(fam)]]])
        live.append(nxt)
        nxt += 1
    for _ in range(rng.randint(4, 12)):
        p = rng.random()
        if model_level and rng.random() < 0.25:
            ops.append(rng.choice([["set", 2, rng.choice(fam)], ["addrow", 0, [[0, rng.choice(fam)], [1, rng.choice(fam)]], False],
                                   ["addrow", 0, [[1, rng.choice(fam)]], fam[0] not in EXO_BIGINT],   # (ints beyond 2^53 next to a
                                   # None cell: pandas itself turns that column into float64 - not generated, see report)
                                   ["addrow", 1, [], False]]))
        if p < 0.3:
            ops.append(["collect"])
        elif p < 0.45:
            ops.append(["step"])
        elif p < 0.7 and live:
            ops.append(["aset", rng.choice(live), 4, rng.choice(fam)])
        elif p < 0.8 and len(live) < 5:
            ops.append(["create", rng.choice([0, 2, 3, 4]), [[0, nxt], [4, rng.choice(fam)]]])
            live.append(nxt)
            nxt += 1
        elif p < 0.88 and live:
            a = rng.choice(live)
            live.remove(a)
            ops.append(["remove", a])
        else:
            ops.append(["frames"])
    ops += [["collect"], ["frames"]]
    return {"cfg": cfg, "ops": ops}


def _gen_raising_case(rng):
    """reporter dictionaries in which some reporter can raise AttributeError (model: lambda / partial / bound method reading
    model.m<n>; agent level: lambda a: a.a<n>), histories that delete / never set that attribute between collects"""
    cfg = {"mreps": [], "areps": [], "treps": [], "tables": [[0, [0, 1]]] if rng.random() < 0.3 else []}
    nm = rng.randint(1, 4)
    risky = rng.randrange(nm) if rng.random() < 0.8 else None
    for i in range(nm):
        if i == risky:
            cfg["mreps"].append([i, rng.choice([["method", ["attr", 0]], ["fun", True, ["attr", 0]], ["fun", False, ["attr", 0]]])])
        else:
            cfg["mreps"].append([i, rng.choice([["fun", False, ["steps"]], ["attr", 1], ["method", ["count"]], ["args", "sum", [1, 2]],
                                                ["fun", False, ["ids"]], ["attr", 0]])])
    if rng.random() < 0.6:
        cfg["areps"] = [[0, ["fun", ["id"]]], [1, rng.choice([["fun", ["attr", 2]], ["method", ["attr", 2]], ["attr", 2]])]]
    if rng.random() < 0.4:
        cfg["treps"] = [[rng.choice([1, 2, 5]), [[0, ["fun", ["attr", 2]]]]], [rng.choice([0, 3, 9]), [[0, ["attr", 0]]]]]
    ops = []
    if rng.random() < 0.8:
        ops.append(rng.choice([["set", 0, 4], ["newlist", 0, [1, 2]]]))
    ops.append(["set", 1, 3])
    nxt = 1
    for _ in range(rng.randint(1, 3)):
        ops.append(["create", rng.choice([0, 1, 2, 3]), [[0, nxt], [2, 10 + nxt]] if rng.random() < 0.7 else [[0, nxt]]])
        nxt += 1
    for _ in range(rng.randint(4, 12)):
        p = rng.random()
        if p < 0.35:
            ops.append(["collect"])
        elif p < 0.5:
            ops.append(["step"])
        elif p < 0.65:
            ops.append(["del", 0])
        elif p < 0.78:
            ops.append(rng.choice([["set", 0, rng.randint(0, 9)], ["newlist", 0, [rng.randint(0, 9)]]]))
        elif p < 0.88:
            ops.append(["create", rng.choice([0, 1, 2]), [[0, nxt]] if rng.random() < 0.5 else [[0, nxt], [2, nxt]]])
            nxt += 1
        elif p < 0.94:
            ops.append(["addrow", 0, [[0, 1], [1, 2]], False])
        else:
            ops.append(["frames"])
    ops += [["collect"], ["frames"]]
    return {"cfg": cfg, "ops": ops}


def _enumerate_scale(tier, broken):
    import random

    rng = random.Random(77)
    if broken or tier == "thorough":
        yield from _scale_cases(rng, 16)
        for _ in range(400):
            yield _gen_container_case(rng)
        for _ in range(600):
            yield _gen_usercode_case(rng)


def enumerate_cases(tier, broken=False):
    yield from _enumerate_scale(tier, broken)
    yield from _enumerate_main(tier, broken)


def _enumerate_main(tier, broken=False):
    """targeted sweep: (a) every reporter form at every level through one fixed mutation-rich history;
    (b) add_table_row: every subset of present columns x ignore flag x table size <= 3, twice in a row;
    (c) agent-type keys x every population history of <= 3 agents over the class hierarchy incl. removals;
    (d) frames of collectors without records."""
    mforms = [["attr", 0], ["attr", 3], ["fun", False, ["attr", 0]], ["fun", True, ["attr", 0]], ["fun", False, ["count"]],
              ["fun", False, ["sum", 0]], ["fun", True, ["steps"]], ["fun", False, ["ids"]], ["method", ["attr", 0]],
              ["method", ["ids"]], ["method", ["sum", 1]], ["args", "sum", [1, 2]], ["args", "list", [4, 5]],
              ["args", "none", []], ["args", "len", [1]]]
    aforms = [["attr", 0], ["attr", 3], ["fun", ["id"]], ["fun", ["plus", 0, 2]], ["fun", ["steps", 1]], ["method", ["id"]],
              ["method", ["steps", 0]], ["method", ["plus", 1, -1]], ["args", 0, [1, 2]], ["args", 1, []]]
    hist = [["newlist", 0, [1]], ["set", 3, 5], ["create", 0, [[0, 1], [1, 2]]], ["create", 2, [[0, 3]]], ["collect"],
            ["append", 0, 2], ["alias", 1, 0], ["collect"], ["frames"], ["step"], ["append", 1, 3], ["remove", 1],
            ["create", 3, [[0, 7], [1, 1]]], ["aset", 2, 1, 9], ["collect"], ["step"], ["step"], ["newlist", 0, []],
            ["collect"], ["append", 0, 9], ["remove", 2], ["remove", 3], ["collect"], ["frames"]]
    for a, b in itertools.product(range(len(mforms)), repeat=2):
        if a <= b and (tier == "thorough" or broken or (a + b) % 3 == 0):
            yield {"cfg": {"mreps": [[0, mforms[a]], [1, mforms[b]]], "areps": [], "treps": [], "tables": []}, "ops": hist}
    for a, b in itertools.product(range(len(aforms)), repeat=2):
        if a <= b and (tier == "thorough" or broken or (a + b) % 3 == 0):
            yield {"cfg": {"mreps": [], "areps": [[0, aforms[a]], [1, aforms[b]]], "treps": [[1, [[0, aforms[a]]]], [2, [[0, aforms[b]]]]],
                           "tables": []}, "ops": hist}
    # (b)
    for ncol in (1, 2, 3):
        cols = list(range(ncol))
        for r in range(ncol + 1):
            for present in itertools.combinations(cols, r):
                for ign in (False, True):
                    row = [[c, 10 + c] for c in present]
                    full = [[c, 20 + c] for c in cols]
                    yield {"cfg": {"mreps": [], "areps": [], "treps": [], "tables": [[0, cols]]},
                           "ops": [["addrow", 0, full, False], ["addrow", 0, row, ign], ["frames"], ["addrow", 0, row, not ign],
                                   ["addrow", 0, full + [[5, 1]], ign], ["addrow", 1, full, ign], ["frames"]]}
    # (c)
    keys = [0, 1, 2, 4, 5]
    pops = list(itertools.product(CLASSES, repeat=2)) + [(1, 2, 4), (2, 1, 3), (4, 4, 1), (0, 1, 2)]
    for pop in pops:
        for removed in [()] + [(i + 1,) for i in range(len(pop))]:
            ops = [["create", c, [[0, i]]] for i, c in enumerate(pop)] + [["collect"]]
            for rm in removed:
                ops += [["remove", rm]]
            ops += [["collect"], ["step"], ["collect"], ["create", pop[0], [[0, 9]]], ["collect"], ["frames"]]
            yield {"cfg": {"mreps": [], "areps": [[0, ["fun", ["id"]]]],
                           "treps": [[t, [[0, ["attr", 0]], [1, ["fun", ["id"]]]]] for t in keys], "tables": []}, "ops": ops}
    # (d)
    for areps, treps in ([[[0, ["attr", 0]]], []], [[], [[1, [[0, ["attr", 0]]]]]], [[[0, ["attr", 0]]], [[5, [[0, ["fun", ["id"]]]]]]]):
        for ops in ([["frames"]], [["collect"], ["frames"]], [["create", 2, [[0, 1]]], ["remove", 1], ["collect"], ["frames"]],
                    [["step"], ["collect"], ["create", 2, [[0, 1]]], ["step"], ["collect"], ["frames"]]):
            yield {"cfg": {"mreps": [[0, ["fun", False, ["count"]]]], "areps": areps, "treps": treps, "tables": []}, "ops": ops}


# ------------------------------------------------------------------ implementation side
_CLS = None


def _classes():
    global _CLS
    if _CLS is None:
        import mesa

        class _Mixin:            # a mixin placed AFTER the framework base in the MRO
            def describe(self):
                return "mixin"

        class A(mesa.Agent, _Mixin):
            def __bool__(self):   # an agent whose truth value is False (`if agent:` instead of `is not None`)
                return False

        class Base(mesa.Agent):
            pass

        class Sub1(Base):
            pass

        class Sub2(Base):
            def __len__(self):    # ... and one that is falsy through __len__
                return 0

        class SubSub(Sub1):
            pass

        _CLS = {0: A, 1: Base, 2: Sub1, 3: Sub2, 4: SubSub, 5: mesa.Agent, 9: int}
    return _CLS


def _mname(n):
    return f"m{n}"


def _aname(n):
    return f"a{n}"


def _py_mfun(f):
    k = f[0]
    if k == "attr":
        name = _mname(f[1])
        return lambda m: getattr(m, name)
    if k == "count":
        return lambda m: len(m.agents)
    if k == "sum":
        name = _aname(f[1])
        return lambda m: sum(getattr(a, name, 0) for a in m.agents)
    if k == "steps":
        return lambda m: m.steps
    if k == "ids":
        return lambda m: [a.unique_id for a in m.agents]
    raise ValueError(f)


def _py_gfun(g):
    return {"sum": lambda *p: sum(p), "len": lambda *p: len(p), "list": lambda *p: list(p), "none": lambda *p: None}[g]


def _py_afun(f):
    k = f[0]
    if k == "attr":
        name = _aname(f[1])
        return lambda a: getattr(a, name)
    if k == "id":
        return lambda a: a.unique_id
    if k == "plus":
        name, c = _aname(f[1]), f[2]
        return lambda a: getattr(a, name, 0) + c
    if k == "steps":
        name = _aname(f[1])
        return lambda a: a.model.steps * 1000 + getattr(a, name, 0)
    raise ValueError(f)


def _mk_mrep(model, r):
    """-> (reporter object handed to DataCollector, direct evaluation thunk)"""
    import functools
    import types

    form = r[0]
    if form == "attr":
        name = _mname(r[1])
        return name, (lambda: getattr(model, name, None))
    if form == "fun":
        f = _py_mfun(r[2])
        if r[1]:
            return functools.partial(lambda tag, m: f(m), "tag"), (lambda: f(model))
        return (lambda m: f(m)), (lambda: f(model))
    if form == "method":
        f = _py_mfun(r[1])
        return types.MethodType(lambda self: f(self), model), (lambda: f(model))
    if form == "args":
        g = _py_gfun(r[1])
        args = list(r[2])
        return [g, args], (lambda: g(*r[2]))
    raise ValueError(r)


def _mk_arep(model, r):
    """-> (reporter object, direct evaluation function of the agent)"""
    import types

    form = r[0]
    if form == "attr":
        name = _aname(r[1])
        return name, (lambda a: getattr(a, name, None))
    if form == "fun":
        f = _py_afun(r[1])
        return (lambda a: f(a)), f
    if form == "method":
        f = _py_afun(r[1])
        return types.MethodType(lambda self, a: f(a), model), f
    if form == "args":
        name = _aname(r[1])
        params = list(r[2])

        def fn(a, *p):
            return getattr(a, name, 0) + sum(p)
        return [fn, params], (lambda a: getattr(a, name, 0) + sum(r[2]))
    raise ValueError(r)


def _is_int(v):
    import numbers

    return isinstance(v, numbers.Integral) and not isinstance(v, bool)


_EXOTIC = None


def _exotic():
    """immutable Python values of other types than int; value code 10000 + i in the histories (and in the Z-valued model)
    stands for _exotic()[i]; the mapping is injective on (type, value)"""
    global _EXOTIC
    if _EXOTIC is None:
        from decimal import Decimal
        from fractions import Fraction

        _EXOTIC = [True, False, "s", "", (1, "b"), Decimal("1.10"), Decimal("2"), Fraction(1, 3), Fraction(2, 1),
                   frozenset({1, 2}), frozenset(), 0.5, 0.25, -1.5, 0.1, 1e300, 5e-324]
    return _EXOTIC


EXO_OBJECT = [10000 + i for i in range(11)]      # force an object column: bool, str, tuple, Decimal, Fraction, frozenset
EXO_FLOAT = [10011, 10012, 10013, 10014, 10015, 10016]   # floats incl. non-dyadic 0.1, 1e300, the smallest denormal: no arithmetic is
#                                                    done on them, so they must come back bit-exact (a numeric column; ints in it
#                                                    come back as integral floats)
EXO_BIGINT = [2 ** 60 + 1, -(2 ** 55 + 3), 2 ** 53 + 1]   # beyond the float mantissa (an int64 column)


def _obj(v):
    return _exotic()[v - 10000] if isinstance(v, int) and 10000 <= v < 10100 else v


def _canon(v):
    """canonical immutable form of a stored / framed value; a value of an exotic type is its code only when it is the
    very same value AND type as the table entry (so Decimal('1.10') read back as the float 1.1 is not)"""
    import math

    if v is None:
        return None
    for i, o in enumerate(_exotic()):
        if type(o) is type(v) and o == v:
            return 10000 + i
    if _is_int(v):
        return int(v)
    if isinstance(v, float):
        if math.isnan(v):
            return None
        if v == int(v):
            return int(v)
        return ("bad", repr(v))
    if isinstance(v, (list, tuple)):
        return tuple(_canon(x) for x in v)
    return ("bad", repr(v)[:40])


def _enc_snap(c):
    if c is None:
        return [0]
    if isinstance(c, int):
        return [1, c]
    if isinstance(c, tuple) and all(isinstance(x, int) for x in c):
        return [2, len(c), *c]
    return [9]


def _enc_list(f, l):
    out = [len(l)]
    for x in l:
        out += f(x)
    return out


def _enc_row(r):
    # r = (step, id, values...) canonical
    if not (len(r) >= 2 and isinstance(r[0], int) and isinstance(r[1], int)):
        return [9]
    return [r[0], r[1]] + _enc_list(_enc_snap, list(r[2:]))


def _enc_cell(c):
    return [0] if c is None else ([1, c] if isinstance(c, int) else [9])


def _num(name):
    try:
        return int(str(name)[1:])
    except Exception:  # noqa: BLE001
        return -9


def _snapshot(dc, clsnum):
    """canonical copy of the whole collector state"""
    mv = [(_num(k), [_canon(x) for x in v]) for k, v in dc.model_vars.items()]
    ar = [(int(s), [_canon(r) for r in rows]) for s, rows in dc._agent_records.items()]
    tr = [(int(s), [(clsnum.get(t, -9), [_canon(r) for r in rows]) for t, rows in inner.items()])
          for s, inner in dc._agenttype_records.items()]
    tb = [(_num(t), [(_num(c), [_canon(x) for x in vals]) for c, vals in cols.items()]) for t, cols in dc.tables.items()]
    return {"mv": mv, "ar": ar, "tr": tr, "tb": tb}


def _enc_state(s):
    return (_enc_list(lambda p: [p[0]] + _enc_list(_enc_snap, p[1]), s["mv"])
            + _enc_list(lambda p: [p[0]] + _enc_list(_enc_row, p[1]), s["ar"])
            + _enc_list(lambda p: [p[0]] + _enc_list(lambda q: [q[0]] + _enc_list(_enc_row, q[1]), p[1]), s["tr"])
            + _enc_list(lambda p: [p[0]] + _enc_list(lambda q: [q[0]] + _enc_list(_enc_cell, q[1]), p[1]), s["tb"]))


def _exc_kind(e):
    t = type(e)
    if t is AttributeError:
        return E_ATTR
    if t is ValueError:
        return E_VALUE
    if t is RuntimeError:
        return E_RUNTIME
    if t is Exception:
        return E_EXC
    if t is UserWarning:
        return E_USERWARNING
    return 99


def _frame_rows(df):
    """rows of a frame with a plain RangeIndex: list of tuples of canonical cells"""
    return [tuple(_canon(x) for x in row) for row in df.values.tolist()]


def _frame_recs(df):
    """rows of a (Step, AgentID)-indexed frame as canonical records (step, id, values...)"""
    out = []
    idx = df.index.tolist()
    vals = df.values.tolist()
    for i, row in zip(idx, vals):
        if isinstance(i, tuple) and len(i) == 2:
            out.append((_canon(i[0]), _canon(i[1])) + tuple(_canon(x) for x in row))
        else:
            out.append((("bad", repr(i)),))
    return out


# ------------------------------------------------------------------ oracle-only streams (no Z-valued model): rare containers, scale
class _Box:
    """a dataclass-like value"""

    def __init__(self, items):
        self.items = list(items)
        self.meta = {"n": len(items)}


def _mk_container(model, n, kind, l):
    import collections

    import numpy as np

    l = list(l)
    if kind == 0:
        v = l
    elif kind == 1:                          # object-dtype array holding a list and a dict of a list
        v = np.empty(2, dtype=object)
        v[0], v[1] = list(l), {"k": list(l)}
    elif kind == 2:
        v = (list(l), "x")                   # a tuple with a nested list
    elif kind == 3:
        v = {"a": np.array(l, dtype=np.int64), "b": list(l)}
    elif kind == 4:
        v = set(l)
    elif kind == 5:
        v = collections.deque(l)
    elif kind == 6:
        v = _Box(l)
    elif kind == 7:
        v = np.array([l, l], dtype=np.int64)  # 2-D
    elif kind == 8:
        v = np.zeros(max(1, len(l)), dtype=[("x", "i8"), ("y", "f8")])
        v["x"][:len(l)] = l
    elif kind == 9:                          # a VIEW of an array the model keeps writing to
        base = np.arange(10, dtype=np.int64) + sum(l)
        setattr(model, f"base{n}", base)
        v = base[2:6]
    elif kind == 10:
        v = [[x] for x in l]                 # nested lists
    elif kind == 12:
        v = ((1, list(l)), (2, {"d": list(l)}), frozenset({3}))   # a tuple of tuples that hold a list / a dict
    else:
        v = np.array(l, dtype=np.int64)
    setattr(model, _mname(n), v)


def _mutate_container(model, n, z):
    """an in-place change of whatever container model.m<n> holds; False when there is nothing to change"""
    import collections

    import numpy as np

    v = getattr(model, _mname(n), None)
    if isinstance(v, list):
        if v and isinstance(v[0], list):
            v[0].append(z)
        else:
            v.append(z)
    elif isinstance(v, np.ndarray) and v.dtype == object:
        v[0].append(z)
        v[1]["k"].append(z)
    elif isinstance(v, np.ndarray) and v.dtype.names:
        v["x"] += z + 1
    elif isinstance(v, np.ndarray):
        base = getattr(model, f"base{n}", None)
        if base is not None and v.base is base:
            base += z + 1                    # written through the view
        elif v.size:
            v += z + 1
        else:
            return False
    elif isinstance(v, tuple) and isinstance(v[0], tuple):
        v[0][1].append(z)
        v[1][1]["d"].append(z)
    elif isinstance(v, tuple):
        v[0].append(z)
    elif isinstance(v, dict):
        v["a"] += z + 1
        v["b"].append(z)
    elif isinstance(v, set):
        v.add(z + 1000 * len(v))
    elif isinstance(v, collections.deque):
        v.append(z)
    elif isinstance(v, _Box):
        v.items.append(z)
        v.meta["n"] += 1
    else:
        return False
    return True


def _deep(v):
    """immutable deep picture of a value: type names included"""
    import collections

    import numpy as np

    if v is None or isinstance(v, (bool, int, float, str)):
        return (type(v).__name__, v)
    if isinstance(v, np.generic):
        return ("np", str(v.dtype), v.item())
    if isinstance(v, np.ndarray):
        return ("nd", str(v.dtype), v.shape, _deep(v.tolist()))
    if isinstance(v, (list, tuple, collections.deque)):
        return (type(v).__name__, tuple(_deep(x) for x in v))
    if isinstance(v, (set, frozenset)):
        return (type(v).__name__, tuple(sorted(repr(_deep(x)) for x in v)))
    if isinstance(v, dict):
        return ("dict", tuple((repr(k), _deep(x)) for k, x in v.items()))
    if hasattr(v, "__dict__"):
        return ("obj", type(v).__name__, _deep(vars(v)))
    return ("other", repr(v)[:60])


def _run_containers(case):
    """model reporters (all four forms + partial) whose values are rare MUTABLE containers changed in place after the collect:
    every recorded value must stay what the reporter yielded at its collect (statement: immune to later mutation)"""
    import functools
    import types

    import mesa
    from mesa.datacollection import DataCollector

    model = mesa.Model()
    for n, kind, l in case["init"]:
        _mk_container(model, n, kind, l)
    reps, direct = {}, {}
    for j, (n, form) in enumerate(case["reps"]):
        name = _mname(n)
        get = (lambda nm: lambda: getattr(model, nm, None))(name)
        direct[f"r{j}"] = get
        if form == "attr":
            reps[f"r{j}"] = name
        elif form == "fun":
            reps[f"r{j}"] = (lambda nm: lambda m: getattr(m, nm, None))(name)
        elif form == "partial":
            reps[f"r{j}"] = functools.partial(lambda nm, m: getattr(m, nm, None), name)
        elif form == "method":
            reps[f"r{j}"] = types.MethodType((lambda nm: lambda self: getattr(self, nm, None))(name), model)
        else:
            reps[f"r{j}"] = [lambda m, nm: getattr(m, nm, None), [model, name]]
    dc = DataCollector(model_reporters=reps)
    shadow = {k: [] for k in reps}
    obs, failures = [], []

    def fail(key, i, what):
        if not any(f["key"] == key for f in failures):
            failures.append({"key": key, "op": i, "what": what})

    for i, op in enumerate(case["ops"]):
        kind = op[0]
        try:
            if kind == "mk":
                _mk_container(model, op[1], op[2], op[3])
            elif kind == "mut":
                _mutate_container(model, op[1], op[2])
            elif kind == "step":
                model.steps += 1
            elif kind == "collect":
                exp = {k: _deep(f()) for k, f in direct.items()}
                dc.collect(model)
                for k, v in exp.items():
                    shadow[k].append(v)
                    got = dc.model_vars[k]
                    if len(got) != len(shadow[k]):
                        fail("C12/collect/model-var-count", i, f"model reporter {k}: {len(got)} values after {len(shadow[k])} collects")
                    elif _deep(got[-1]) != v:
                        fail("C12/collect/model-var-value", i, f"model reporter {k} ({case['reps']}): collect() stored {_deep(got[-1])}, evaluating it directly gives {v}")
            for k, vals in shadow.items():
                got = [_deep(x) for x in dc.model_vars[k][:len(vals)]]
                if got != vals:
                    j = next(j for j, (a, b) in enumerate(zip(got, vals)) if a != b)
                    fail("C12/collect/model-var-mutated-later", i,
                         f"after {op} the value model reporter {k} recorded at collect number {j} changed: {got[j]} (it was {vals[j]}); "
                         f"containers {case['init']}, reporters {case['reps']}")
                    shadow[k] = got
        except Exception as e:  # noqa: BLE001
            fail(f"C12/{kind}/unexpected-exception", i, f"{op} raised {type(e).__name__}: {e}")
        obs.append([0])
    return {"obs": obs, "failures": failures, "model": False}


def _run_scale(case):
    """SCALE (harness/SCALE_NOTE.md): many agents / many collects / long tables, sizes crossing 255/256/257/1024/1025/4096, values
    beyond 2^31, 2^53, 2^63; checked against directly computed expectations at the end"""
    import warnings

    import mesa
    from mesa.datacollection import DataCollector

    cls = _classes()
    N, K, T, churn = case["agents"], case["collects"], case["rows"], case["churn"]
    model = mesa.Model()
    model.big = 2 ** 53
    dc = DataCollector(model_reporters={"count": lambda m: len(m.agents), "big": "big", "ids": lambda m: [a.unique_id for a in m.agents][-3:]},
                       agent_reporters={"id": "unique_id", "v": lambda a: a.v, "w": "w"},
                       agenttype_reporters={cls[2]: {"v": "v"}}, tables={"t": ["a", "b", "c"]})
    reg = []
    for j in range(N):
        a = cls[j % 5](model)
        a.v, a.w = 2 ** 53 + j, (j if j % 2 else None)     # (ints beyond 2^53 never share a column with None / floats: pandas' own rule)
        reg.append(a)
    exp_m, exp_a, exp_t = [], {}, {}
    failures, obs = [], []

    def fail(key, what):
        if not any(f["key"] == key for f in failures):
            failures.append({"key": key, "op": 0, "what": what[:600]})

    try:
        for c in range(K):
            if c % 3 != 0:
                model.steps += 1
            if churn and reg and c % 2:
                reg.pop(len(reg) // 2).remove()
                a = cls[2](model)
                a.v, a.w = 2 ** 53 + 7 * c, None
                reg.append(a)
            if reg:
                reg[c % len(reg)].v = 2 ** 62 + c
            model.big += c
            exp_m.append((len(reg), model.big, tuple(a.unique_id for a in reg[-3:])))
            exp_a[model.steps] = [(model.steps, a.unique_id, a.unique_id, a.v, a.w) for a in reg]
            exp_t[model.steps] = [(model.steps, a.unique_id, a.v) for a in reg if type(a) is cls[2]]
            dc.collect(model)
        rows = []
        for j in range(T):
            r = {"a": j, "b": 2 ** 63 + j, "c": (None if j % 257 == 0 else -j)}
            if j % 257 == 0:
                del r["c"]
            dc.add_table_row("t", r, ignore_missing=True)
            rows.append((j, 2 ** 63 + j, None if j % 257 == 0 else -j))
        got_m = list(zip(dc.model_vars["count"], dc.model_vars["big"], (tuple(x) for x in dc.model_vars["ids"])))
        if [len(v) for v in dc.model_vars.values()] != [K] * 3:
            fail("C12/collect/model-var-count", f"{K} collects, model_vars lengths {[len(v) for v in dc.model_vars.values()]}")
        elif got_m != exp_m:
            j = next(j for j, (a, b) in enumerate(zip(got_m, exp_m)) if a != b)
            fail("C12/collect/model-var-value", f"collect number {j} of {K} ({N} agents): stored {got_m[j]}, directly {exp_m[j]}")
        if {s: list(map(tuple, r)) for s, r in dc._agent_records.items()} != exp_a:
            bad = [s for s in exp_a if list(map(tuple, dc._agent_records.get(s, []))) != exp_a[s]][:3]
            fail("C12/collect/agent-rows", f"{N} agents, {K} collects: _agent_records differ at steps {bad} "
                                           f"({[len(dc._agent_records.get(s, [])) for s in bad]} rows, expected {[len(exp_a[s]) for s in bad]})")
        got_t = {s: list(map(tuple, inner.get(cls[2], []))) for s, inner in dc._agenttype_records.items()}
        if got_t != exp_t:
            fail("C12/collect/agenttype-rows", f"{N} agents, {K} collects: agent-type records of class 2 differ at steps {[s for s in exp_t if got_t.get(s) != exp_t[s]][:3]}")
        with warnings.catch_warnings():
            warnings.simplefilter("ignore")
            df = dc.get_agent_vars_dataframe()
            cols_ = [df[c_].tolist() for c_ in df.columns]        # column by column: DataFrame.values would unify the dtypes
            recs = [(i[0], i[1]) + tuple(None if (isinstance(x, float) and x != x) else x for x in row) for i, row in zip(df.index.tolist(), zip(*cols_))]
            want = [r for s in exp_a for r in exp_a[s]]
            if len(recs) != len(want) or any(a[:4] != b[:4] for a, b in zip(recs, want)) or list(df.columns) != ["id", "v", "w"]:
                j = next((j for j, (a, b) in enumerate(zip(recs, want)) if a[:4] != b[:4]), -1)
                fail("C12/frames/agent", f"get_agent_vars_dataframe(): {len(recs)} rows for {len(want)} records; first difference at row {j}: "
                                         f"{recs[j] if 0 <= j < len(recs) else None} vs {want[j] if 0 <= j < len(want) else None}")
            mdf = dc.get_model_vars_dataframe()
            if len(mdf) != K or list(mdf["count"]) != [m[0] for m in exp_m] or list(mdf["big"]) != [m[1] for m in exp_m]:
                fail("C12/frames/model", f"get_model_vars_dataframe(): {len(mdf)} rows for {K} collects or values differ")
            tdf = dc.get_table_dataframe("t")
            trow = [(a, b, None if (isinstance(c, float) and c != c) else c) for a, b, c in zip(*[tdf[c_].tolist() for c_ in "abc"])] if len(tdf) else []
        lens = {len(v) for v in dc.tables["t"].values()}
        if lens != {T}:
            fail("C12/add_table_row/misaligned", f"{T} rows added, column lengths {lens}")
        if [tuple(dc.tables["t"][c][j] for c in "abc") for j in range(T)] != rows:
            fail("C12/add_table_row/wrong-row", f"table of {T} rows: stored cells differ from the rows given")
        if len(trow) != T or any((a, b) != (x, y) or (c is None) != (z is None) or (c is not None and c != z) for (a, b, c), (x, y, z) in zip(trow, rows)):
            fail("C12/frames/table", f"get_table_dataframe(): {len(trow)} rows for {T} accepted rows or cells differ")
    except Exception as e:  # noqa: BLE001
        import traceback
        fail("C12/scale/unexpected-exception", f"{case}: {type(e).__name__}: {e} {traceback.format_exc()[-300:]}")
    return {"obs": [[0] for _ in case["ops"]], "failures": failures, "model": False}


class _UserError(Exception):
    pass


_EXCS = {"StopIteration": StopIteration, "IndexError": IndexError, "KeyError": KeyError, "AttributeError": AttributeError,
         "TypeError": TypeError, "GeneratorExit": GeneratorExit, "custom": _UserError, "ValueError": ValueError}


def _raise_user(name):
    if name == "StopIteration":
        return next(iter(()))            # the bare next() "first match" idiom finding nothing
    if name == "IndexError":
        return [][0]
    if name == "KeyError":
        return {}[1]
    raise _EXCS[name]("user reporter failed")


def _run_usercode(case):
    """USER CODE in the loop (harness/USERCODE_NOTE.md A): reporters of every form at model / agent / agent-type level that raise for
    SOME agents in SOME states (StopIteration, IndexError, KeyError, AttributeError, TypeError, GeneratorExit, a custom class) or
    re-enter the API during collect (add_table_row, remove / create agents); the caller catches and carries on.  Demanded (what HEAD
    does): a collect that returns normally recorded exactly one row per registered agent with the values the reporters returned and
    one value per model reporter; a collect that raised left the records of the current step either untouched or complete, other
    steps and tables untouched, no model_vars list changed by more than one appended value; the NEXT collects are complete."""
    import types

    import mesa
    from mesa.datacollection import DataCollector

    exc, level, form = case["exc"], case["level"], case["form"]
    st = {"armed": False, "bad": set(), "reenter": 0, "did": False, "raised_in_reporter": False, "returns": {}}
    reg, tshadow = [], []

    class UModel(mesa.Model):
        @property
        def pm(self):
            return core_m(self)

        def rep_a(self, agent):        # a bound method of the model taking the agent
            return core_a(agent)

        def rep_m(self):
            return core_m(self)

    class UA(mesa.Agent):
        def __init__(self, model, x):
            super().__init__(model)
            self.x = x

        @property
        def px(self):
            return core_a(self)

    model = UModel()

    def reenter(agent):
        if st["reenter"] == 1:
            dc.add_table_row("t", {"a": agent.unique_id})
            tshadow.append(agent.unique_id)
        elif st["reenter"] == 2 and not st["did"]:
            others = [a for a in reg if a is not agent]
            if others:
                st["did"] = True
                others[-1].remove()
                reg.remove(others[-1])
        elif st["reenter"] == 3 and not st["did"]:
            st["did"] = True
            reg.append(UA(model, 50))

    def core_a(agent):
        reenter(agent)
        if st["armed"] and agent.unique_id in st["bad"]:
            st["raised_in_reporter"] = True
            _raise_user(exc)
        st["returns"][agent.unique_id] = agent.x
        return agent.x

    def core_m(m):
        if level == "model" and st["armed"]:
            st["raised_in_reporter"] = True
            _raise_user(exc)
        st["returns"]["model"] = len(m.agents) * 10 + m.steps
        return st["returns"]["model"]

    def areporter():
        if form == "prop":
            return "px"
        if form == "fun":
            return lambda a: core_a(a)
        if form == "method":
            return model.rep_a
        return [lambda a, k: core_a(a) + k - k, [3]]

    def mreporter():
        if level != "model":
            return lambda m: core_m(m)
        if form == "prop":
            return "pm"
        if form == "fun":
            return lambda m: core_m(m)
        if form == "method":
            return model.rep_m
        return [lambda m_: core_m(m_), [model]]

    for j in range(case["n"]):
        reg.append(UA(model, 10 + j))
    dc = DataCollector(model_reporters={"first": lambda m: m.steps, "m": mreporter(), "last": lambda m: -m.steps},
                       agent_reporters={"v": areporter()} if level != "type" else {"id": "unique_id"},
                       agenttype_reporters={UA: {"v": areporter()}} if level == "type" else None, tables={"t": ["a"]})
    obs, failures = [], []

    def fail(key, i, what):
        if not any(f["key"] == key for f in failures):
            failures.append({"key": key, "op": i, "what": what[:700]})

    def recs():
        a = {s_: [tuple(r) for r in rows] for s_, rows in dc._agent_records.items()}
        t = {s_: [tuple(r) for r in inner.get(UA, [])] for s_, inner in dc._agenttype_records.items()}
        return a, t

    for i, op in enumerate(case["ops"]):
        kind = op[0]
        try:
            if kind == "arm":
                st["armed"], st["bad"] = True, set(op[1])
            elif kind == "disarm":
                st["armed"] = False
            elif kind == "reenter":
                st["reenter"] = op[1]
            elif kind == "step":
                model.steps += 1
            elif kind == "remove":
                for a in [a for a in reg if a.unique_id == op[1]]:
                    a.remove()
                    reg.remove(a)
            elif kind == "create":
                reg.append(UA(model, op[1]))
            elif kind == "setx":
                for a in reg:
                    if a.unique_id == op[1]:
                        a.x = op[2]
            elif kind == "copymut":
                # user code "operates on a copy" of model.agents (Model docstring) and changes THE COPY; registration is what the
                # create / remove calls of this history say (reg), never what model.agents shows
                import copy

                mode = op[1]
                c = [lambda: copy.copy(model.agents), lambda: model.agents.select(), lambda: model.agents.shuffle(),
                     lambda: copy.copy(model.agents_by_type[UA]) if UA in model.agents_by_type else copy.copy(model.agents),
                     lambda: model.agents.select(), lambda: copy.copy(model.agents)][mode % 6]()
                live = list(c)
                if mode % 6 in (0, 2, 3) and live:
                    c.discard(live[op[2] % len(live)])
                elif mode % 6 == 1 and live:
                    c.remove(live[-1])
                elif mode % 6 == 4:
                    c.select(lambda a: False, inplace=True)      # empties the copy in place
                    if live:
                        c.add(live[0])
                else:
                    c.shuffle(inplace=True)
                    c.sort("x", ascending=False, inplace=True)
                    if live:
                        c.discard(live[0])
            elif kind == "collect":
                st["did"], st["raised_in_reporter"], st["returns"] = False, False, {}
                a0, t0 = recs()
                lens0 = {k: len(v) for k, v in dc.model_vars.items()}
                tb0 = list(dc.tables["t"]["a"])
                t_before = len(tshadow)
                now = model.steps
                try:
                    dc.collect(model)
                    raised = None
                except BaseException as e:  # noqa: BLE001  (GeneratorExit is a BaseException)
                    raised = e
                a1, t1 = recs()
                lens1 = {k: len(v) for k, v in dc.model_vars.items()}
                key_rows = "v" if level != "type" else None
                want_a = [(now, a.unique_id, (st["returns"].get(a.unique_id) if level != "type" else a.unique_id)) for a in reg]
                want_t = [(now, a.unique_id, st["returns"].get(a.unique_id)) for a in reg]
                ctx = f"{case['level']}-level reporter, form {form}, raising {exc} for {sorted(st['bad'])} (armed={st['armed']}, reenter={st['reenter']})"
                # tables: only what the reporter itself added
                if list(dc.tables["t"]["a"]) != tb0 + tshadow[t_before:]:
                    fail("C12/collect/raising-collect-touched-other-records", i, f"{ctx}: table column {dc.tables['t']['a']}, expected {tb0 + tshadow[t_before:]}")
                other = lambda d: {s_: r for s_, r in d.items() if s_ != now}   # noqa: E731
                if other(a1) != other(a0) or other(t1) != other(t0):
                    fail("C12/collect/raising-collect-touched-other-records", i, f"{ctx}: records of other steps changed")
                if any(not (0 <= lens1[k] - lens0[k] <= 1) for k in lens0):
                    fail("C12/collect/raising-collect-model-vars", i, f"{ctx}: model_vars lengths {lens0} -> {lens1}")
                if raised is None:
                    if st["raised_in_reporter"] and not (form == "prop" and exc == "AttributeError"):
                        fail("C12/collect/reporter-exception-swallowed", i,
                             f"{ctx}: a reporter raised {exc} but collect() returned normally; _agent_records[{now}] = {a1.get(now)}, "
                             f"registered agents {[a.unique_id for a in reg]}")
                    if any(lens1[k] != lens0[k] + 1 for k in lens0):
                        fail("C12/collect/model-var-count", i, f"{ctx}: collect returned normally, model_vars lengths {lens0} -> {lens1}")
                    elif dc.model_vars["m"][-1] != st["returns"].get("model"):
                        fail("C12/collect/model-var-value", i, f"{ctx}: stored {dc.model_vars['m'][-1]}, the reporter returned {st['returns'].get('model')}")
                    if a1.get(now) != want_a:
                        fail("C12/collect/agent-rows", i, f"{ctx}: collect returned normally; _agent_records[{now}] = {a1.get(now)}, one row per "
                                                          f"registered agent with the values the reporter returned is {want_a}")
                    if level == "type" and t1.get(now) != want_t:
                        fail("C12/collect/agenttype-rows", i, f"{ctx}: _agenttype_records[{now}][UA] = {t1.get(now)}, expected {want_t}")
                else:
                    if not st["raised_in_reporter"] and st["reenter"] not in (2, 3):
                        fail("C12/collect/unexpected-exception", i, f"{ctx}: collect raised {type(raised).__name__}: {raised} although no reporter raised")
                    # the current step: untouched, or complete
                    if a1.get(now) != a0.get(now) and level != "type" and a1.get(now) != want_a:
                        fail("C12/collect/raising-collect-partial-agent-records", i,
                             f"{ctx}: collect raised {type(raised).__name__}; _agent_records[{now}] went from {a0.get(now)} to {a1.get(now)}")
                    if t1.get(now) not in (t0.get(now), want_t, [], None):
                        fail("C12/collect/raising-collect-partial-agent-records", i,
                             f"{ctx}: collect raised {type(raised).__name__}; _agenttype_records[{now}][UA] went from {t0.get(now)} to {t1.get(now)}")
        except Exception as e:  # noqa: BLE001
            fail(f"C12/{kind}/unexpected-exception", i, f"{op} raised {type(e).__name__}: {e}")
        obs.append([0])
    return {"obs": obs, "failures": failures, "model": False}


def run_impl(case):
    if case.get("kind") == "usercode":
        return _run_usercode(case)
    if case.get("kind") == "containers":
        return _run_containers(case)
    if case.get("kind") == "scale":
        return _run_scale(case)
    import warnings

    import mesa
    from mesa.datacollection import DataCollector

    cls = _classes()
    clsnum = {v: k for k, v in cls.items()}
    cfg = case["cfg"]
    model = mesa.Model()
    m_direct, a_direct, t_direct = {}, {}, {}
    mreps, areps, treps = {}, {}, {}
    for n, r in cfg["mreps"]:
        mreps[f"r{n}"], m_direct[n] = _mk_mrep(model, r)
    for n, r in cfg["areps"]:
        areps[f"r{n}"], a_direct[n] = _mk_arep(model, r)
    for t, reps in cfg["treps"]:
        treps[cls[t]] = {}
        t_direct[t] = {}
        for n, r in reps:
            treps[cls[t]][f"r{n}"], t_direct[t][n] = _mk_arep(model, r)
    tables = {f"t{t}": [f"c{c}" for c in cols] for t, cols in cfg["tables"]}
    dc = DataCollector(model_reporters=mreps or None, agent_reporters=areps or None,
                       agenttype_reporters=treps or None, tables=tables or None)
    model.datacollector = dc

    reg = []            # the driver's own registry: live agents in creation order
    by_id = {}
    # the shadow: what the statement says the collector must hold
    sh = {"mv": [(n, []) for n, _ in cfg["mreps"]], "ar": [], "tr": [], "tb": [(t, [(c, []) for c in cols]) for t, cols in cfg["tables"]]}
    obs, failures = [], []
    collected_once = False

    def fail(key, i, what):
        failures.append({"key": key, "op": i, "what": what})

    def dict_set(lst, k, v):
        for j, (kk, _) in enumerate(lst):
            if kk == k:
                lst[j] = (k, v)
                return
        lst.append((k, v))

    def in_quantifier(t):
        direct = [a for a in reg if type(a) is cls[t]]
        subs = [a for a in reg if isinstance(a, cls[t]) and type(a) is not cls[t]]
        return not subs or not direct

    for i, op in enumerate(case["ops"]):
        kind = op[0]
        before = _snapshot(dc, clsnum)
        code = [0]
        try:
            if kind == "set":
                setattr(model, _mname(op[1]), _obj(op[2]))
            elif kind == "none":
                setattr(model, _mname(op[1]), None)
            elif kind == "newlist":
                setattr(model, _mname(op[1]), list(op[2]))
            elif kind == "alias":
                if hasattr(model, _mname(op[2])):
                    setattr(model, _mname(op[1]), getattr(model, _mname(op[2])))
                else:
                    code = [-2]
            elif kind == "append":
                v = getattr(model, _mname(op[1]), None)
                if isinstance(v, list):
                    v.append(op[2])
                else:
                    code = [-2]
            elif kind == "del":
                if hasattr(model, _mname(op[1])):
                    delattr(model, _mname(op[1]))
                else:
                    code = [-2]
            elif kind == "create":
                if op[1] in CLASSES:
                    a = cls[op[1]](model)
                    for n, v in op[2]:
                        setattr(a, _aname(n), _obj(v))
                    reg.append(a)
                    by_id[a.unique_id] = a
                    if a.unique_id != len(by_id):
                        fail("C12/driver/unique-id", i, f"agent number {len(by_id)} got unique_id {a.unique_id}")
                else:
                    code = [-2]
            elif kind == "remove":
                a = by_id.get(op[1])
                if a is not None and a in reg:
                    a.remove()
                    reg.remove(a)
                else:
                    code = [-2]
            elif kind == "aset":
                a = by_id.get(op[1])
                if a is not None and a in reg:
                    setattr(a, _aname(op[2]), _obj(op[3]))
                else:
                    code = [-2]
            elif kind == "step":
                model.steps += 1
            elif kind == "collect":
                # ---- the statement, evaluated directly and frozen BEFORE the call
                exp_m, exp_rows, exp_t = [], None, []
                reason = None       # a legitimate reason for collect to raise
                try:
                    if cfg["mreps"] and not getattr(dc, "_validated", True):
                        for n, r in cfg["mreps"]:
                            if r[0] == "attr" and not hasattr(model, _mname(r[1])):
                                reason = "validation"
                    for n, _ in cfg["mreps"]:
                        exp_m.append((n, _canon(m_direct[n]())))
                    if cfg["areps"]:
                        exp_rows = [(model.steps, a.unique_id) + tuple(_canon(a_direct[n](a)) for n, _ in cfg["areps"]) for a in reg]
                    for t, reps in cfg["treps"]:
                        if t == 9:
                            reason = reason or "not-an-agent-class"
                            break
                        rows = [(model.steps, a.unique_id) + tuple(_canon(t_direct[t][n](a)) for n, _ in reps)
                                for a in reg if isinstance(a, cls[t])]
                        exp_t.append((t, rows, in_quantifier(t)))
                except AttributeError:
                    reason = reason or "reporter-raises"
                steps_now = model.steps
                try:
                    dc.collect(model)
                    raised = None
                except Exception as e:  # noqa: BLE001
                    raised = e
                after = _snapshot(dc, clsnum)
                if raised is not None:
                    code = [-1, _exc_kind(raised)]
                    if reason is None:
                        code = [-1, 99]
                        fail("C12/collect/unexpected-exception", i, f"collect() raised {type(raised).__name__}: {raised}")
                    # what the statement does say about a collect that raises: it may not disturb the tables nor the
                    # records kept under other steps, and no model_vars list may shrink or grow by more than one value
                    other = lambda recs: [(s_, r_) for s_, r_ in recs if s_ != steps_now]   # noqa: E731
                    if after["tb"] != before["tb"] or other(after["ar"]) != other(before["ar"]) or other(after["tr"]) != other(before["tr"]):
                        fail("C12/collect/raising-collect-touched-other-records", i,
                             f"collect() raised {type(raised).__name__} and changed tables or records of other steps: "
                             f"before {before}, after {after}")
                    for (n_, l0), (_, l1) in zip(before["mv"], after["mv"]):
                        if l1[:len(l0)] != l0 or len(l1) > len(l0) + 1:
                            fail("C12/collect/raising-collect-model-vars", i,
                                 f"collect() raised {type(raised).__name__}; model_vars[r{n_}] went from {l0} to {l1}")
                    # otherwise not judged: adopt what the implementation holds
                    sh = {k: [(a, list(b)) for a, b in v] for k, v in after.items()}
                else:
                    if reason == "validation":
                        pass  # validation is the implementation's choice; not demanded by the statement
                    if reason in ("reporter-raises", "not-an-agent-class"):
                        sh = {k: [(a, list(b)) for a, b in v] for k, v in after.items()}
                    else:
                        for (n, v), (n2, l) in zip(exp_m, sh["mv"]):
                            l.append(v)
                        if exp_rows is not None:
                            dict_set(sh["ar"], steps_now, exp_rows)
                        if cfg["treps"]:
                            got_inner = dict(next((inner for s, inner in after["tr"] if s == steps_now), []))
                            inner = []
                            for t, rows, judged in exp_t:
                                inner.append((t, rows if judged else got_inner.get(t, rows)))
                            dict_set(sh["tr"], steps_now, inner)
                        # judge now, with specific keys
                        for (n, l), (n2, l2) in zip(sh["mv"], after["mv"]):
                            if len(l2) != len(l):
                                fail("C12/collect/model-var-count", i,
                                     f"collect() number {len(l)} left {len(l2)} values for model reporter r{n} (one per collect is required)")
                            elif l2[-1:] != l[-1:]:
                                fail("C12/collect/model-var-value", i,
                                     f"model reporter r{n} = {dict(cfg['mreps'])[n]}: collect() stored {l2[-1]!r}, evaluating it directly gives {l[-1]!r}")
                        if exp_rows is not None:
                            got = dict(after["ar"]).get(steps_now)
                            if got != exp_rows:
                                fail("C12/collect/agent-rows", i,
                                     f"_agent_records[{steps_now}] = {got}, the registered agents and their reporter values are {exp_rows}")
                        for t, rows, judged in exp_t:
                            got = dict(dict(after["tr"]).get(steps_now, [])).get(t)
                            if judged and got != rows:
                                direct_ever = [a for a in reg if type(a) is cls[t]]
                                key = "C12/collect/agenttype-rows" if direct_ever or t not in CLASSES else "C12/collect/agenttype-rows/base-class-emptied"
                                fail(key, i, f"_agenttype_records[{steps_now}][class {t}] = {got}, the registered agents of that class give {rows}")
            elif kind == "addrow":
                t, row, ign = op[1], op[2], op[3]
                tcols = dict(cfg["tables"]).get(t)
                rowd = {f"c{c}": _obj(v) for c, v in row}
                rowd_before = dict(rowd)
                must_reject = tcols is None or (not ign and any(c not in dict(row) for c in tcols))
                try:
                    dc.add_table_row(f"t{t}", rowd, ignore_missing=ign)
                    raised = None
                except Exception as e:  # noqa: BLE001
                    raised = e
                after = _snapshot(dc, clsnum)
                if rowd != rowd_before or list(rowd) != list(rowd_before):
                    fail("C12/add_table_row/mutated-caller-row", i, f"add_table_row changed the caller's row dict {rowd_before} -> {rowd}")
                if raised is not None:
                    code = [-1, _exc_kind(raised)]
                    if not must_reject:
                        code = [-1, 99]
                        fail("C12/add_table_row/unexpected-exception", i, f"add_table_row(t{t}, {rowd}, ignore_missing={ign}) raised {type(raised).__name__}: {raised}")
                    if after["tb"] != before["tb"]:
                        what = (f"add_table_row(t{t}, {rowd}, ignore_missing={ign}) raised {type(raised).__name__} but changed the table: "
                                f"before {dict(before['tb']).get(t)}, after {dict(after['tb']).get(t)}")
                        fail("C12/add_table_row/half-written", i, what)
                        fail("C18/datacollector/add_table_row", i, what)
                        sh["tb"] = [(a, list(b)) for a, b in after["tb"]]
                elif must_reject:
                    fail("C12/add_table_row/accepted-incomplete-row", i, f"add_table_row(t{t}, {rowd}, ignore_missing={ign}) was accepted")
                    sh["tb"] = [(a, list(b)) for a, b in after["tb"]]
                else:
                    for j, (tt, cols) in enumerate(sh["tb"]):
                        if tt == t:
                            sh["tb"][j] = (tt, [(c, vals + [dict(row).get(c)]) for c, vals in cols])
            elif kind == "frames":
                code = [7] + _obs_frames(dc, cfg, cls, sh, i, fail)
                again = _obs_frames(dc, cfg, cls, sh, i, lambda *a: None)   # a second construction without any change in between
                if [7] + again != code:
                    fail("C12/frames/not-repeatable", i, "building the DataFrames twice in a row gave different frames")
            else:
                raise ValueError(kind)
        except Exception as e:  # noqa: BLE001
            code = [-1, 99]
            fail(f"C12/{kind}/unexpected-exception", i, f"{op} raised {type(e).__name__}: {e}")
        now = _snapshot(dc, clsnum)
        # ---- the whole collector state against the statement, after EVERY operation
        if now["mv"] != sh["mv"] and kind != "collect":
            fail("C12/collect/model-var-mutated-later", i,
                 f"after {op} the stored model variables changed: {now['mv']} (collected values were {sh['mv']})")
            sh["mv"] = [(a, list(b)) for a, b in now["mv"]]
        if now["ar"] != sh["ar"] and kind != "collect":
            fail("C12/collect/agent-records-changed-later", i, f"after {op}: _agent_records {now['ar']} != {sh['ar']}")
            sh["ar"] = [(a, list(b)) for a, b in now["ar"]]
        if now["ar"] != sh["ar"] and kind == "collect" and not any(f["op"] == i for f in failures):
            fail("C12/collect/agent-records-other-steps", i, f"collect changed records of other steps: {now['ar']} expected {sh['ar']}")
        if now["tr"] != sh["tr"] and not any(f["op"] == i for f in failures):
            fail("C12/collect/agenttype-records", i, f"after {op}: _agenttype_records {now['tr']} expected {sh['tr']}")
        if now["tb"] != sh["tb"] and not any(f["op"] == i for f in failures):
            fail("C12/add_table_row/wrong-row", i, f"after {op}: tables {now['tb']} expected {sh['tb']}")
        for t, cols in now["tb"]:
            was = dict(before["tb"]).get(t, [])
            if len({len(v) for _, v in cols}) > 1 and len({len(v) for _, v in was}) <= 1 and not any(f["op"] == i for f in failures):
                fail("C12/add_table_row/misaligned", i, f"table t{t} has columns of different lengths: {cols}")
        # resynchronise so that one defect is reported once, at its origin
        if any(f["op"] == i for f in failures):
            sh = {k: [(a, list(b)) for a, b in v] for k, v in now.items()}
        obs.append(code if kind == "frames" else code + _enc_state(now))
    # the SAME reporter dictionaries / table column lists handed to a second collector: collecting with it must not
    # disturb the first one (no state shared through the caller's objects), and the caller's dictionaries stay as they were
    try:
        twin = DataCollector(model_reporters=mreps or None, agent_reporters=areps or None,
                             agenttype_reporters=treps or None, tables=tables or None)
        final = _snapshot(dc, clsnum)
        try:
            twin.collect(model)
            for t_, cols_ in tables.items():
                twin.add_table_row(t_, {c_: 1 for c_ in cols_})
        except Exception:  # noqa: BLE001  (a reporter of the history may raise; not judged here)
            pass
        if _snapshot(dc, clsnum) != final:
            fail("C12/collect/shared-state-between-collectors", len(case["ops"]) - 1,
                 "a second DataCollector built from the same reporter dictionaries changed the first one's records when it collected")
        if list(mreps) != [f"r{n}" for n, _ in cfg["mreps"]] or list(areps) != [f"r{n}" for n, _ in cfg["areps"]] \
                or {k: list(v) for k, v in tables.items()} != {f"t{t}": [f"c{c}" for c in cols] for t, cols in cfg["tables"]}:
            fail("C12/collect/mutated-caller-reporters", len(case["ops"]) - 1, "the reporter / table dictionaries passed to DataCollector were changed")
    except Exception as e:  # noqa: BLE001
        fail("C12/collect/shared-state-between-collectors", len(case["ops"]) - 1, f"second collector: {type(e).__name__}: {e}")
    return {"obs": obs, "failures": failures}


def _label(name):
    """column / index label -> the model's code: r<n>, c<n> -> n; Step -> 100; AgentID -> 101; None -> -1"""
    if name is None:
        return -1
    if name == "Step":
        return 100
    if name == "AgentID":
        return 101
    return _num(name)


def _enc_cframe(df, rows, cell):
    """a frame with the default index: [index is 0..n-1] + column labels + rows"""
    return ([1 if list(df.index) == list(range(len(df))) else 0] + _enc_list(lambda c: [_label(c)], list(df.columns))
            + _enc_list(lambda r: _enc_list(cell, list(r)), rows))


def _enc_aframe(df, recs):
    """a (Step, AgentID)-indexed frame: index names + value-column labels + rows (step, id, cells)"""
    return (_enc_list(lambda c: [_label(c)], list(df.index.names)) + _enc_list(lambda c: [_label(c)], list(df.columns))
            + _enc_list(_enc_row, recs))


def _obs_frames(dc, cfg, cls, sh, i, fail):
    """build every DataFrame; returns the observation (same layout as enc_frames of the model) and judges
    each frame against the shadow records: index names, column order, row order, values."""
    import warnings

    out = []
    # model frame
    try:
        df = dc.get_model_vars_dataframe()
        rows = _frame_rows(df)
        out += [0] + _enc_cframe(df, rows, _enc_snap)
        cols = [f"r{n}" for n, _ in sh["mv"]]
        lens = {len(l) for _, l in sh["mv"]}
        if len(lens) == 1:
            n = lens.pop()
            exp = [tuple(l[j] for _, l in sh["mv"]) for j in range(n)]
            if list(df.columns) != cols or rows != exp or list(df.index) != list(range(n)):
                fail("C12/frames/model", i, f"get_model_vars_dataframe(): columns {list(df.columns)} index {list(df.index)} rows {rows}; "
                                             f"the collected values are columns {cols} rows {exp}")
    except UserWarning:
        out += [-1, E_USERWARNING]
        if cfg["mreps"]:
            fail("C12/frames/model", i, "get_model_vars_dataframe() raised UserWarning although model reporters exist")
    except ValueError as e:
        out += [-1, E_VALUE]
        if len({len(l) for _, l in sh["mv"]}) == 1:
            fail("C12/frames/model", i, f"get_model_vars_dataframe() raised {e}")
    # agent frame
    try:
        df = dc.get_agent_vars_dataframe()
        recs = _frame_recs(df)
        out += [0] + _enc_aframe(df, recs)
        exp = [r for _, rows in sh["ar"] for r in rows]
        cols = [f"r{n}" for n, _ in cfg["areps"]]
        if recs != exp or list(df.columns) != cols or list(df.index.names) != ["Step", "AgentID"]:
            key = "C12/frames/agent" if exp else "C12/frames/agent/no-records"
            fail(key, i, f"get_agent_vars_dataframe(): index names {list(df.index.names)} columns {list(df.columns)} rows {recs}; "
                         f"the records are columns {cols} rows {exp}")
    except UserWarning:
        out += [-1, E_USERWARNING]
        if cfg["areps"]:
            fail("C12/frames/agent", i, "get_agent_vars_dataframe() raised UserWarning although agent reporters exist")
    # agent-type frames
    for t, reps in cfg["treps"]:
        with warnings.catch_warnings():
            warnings.simplefilter("ignore")
            df = dc.get_agenttype_vars_dataframe(cls[t])
        recs = _frame_recs(df)
        out += [t] + _enc_aframe(df, recs)
        exp = [r for _, inner in sh["tr"] for tt, rows in inner if tt == t for r in rows]
        cols = [f"r{n}" for n, _ in reps]
        if recs != exp or list(df.columns) != cols or list(df.index.names) != ["Step", "AgentID"]:
            key = "C12/frames/agenttype" if exp else "C12/frames/agenttype/no-records"
            fail(key, i, f"get_agenttype_vars_dataframe(class {t}): index names {list(df.index.names)} columns {list(df.columns)} "
                         f"rows {recs}; the records are columns {cols} rows {exp}")
    # tables
    for t, cols in sh["tb"]:
        try:
            df = dc.get_table_dataframe(f"t{t}")
            rows = _frame_rows(df)
            out += [t, 0] + _enc_cframe(df, rows, _enc_cell)
            lens = {len(v) for _, v in cols}
            if len(lens) == 1:
                n = lens.pop()
                exp = [tuple(v[j] for _, v in cols) for j in range(n)]
                if rows != exp or list(df.columns) != [f"c{c}" for c, _ in cols]:
                    fail("C12/frames/table", i, f"get_table_dataframe(t{t}): columns {list(df.columns)} rows {rows}; accepted rows are {exp}")
        except ValueError:
            out += [t, -1, E_VALUE]
            if len({len(v) for _, v in cols}) == 1:   # ragged columns are reported where they arise (add_table_row)
                fail("C12/frames/table", i, f"get_table_dataframe(t{t}) raised ValueError on aligned columns {cols}")
    return out


# ------------------------------------------------------------------ model side
def _c_mfun(f):
    k = f[0]
    return {"attr": lambda: f"(FAttr {L.z(f[1])})", "count": lambda: "FCount", "sum": lambda: f"(FSum {L.z(f[1])})",
            "steps": lambda: "FSteps", "ids": lambda: "FIds"}[k]()


def _c_mrep(r):
    if r[0] == "attr":
        return f"MRAttr {L.z(r[1])}"
    if r[0] == "fun":
        return f"MRFun {L.b(r[1])} {_c_mfun(r[2])}"
    if r[0] == "method":
        return f"MRMethod {_c_mfun(r[1])}"
    g = {"sum": "GSum", "len": "GLen", "list": "GList", "none": "GNone"}[r[1]]
    return f"MRArgs {g} {L.zlist(r[2])}"


def _c_afun(f):
    k = f[0]
    return {"attr": lambda: f"(AAttr {L.z(f[1])})", "id": lambda: "AId", "plus": lambda: f"(AAttrPlus {L.z(f[1])} {L.z(f[2])})",
            "steps": lambda: f"(AStepsAttr {L.z(f[1])})"}[k]()


def _c_arep(r):
    if r[0] == "attr":
        return f"ARAttr {L.z(r[1])}"
    if r[0] == "fun":
        return f"ARFun {_c_afun(r[1])}"
    if r[0] == "method":
        return f"ARMethod {_c_afun(r[1])}"
    return f"ARArgs {L.z(r[1])} {L.zlist(r[2])}"


def _c_cfg(cfg):
    m = L.lst([L.pair(L.z(n), _c_mrep(r)) for n, r in cfg["mreps"]])
    a = L.lst([L.pair(L.z(n), _c_arep(r)) for n, r in cfg["areps"]])
    t = L.lst([L.pair(L.z(k), L.lst([L.pair(L.z(n), _c_arep(r)) for n, r in reps])) for k, reps in cfg["treps"]])
    tb = L.lst([L.pair(L.z(k), L.zlist(cols)) for k, cols in cfg["tables"]])
    return f"{{| c_mreps := {m}; c_areps := {a}; c_treps := {t}; c_tables := {tb} |}}"


def _c_cell(v):
    return "None" if v is None else f"(Some {L.z(v)})"


def _c_op(op):
    k = op[0]
    if k == "set":
        return f"SetAttr {L.z(op[1])} {L.z(op[2])}"
    if k == "none":
        return f"SetNone {L.z(op[1])}"
    if k == "newlist":
        return f"NewList {L.z(op[1])} {L.zlist(op[2])}"
    if k == "alias":
        return f"Alias {L.z(op[1])} {L.z(op[2])}"
    if k == "append":
        return f"Append {L.z(op[1])} {L.z(op[2])}"
    if k == "del":
        return f"DelAttr {L.z(op[1])}"
    if k == "create":
        return f"Create {L.z(op[1])} {L.lst([L.zpair(p) for p in op[2]])}"
    if k == "remove":
        return f"Remove {L.z(op[1])}"
    if k == "aset":
        return f"SetAgentAttr {L.z(op[1])} {L.z(op[2])} {L.z(op[3])}"
    if k == "step":
        return "Step"
    if k == "collect":
        return "Collect"
    if k == "addrow":
        return f"AddRow {L.z(op[1])} {L.lst([L.pair(L.z(c), _c_cell(v)) for c, v in op[2]])} {L.b(op[3])}"
    if k == "frames":
        return "Frames"
    raise ValueError(op)


def coq_case(case):
    if case.get("kind") in ("containers", "scale", "usercode"):      # oracle-only streams: nothing for the Z-valued model to evaluate
        return "{| k_cfg := {| c_mreps := []; c_areps := []; c_treps := []; c_tables := [] |}; k_ops := [] |}"
    return f"{{| k_cfg := {_c_cfg(case['cfg'])}; k_ops := {L.lst([_c_op(o) for o in case['ops']])} |}}"


def op_kinds(case):
    if case.get("kind") == "containers":
        return [f"container/{op[0]}" + (f"/kind{op[2]}" if op[0] == "mk" else "") for op in case["ops"]] + \
               [f"container/init/kind{k}" for _, k, _ in case["init"]] + [f"container/reporter/{f}" for _, f in case["reps"]]
    if case.get("kind") == "scale":
        return [f"scale/agents={case['agents']}/collects={case['collects']}/rows={case['rows']}"]
    if case.get("kind") == "usercode":
        return [f"usercode/{case['level']}/{case['form']}/{case['exc']}"] + [f"usercode/{op[0]}" + (f"/{op[1]}" if op[0] == "reenter" else "") for op in case["ops"]]
    out = []
    for op in case["ops"]:
        k = op[0]
        if k == "addrow":
            k += "/ignore" if op[3] else "/strict"
        out.append(k)
    for _, r in case["cfg"]["mreps"]:
        out.append("model-reporter/" + r[0])
    for _, r in case["cfg"]["areps"]:
        out.append("agent-reporter/" + r[0])
    for t, _ in case["cfg"]["treps"]:
        out.append(f"agenttype-key/{t}")
    return out


def nontrivial(case):
    if case.get("kind") in ("containers", "scale", "usercode"):
        return True
    cfg = case["cfg"]
    ncol = sum(1 for op in case["ops"] if op[0] == "collect")
    return ncol >= 2 and bool(cfg["mreps"] or cfg["areps"] or cfg["treps"])


LEVEL_TEXT = ("26 machine-checked Coq theorems (closed under the global context) over a Gallina transcription of DataCollector "
              "(collect with validation, dispatch, partial appends on exceptions; _record_agents / _record_agenttype; add_table_row; the four "
              "DataFrame constructions). For ALL histories: the collector state is a function of the collect moments - C12_refinement "
              "(reporters that do not raise: one value per model reporter per collect, the value then; under each step the rows of the last "
              "collect made at that step, one per registered agent in registry order with its unique_id; agent-type rows = the agents of the "
              "class, = the isinstance members within the quantifier; tables column-aligned) and C12_refinement_general (no hypothesis: "
              "failed collects included, each classified as validation / model reporter j / agent reporter / agent-type failure) with "
              "C12_collect_raises_state giving exactly the state a raising collect leaves; later model mutation never changes the collector "
              "(C12_immune_to_later_mutation, unconditional); a rejected add_table_row leaves everything unchanged (C18_*); the frames are "
              "lossless (C12_frames_lossless, C12_table_frame_rows: index names, columns, rows regroup to the records, None for "
              "ignore_missing cells). Six of the theorems are stated about code regenerated from the working tree on every run (code-level "
              "T1: add_table_row, the agent-source choice, the dispatch chain, a normalised statement skeleton for the rest). The model is "
              "tied to the code by that translation and by differential evaluation of model vs implementation after every operation of "
              "random, exhaustive-small and special-purpose histories (T2, frames included); an independent oracle states the property on "
              "the implementation's own state and frames and supplies the failing input.")
LEVEL_NOTE = ("Theorems are about the model. Fixed in /repo by this check's findings: add_table_row half-writes (validated first now), "
              "agent-type reporters of a base class whose direct instances were all removed, nonsense frame from an empty records "
              "iterator. Recorded as observation only: ragged model_vars after a raising model reporter. Oracle/T2-only: pandas itself, "
              "values of non-int types (value codes in the model), a second collector sharing the caller's dictionaries, the caller's row "
              "dict staying unmodified. Trusted: Coq kernel, pyexpr translator, the driver/observer, CPython dict/deepcopy semantics as "
              "modelled. No axioms.")
TECHNIQUE = ("Coq proof (induction over histories, refinement to a collect-moments spec with and without raising reporters, invariants, "
             "closed under global context) + code-level T1 translation with bridge lemmas + vm_compute correspondence + independent oracle")
DESIGN_REF = "DESIGN.md section 4, C12"
