"""C16 - signals describe every change exactly once, to exactly the subscribers
(+ the signal-registry site of C18: a rejected observe() leaves the registry unchanged).
Model: Model/Signals.v.  The oracle is the property statement over the implementation's own
emissions/deliveries (a ledger of subscriptions kept from the history, a plain-Python shadow of the
values, and a listener copy that replays the emitted signals)."""
import itertools

import coqlit as L

ID = "C16"
COQ_PROPERTY_FILE = "Properties/C16.v"
COQ_DEPS = ["Common/ListX.v", "Common/ObsHash.v", "Generated/Tables.v", "Model/Signals.v", "Proofs/SignalsProofs.v",
            "Proofs/SignalsBridge.v"]
COQ_IMPORTS = "From Mesa Require Import Common.ListX Generated.Tables Model.Signals."
COQ_CASE_TYPE = "anycase2"
COQ_RUN = "run_any2"
TABLE_CONSTRUCTS = ["sig_tables", "dg_shadowing", "sig_observe_code", "sig_unobserve_code", "sig_clear_code",
                    "sig_mesa_notify_code", "sl_setitem_code", "sl_delitem_code", "sl_insert_code", "sl_append_code",
                    "signals_glue", "ms_pop_code", "ms_pop_default", "ms_remove_code", "ms_extend_code", "ms_iadd_code",
                    "ms_reverse_code", "ms_clear_code", "ms_glue"]
SIG = "mesa/experimental/mesa_signals/"
SOURCE_FUNCS = [(SIG + "mesa_signal.py", "BaseObservable.__set__"), (SIG + "mesa_signal.py", "Observable.__set__"),
                (SIG + "mesa_signal.py", "HasObservables"), (SIG + "mesa_signal.py", "descriptor_generator"),
                (SIG + "mesa_signal.py", "All"), (SIG + "observable_collections.py", "*"), (SIG + "signals_util.py", "*")]
ENUM_ALWAYS = False
RULE = ("six streams per run (the last one, USER CODE, implementation + oracle only: handlers that during delivery observe / unobserve / clear (themselves, earlier, later handlers, this or another key), assign this or another observable, drop the last reference to their own or another handler's owner with gc.collect(), raise any of nine exception types or issue a rejected observe - the caller catches - with dead references already in the list; owners with __slots__, value-based __eq__ / __hash__, a plain mixin after HasObservables; subclasses of Observable (docstring-only, extra constructor argument) and ObservableList; listeners that are all equal to each other; ordinary observe / unobserve between the rounds; judged: subscribers alive throughout a round get its signal exactly once unless a handler raised or re-entered that very list, the registry equals the ledger after the round except for lists re-entered while being delivered, and the plain signals that follow on every key are delivered exactly once each in subscription order).  The other   (0) SCALE: 257 / 300 handlers (model-checked) and 513 ... 2049 handlers (implementation + oracle) subscribed to one (observable, signal type) list through every form (name / All x type / All), functions, lambdas, functools.partial objects, bound methods of distinct objects and 40 bound methods of one object, a share dying in between, unobserve / clear at that scale; an ObservableList of 300 (1030) items under every list operation with indices crossing 255 / 256 / 257; 8-16 observables on 6-12 objects.   (1) model histories: one HasObservables class with 2-4 Observable / ObservableList attributes, built as "
        "Base/Sub (attributes inherited, overridden by the other kind or by / over a plain attribute), as a three-level chain, a diamond, or with "
        "plain mixins before / after HasObservables in the bases and HasObservables in the middle of a diamond; 1-2 instances; 2-5 handlers "
        "(functions and bound methods; bound methods of one listener die together); <= 30 operations: observe / unobserve / "
        "clear_all_subscriptions (positional and keyword spelling) with concrete names, All() and unknown names / signal types in either position, "
        "scalar assignments (first one shows the fallback; same value again; ints up to 2^70), whole-list reassignment, append, insert, "
        "setitem / delitem with ints and slices (negative, out of range, +-2^70, extended, zero step), pop, remove, extend (also with itself), +=, "
        "reverse, clear, dropping the last reference to a handler; double subscriptions only in a marked tenth.  (2) re-entrant histories: "
        "handlers that observe / unobserve on the key being notified, (3) and that assign to the observable from inside the notification - both "
        "compared with the model only, the oracle demands nothing there.  (4) oracle-only value stream: None, bool, str, tuple, floats incl. "
        "0.1 / inf / nan, ints beyond 2^53, objects whose truth value is False, an owner whose truth value is False, a subclass of a subclass, "
        "one list object assigned to two observable lists, an observable list assigned to itself / to another owner, caller-owned arguments, an "
        "instance created late, a handler that raises and the history continued.  non-trivial = at least one delivery and 3 operations; "
        "distinct = by SHA1 of the history")
TRUSTED_BASE = [
    "Coq 8.16.1 kernel (coqc); vm_compute for finite facts about the extracted tables and for evaluating the models in the correspondence",
    "no axioms: Print Assumptions reports 'Closed under the global context' for all 32 C16_* / C18_* theorems (12 Examples beside them)",
    "T1 extractors (fail closed): harness/tables/signals.py (signal_types sets, emitted type per site, descriptor_generator's mro walk), "
    "harness/tables/signals_code.py (pyexpr subclass translating the bodies of observe / unobserve / clear_all_subscriptions / _mesa_notify and of "
    "SignalingList.__setitem__ / __delitem__ / insert / append; residual glue compared modulo local names, messages, docstrings), "
    "harness/tables/signals_stdlib.py (pop / remove / extend / __iadd__ / reverse / clear translated from the running interpreter's "
    "_collections_abc.py, checked against the running bytecode; Sequence.index compared as a normalised skeleton)",
    "harness/props/C16.py drivers / observers / Gallina printers (T2: differential testing, not a proof)",
    "modelled, not translated: CPython list indexing and slicing (PySlice_AdjustIndices, list_ass_subscript), weak references dying with the last "
    "strong reference, attribute lookup / C3 linearisation (the mro is an input of the model), `x.l += v` = __iadd__ then the descriptor's __set__, "
    "defaultdict never raising KeyError",
    "Uint63 primitive hash only in scratch Cases files, never under a theorem",
]
ASSUMPTIONS = [
    "model streams carry Python ints (unbounded) and lists of ints; every other kind of value is covered by the oracle-only stream, not by a theorem",
    "a handler subscribed twice to one (name, type) is called once per subscription (policy of DESIGN section 4 C16); generated only in a marked stream",
    "handlers of the judged streams only record what they are called with; re-entrant handlers (observe / unobserve / assign during a notification) "
    "are outside the statement's quantifier: modelled (notify_re, assign_re / walk), compared with the implementation, described by "
    "C16_reentrant_registry_is_called / C16_unobserve_silences_reentrant_refuted / C16_reentrant_outer_store_wins, never judged by the oracle; "
    "handlers that raise are continued from, not judged; callables that are neither functions nor bound methods (builtin methods raise TypeError in "
    "create_weakref; callable objects whose truth value is False are treated as dead) are outside the quantifier and not generated",
    "Computable / Computed and _register_signal_emitter are not part of this property (C17)",
]

TYPE_NAME = {1: "change", 2: "replace", 3: "remove", 4: "insert", 5: "append"}
TYPE_CODE = {v: k for k, v in TYPE_NAME.items()}
EMITS = {"obs": (1,), "list": (1, 2, 3, 4, 5)}          # the statement's side: what each kind of observable emits
BOGUS_TYPE = 9
UNKNOWN_NAME = 99
E_NAME, E_TYPE, E_KEY, E_INDEX, E_VALUE, E_ATTR = 1, 2, 3, 4, 5, 6
PRIMITIVE = {"append", "insert", "setitem", "setslice", "delitem", "delslice", "pop", "remove"}


# ------------------------------------------------------------------ generation
def _rand_index(rng, n):
    r = rng.random()
    if n > 0 and r < 0.55:
        return rng.randrange(n)
    if n > 0 and r < 0.8:
        return -rng.randint(1, n)
    return rng.choice([n, n + 1, -n - 1, -n - 2, 0, -1])


def _rand_slice(rng, n):
    def bound():
        r = rng.random()
        if r < 0.3:
            return None
        if r < 0.33:
            return rng.choice([2 ** 70, -2 ** 70])
        return rng.randint(-n - 2, n + 2)
    step = rng.choice([None, None, None, 1, 1, 2, 2, -1, -1, -2, 3, 0])
    return [bound(), bound(), step]


def _slice_len(n, sl):
    try:
        return len(range(*slice(*sl).indices(n)))
    except ValueError:
        return 0


def _rand_lop(rng, cur):
    """cur: the generator's idea of the current list (None = unknown / unset)"""
    n = len(cur) if cur is not None else rng.randint(0, 3)
    k = rng.choice(["append", "append", "insert", "insert", "setitem", "setitem", "setslice", "setslice", "delitem",
                    "delitem", "delslice", "pop", "pop", "remove", "remove", "extend", "extendself", "iadd", "reverse",
                    "clear"])
    v = rng.randint(0, 5)
    if k == "append":
        return [k, v]
    if k == "insert":
        return [k, rng.choice([_rand_index(rng, n), rng.randint(-n - 2, n + 2)]), v]
    if rng.random() < 0.03:
        v = rng.choice([2 ** 63 + 5, -2 ** 70, 2 ** 53 + 1])          # ints beyond machine words / float precision
    if k == "setitem":
        return [k, _rand_index(rng, n) if rng.random() > 0.03 else rng.choice([2 ** 70, -2 ** 70]), v]
    if k == "setslice":
        sl = _rand_slice(rng, n)
        if sl[2] in (None, 1) or rng.random() < 0.25:
            m = rng.randint(0, 3)
        else:
            m = _slice_len(n, sl)
        return [k, sl, [rng.randint(0, 5) for _ in range(m)]]
    if k == "delitem":
        return [k, _rand_index(rng, n) if rng.random() > 0.03 else rng.choice([2 ** 70, -2 ** 70])]
    if k == "delslice":
        return [k, _rand_slice(rng, n)]
    if k == "pop":
        return [k, None if rng.random() < 0.5 else _rand_index(rng, n)]
    if k == "remove":
        if cur and rng.random() < 0.8:
            return [k, rng.choice(cur)]
        return [k, v]
    if k in ("extend", "iadd"):
        return [k, [rng.randint(0, 5) for _ in range(rng.randint(0, 3))]]
    return [k]


def _gen_decl(rng, force_mixed=False):
    n = rng.randint(2, 4)
    kinds = [rng.choice(["obs", "list"]) for _ in range(n)]
    if force_mixed or rng.random() < 0.7:
        kinds[0], kinds[1] = rng.choice([("obs", "list"), ("list", "obs")])
    decl = []
    for i, k in enumerate(kinds):
        d = {"kind": k, "where": rng.choice(["base", "sub", "sub"]), "override": None, "fallback": None}
        if k == "obs" and rng.random() < 0.4:
            d["fallback"] = rng.randint(-2, 7)
        r = rng.random()
        if r < 0.08:
            d["where"] = "sub"
            d["override"] = "list" if k == "obs" else "obs"
        elif r < 0.11:
            d["where"] = "sub"
            d["override"] = "plain"       # the base class binds the name to a plain value
        decl.append(d)
    return decl


def _gen_extra(rng):
    """names the base class declares as observables and the subclass shadows with a plain attribute:
    not observables of the instance (ids from 100)"""
    if rng.random() < 0.12:
        return [{"id": 100 + j, "base": rng.choice(["obs", "list"])} for j in range(rng.randint(1, 2))]
    return []


def _gen_init(rng, decl):
    init = []
    for d in decl:
        if d["kind"] == "obs":
            init.append(None if rng.random() < 0.25 else rng.randint(0, 9))
        else:
            init.append(None if rng.random() < 0.06 else [rng.randint(0, 5) for _ in range(rng.randint(0, 4))])
    return init


def _gen_handlers(rng):
    hs = []
    hid, gid = 1, 1
    for _ in range(rng.randint(2, 4)):
        if rng.random() < 0.5:
            hs.append([hid, "f", gid])
            hid += 1
        else:
            for _ in range(rng.randint(1, 2)):
                hs.append([hid, "m", gid])
                hid += 1
        gid += 1
    return hs


# number of user classes, most derived first.  mixin_after: Leaf(HasObservables, Stock); mixin_both: Leaf(M1, HasObservables, M2);
# diamond_mid: P; B(HasObservables, P), C(P); D(B, C) - HasObservables sits in the MIDDLE of the mro, observables may
# live on plain classes that come after it
HIER_MRO = {"chain3": 3, "diamond": 4, "mixin_after": 2, "mixin_both": 3, "diamond_mid": 4}


def _gen_hier(rng, decl):
    """a deeper hierarchy for the same effective attributes: chain A <- B <- C, or diamond A; B(A), C(A); D(B, C).
    bind = [mro position (0 = the instantiated class), attribute id, kind, fallback]; for every attribute the binding at
    the smallest mro position is the effective one (= decl), classes further along the mro may bind it to anything"""
    shape = rng.choice(["chain3", "diamond", "mixin_after", "mixin_both", "diamond_mid"])
    n = HIER_MRO[shape]
    bind, extra = [], []
    for i, d in enumerate(decl):
        owner = rng.randrange(n)
        bind.append([owner, i, d["kind"], d.get("fallback")])
        for later in range(owner + 1, n):
            if rng.random() < 0.3:
                bind.append([later, i, rng.choice(["obs", "list", "plain"]), None])
    for j in range(rng.randint(0, 2)):
        owner = rng.randrange(n - 1)
        bind.append([owner, 100 + j, "plain", None])
        bind.append([rng.randrange(owner + 1, n), 100 + j, rng.choice(["obs", "list"]), None])
        extra.append({"id": 100 + j, "base": "obs"})
    rng.shuffle(bind)
    return {"shape": shape, "bind": bind}, extra


def _name_pick(rng, decl, extra=()):
    r = rng.random()
    if r < 0.55:
        return rng.randrange(len(decl))
    if r < 0.92:
        return "all"
    if extra and r < 0.97:
        return rng.choice(extra)["id"]
    return UNKNOWN_NAME


def _type_pick(rng, decl, name):
    r = rng.random()
    if r < 0.4:
        return "all"
    if r < 0.8:
        kinds = [decl[name]["kind"]] if isinstance(name, int) and name < len(decl) else [d["kind"] for d in decl]
        return rng.choice(EMITS[rng.choice(kinds)])
    if r < 0.93:
        return rng.randint(1, 5)
    return BOGUS_TYPE


def _gen_history(rng, nops, dup_stream=False, force_mixed=False):
    decl = _gen_decl(rng, force_mixed)
    n_inst = 1 if rng.random() < 0.6 else 2
    init = [_gen_init(rng, decl) for _ in range(n_inst)]
    handlers = _gen_handlers(rng)
    extra = _gen_extra(rng)
    case = {"decl": decl, "extra": extra, "init": init, "handlers": handlers, "dup": dup_stream, "ops": []}
    if rng.random() < 0.25:
        for d in decl:
            d["where"], d["override"] = "sub", None
        case["hier"], case["extra"] = _gen_hier(rng, decl)
        extra = case["extra"]
    orc = _Oracle(case)               # generator-side bookkeeping (spec semantics), to steer towards valid histories
    shadow = [[(list(v) if isinstance(v, list) else v) for v in row] for row in init]
    alive = {h[0] for h in handlers}
    gids = sorted({h[2] for h in handlers})
    ops = case["ops"]
    # start with one or two subscriptions so that something is delivered
    while len(ops) < nops:
        r = rng.random()
        i = rng.randrange(n_inst)
        if r < 0.24 or len(ops) < 2:
            if not alive:
                continue
            h = rng.choice(sorted(alive))
            nm = _name_pick(rng, decl, extra)
            ty = _type_pick(rng, decl, nm)
            if not dup_stream and orc.would_double(i, nm, ty, h):
                continue
            ops.append(["observe", i, nm, ty, h])
            orc.spec_observe(i, nm, ty, h)
        elif r < 0.34:
            if not alive:
                continue
            h = rng.choice(sorted(alive))
            nm = _name_pick(rng, decl, extra)
            ty = _type_pick(rng, decl, nm)
            ops.append(["unobserve", i, nm, ty, h])
            orc.spec_unobserve(i, nm, ty, h)
        elif r < 0.375:
            nm = _name_pick(rng, decl)
            ops.append(["clear", i, nm])
            orc.spec_clear(i, nm)
        elif r < 0.41:
            if gids:
                g = rng.choice(gids)
                ops.append(["kill", g])
                alive -= {h[0] for h in handlers if h[2] == g}
        else:
            n = rng.randrange(len(decl))
            if decl[n]["kind"] == "obs":
                v = rng.randint(0, 9) if rng.random() > 0.03 else rng.choice([2 ** 63 + 5, -2 ** 70, 2 ** 53 + 1])
                if shadow[i][n] is not None and rng.random() < 0.2:
                    v = shadow[i][n]          # re-assigning the same value still signals
                ops.append(["assign", i, n, v])
                shadow[i][n] = v
            elif rng.random() < 0.15 or shadow[i][n] is None and rng.random() < 0.7:
                vs = [rng.randint(0, 5) for _ in range(rng.randint(0, 4))]
                ops.append(["assignlist", i, n, vs])
                shadow[i][n] = list(vs)
            else:
                lop = _rand_lop(rng, shadow[i][n])
                ops.append(["lop", i, n] + lop)
                if shadow[i][n] is not None:
                    try:
                        _apply_plain(shadow[i][n], lop)
                    except Exception:  # noqa: BLE001
                        pass
    return case


SCALE_FORMS = [["all", "all"], [1, "all"], [0, "all"], ["all", 1], [0, 1], [1, 5]]


def _scale_handlers(n):
    """ids 1..n: the first min(40, n // 4) are methods of ONE listener (group 1), the rest cycle through function / bound method of
    its own object / lambda / functools.partial, each its own group (gid = 1000 + hid)"""
    one = min(40, n // 4)
    hs = [[h, "m", 1] for h in range(1, one + 1)]
    for h in range(one + 1, n + 1):
        hs.append([h, "fmlp"[h % 4], 1000 + h])
    return hs, one


def _gen_scale_subs(rng, n, form, oracle_only=False):
    """hundreds of subscriptions to one (observable, signal type) list, crossing 255/256/257/...: subscribed through `form`, a share of
    the handlers dying in between, probes, unobserve at scale, the 40 bound methods of one object dying together, clear"""
    hs, one = _scale_handlers(n)
    decl = [{"kind": "obs", "where": "sub", "override": None, "fallback": None},
            {"kind": "list", "where": "base", "override": None, "fallback": None}]
    nm, ty = form
    probe = [["assign", 0, 0, 5], ["lop", 0, 1, "append", 7], ["lop", 0, 1, "setitem", 0, 9], ["lop", 0, 1, "pop", None]]
    ops = []
    for h in range(1, n + 1):
        ops.append(["observe", 0, nm, ty, h])
        if h == n // 2:
            ops += [["kill", 1000 + k] for k in range(one + 1, n // 2, 9)]
            ops += probe[:2]
    ops += probe
    step = rng.choice([3, 5])
    for h in range(one + 1, n + 1, step):
        ops.append(["unobserve", 0] + (form if h % 2 else ["all", "all"]) + [h])
    ops += probe + [["kill", 1]] + probe + [["clear", 0, 1], ["observe", 0, nm, ty, n], ["observe", 0, "all", "all", n - 1]] + probe
    c = {"decl": decl, "extra": [], "init": [[0, [1, 2, 3]]], "handlers": hs, "dup": True, "ops": ops, "scale": "subs"}
    if oracle_only:
        c["oracle_only"] = True
    return c


def _gen_scale_list(rng, n):
    """an ObservableList with hundreds of items and every list operation, indices crossing 255/256/257"""
    decl = [{"kind": "list", "where": "sub", "override": None, "fallback": None}]
    init = [[[(7 * i + 3) % 11 for i in range(n)]]]
    ops = [["observe", 0, "all", "all", 1], ["observe", 0, 0, "all", 2], ["observe", 0, 0, 2, 3],
           ["lop", 0, 0, "setitem", 256, 5], ["lop", 0, 0, "setitem", -1, 6], ["lop", 0, 0, "setitem", n, 1], ["lop", 0, 0, "delitem", 255],
           ["lop", 0, 0, "insert", 257, 8], ["lop", 0, 0, "insert", -300, 8], ["lop", 0, 0, "pop", 256], ["lop", 0, 0, "pop", None],
           ["lop", 0, 0, "remove", 10], ["lop", 0, 0, "remove", 99], ["lop", 0, 0, "setslice", [250, 262, None], [1, 2, 3]],
           ["lop", 0, 0, "setslice", [None, None, 128], [4, 4, 4]], ["lop", 0, 0, "delslice", [None, None, 2]],
           ["lop", 0, 0, "delslice", [-1, 100, -3]], ["lop", 0, 0, "extend", list(range(10))], ["lop", 0, 0, "extendself"],
           ["lop", 0, 0, "iadd", [1, 2]], ["lop", 0, 0, "reverse"], ["kill", 2], ["lop", 0, 0, "setitem", 128, 0],
           ["assignlist", 0, 0, list(range(n + 1))], ["lop", 0, 0, "clear"], ["lop", 0, 0, "append", 1]]
    return {"decl": decl, "extra": [], "init": init, "handlers": [[1, "f", 1], [2, "m", 2], [3, "p", 3]], "dup": True, "ops": ops,
            "scale": "list"}


def _gen_scale_wide(rng, n_obs, n_inst, n_handlers, nops):
    """many observables per object and many objects: a random history over them"""
    decl = [{"kind": "obs" if i % 2 else "list", "where": rng.choice(["base", "sub"]), "override": None, "fallback": None}
            for i in range(n_obs)]
    init = [[(rng.randint(0, 9) if d["kind"] == "obs" else [rng.randint(0, 5) for _ in range(3)]) for d in decl] for _ in range(n_inst)]
    hs = [[h, "fmlp"[h % 4], h] for h in range(1, n_handlers + 1)]
    ops = []
    for _ in range(nops):
        i, n = rng.randrange(n_inst), rng.randrange(n_obs)
        r = rng.random()
        if r < 0.4:
            ops.append(["observe", i, rng.choice(["all", n, n]), rng.choice(["all", 1, rng.choice(EMITS[decl[n]["kind"]])]), rng.randint(1, n_handlers)])
        elif r < 0.5:
            ops.append(["unobserve", i, rng.choice(["all", n]), rng.choice(["all", 1]), rng.randint(1, n_handlers)])
        elif r < 0.53:
            ops.append(["kill", rng.randint(1, n_handlers)])
        elif r < 0.55:
            ops.append(["clear", i, rng.choice(["all", n])])
        elif decl[n]["kind"] == "obs":
            ops.append(["assign", i, n, rng.randint(0, 9)])
        else:
            ops.append(["lop", i, n] + _rand_lop(rng, None))
    return {"decl": decl, "extra": [], "init": init, "handlers": hs, "dup": True, "ops": ops, "scale": "wide"}


def _scale_cases(rng, tier, broken=False):
    cases = [_gen_scale_subs(rng, 257, ["all", "all"]),
             _gen_scale_subs(rng, 300, [1, "all"]),
             _gen_scale_subs(rng, 513, [0, "all"], oracle_only=True),
             _gen_scale_list(rng, 300),
             _gen_scale_wide(rng, 8, 6, 40, 60)]
    if tier == "thorough" or broken:
        for n in (255, 256, 258, 512):
            for form in SCALE_FORMS:
                cases.append(_gen_scale_subs(rng, n, form, oracle_only=True))
        cases += [_gen_scale_subs(rng, 1025, ["all", "all"], oracle_only=True), _gen_scale_subs(rng, 1025, [1, 5], oracle_only=True),
                  _gen_scale_subs(rng, 2049, [0, "all"], oracle_only=True), _gen_scale_list(rng, 1030),
                  _gen_scale_wide(rng, 16, 12, 64, 120)]
    return cases


def _gen_reentrant(rng):
    """handlers that observe / unobserve on the (name, type) being notified - outside the property's quantifier:
    correspondence with Model/Signals.v:notify_re only, the oracle is silent on these"""
    hs = list(range(1, rng.randint(3, 5) + 1))
    script = {}
    for h in hs:
        r = rng.random()
        if r < 0.45:
            continue
        script[h] = ["unobs", rng.choice(hs)]
    for h in hs:                       # a few subscribe somebody whose own action is not another subscription
        if h not in script and rng.random() < 0.35:
            script[h] = ["obs", rng.choice([x for x in hs if x not in script or script[x][0] != "obs"] or [h])]
            if script[h][1] == h:
                del script[h]
    subs = [h for h in hs if rng.random() < 0.7] or [hs[0]]
    rng.shuffle(subs)
    return {"re": {"subs": subs, "script": [[h, a, t] for h, (a, t) in sorted(script.items())]},
            "ops": [["round"] for _ in range(rng.randint(2, 4))]}


def _gen_reentrant_assign(rng):
    """as _gen_reentrant, and one or two handlers assign to the observable when they see a given new value
    (trigger = the value of some round, assigned value >= 100 so that the nested round triggers nothing)"""
    c = _gen_reentrant(rng)
    n = len(c["ops"])
    hs = sorted({h for h in c["re"]["subs"]} | {x[0] for x in c["re"]["script"]} | {x[2] for x in c["re"]["script"]})
    script = {h: [a, t] for h, a, t in c["re"]["script"]}
    for h in rng.sample(hs, min(len(hs), rng.randint(1, 2))):
        script[h] = ["assign", rng.randint(1, n), 100 + h]
    c["re"]["script"] = [[h] + v for h, v in sorted(script.items())]
    c["re"]["assign"] = True
    return c


def gen_cases(rng, tier):
    cases = [_gen_reentrant(rng) for _ in range(40 if tier == "quick" else 400)]
    cases += [_gen_reentrant_assign(rng) for _ in range(40 if tier == "quick" else 400)]
    cases += [_gen_hx(rng) for _ in range(120 if tier == "quick" else 1500)]
    cases += [_gen_uc(rng) for _ in range(200 if tier == "quick" else 2000)]
    cases = _scale_cases(rng, tier) + cases
    # the corner cases the quantifier names, always: All in either position on mixed classes, both declaration orders
    for order in (("obs", "list"), ("list", "obs")):
        for where in (("sub", "sub"), ("base", "sub"), ("sub", "base")):
            for (nm, ty) in (("all", "all"), ("all", 1), ("all", 5), (0, "all"), (1, "all"), ("all", BOGUS_TYPE), (UNKNOWN_NAME, "all")):
                decl = [{"kind": order[0], "where": where[0], "override": None, "fallback": None},
                        {"kind": order[1], "where": where[1], "override": None, "fallback": 3 if order[1] == "obs" else None}]
                init = [[([1, 2] if d["kind"] == "list" else 4) for d in decl]]
                li = 0 if order[0] == "list" else 1
                probe = [["assign", 0, 1 - li, 7], ["lop", 0, li, "append", 5], ["lop", 0, li, "setitem", 0, 9],
                         ["lop", 0, li, "insert", 1, 8], ["lop", 0, li, "delitem", 0], ["assignlist", 0, li, [3, 4]]]
                ops = [["observe", 0, nm, ty, 1], ["observe", 0, "all", "all", 2]] + probe + \
                      [["unobserve", 0, nm, ty, 1]] + probe + [["unobserve", 0, "all", "all", 2]] + probe
                cases.append({"decl": decl, "init": init, "handlers": [[1, "f", 1], [2, "m", 2]], "dup": False, "ops": ops})
    n = 700 if tier == "quick" else 12000
    for k in range(n):
        cases.append(_gen_history(rng, rng.randint(6, 30), dup_stream=(k % 10 == 9), force_mixed=(k % 3 == 0)))
    return cases


def enumerate_cases(tier, broken=False):
    """targeted sweep: every class of two attributes over {Observable, ObservableList}^2 x declaration
    place, every observe(nm, ty) and every unobserve(nm', ty') with nm in {All, 0, 1, unknown},
    ty in {All, the five types, an unknown one}, each followed by a probe touching every signal type."""
    import random

    for c in _scale_cases(random.Random(4242), tier, broken=True):
        c["oracle_only"] = True
        yield c
    names = ["all", 0, 1, UNKNOWN_NAME]
    types = ["all", 1, 2, 3, 4, 5, BOGUS_TYPE]
    for kinds in itertools.product(("obs", "list"), repeat=2):
        for where in (("sub", "sub"), ("base", "sub")):
            decl = [{"kind": k, "where": w, "override": None, "fallback": None} for k, w in zip(kinds, where)]
            init = [[([1, 2, 3] if k == "list" else 4) for k in kinds]]
            probe = []
            for n, k in enumerate(kinds):
                if k == "obs":
                    probe.append(["assign", 0, n, 7])
                else:
                    probe += [["lop", 0, n, "append", 5], ["lop", 0, n, "setitem", -1, 9], ["lop", 0, n, "insert", 1, 8],
                              ["lop", 0, n, "pop", None], ["assignlist", 0, n, [3, 4, 5]]]
            for nm, ty in itertools.product(names, types):
                uns = list(itertools.product(names, types)) if tier == "thorough" else [("all", "all"), (nm, ty), ("all", ty), (nm, "all")]
                for nm2, ty2 in uns:
                    ops = [["observe", 0, 0, 1, 2], ["observe", 0, nm, ty, 1]] + probe + [["unobserve", 0, nm2, ty2, 1]] + probe
                    yield {"decl": decl, "init": init, "handlers": [[1, "f", 1], [2, "m", 2]], "dup": True, "ops": ops}


# ------------------------------------------------------------------ plain-Python semantics (the oracle's shadow)
def _sl(s):
    return slice(s[0], s[1], s[2])


def _apply_plain(lst, lop):
    """the same mutation on a plain Python list; returns the value the call returns"""
    k = lop[0]
    if k == "append":
        lst.append(lop[1])
    elif k == "insert":
        lst.insert(lop[1], lop[2])
    elif k == "setitem":
        lst[lop[1]] = lop[2]
    elif k == "setslice":
        lst[_sl(lop[1])] = list(lop[2])
    elif k == "delitem":
        del lst[lop[1]]
    elif k == "delslice":
        del lst[_sl(lop[1])]
    elif k == "pop":
        return lst.pop() if lop[1] is None else lst.pop(lop[1])
    elif k == "remove":
        lst.remove(lop[1])
    elif k == "extend":
        lst.extend(list(lop[1]))
    elif k == "extendself":
        lst.extend(lst)
    elif k == "iadd":
        lst += list(lop[1])
    elif k == "reverse":
        lst.reverse()
    elif k == "clear":
        lst.clear()
    else:
        raise KeyError(k)
    return None


class _Oracle:
    """the ledger of subscriptions implied by the history (the statement's reading of observe /
    unobserve / clear_all_subscriptions), independent of the implementation and of the model"""

    def __init__(self, case):
        self.decl = case["decl"]
        self.k = len(self.decl)
        self.ledger = [dict() for _ in case["init"]]

    def emits(self, n):
        return EMITS[self.decl[n]["kind"]]

    def scope(self, nm):
        if nm == "all":
            return list(range(self.k))
        return [nm] if isinstance(nm, int) and 0 <= nm < self.k else None

    def observe_keys(self, nm, ty):
        """None = the statement says the call is rejected"""
        sc = self.scope(nm)
        if sc is None:
            return None
        keys = []
        for n in sc:
            if ty == "all":
                keys += [(n, t) for t in self.emits(n)]
            elif ty in self.emits(n):
                keys.append((n, ty))
            else:
                return None
        return keys

    def would_double(self, i, nm, ty, h):
        keys = self.observe_keys(nm, ty)
        return bool(keys) and any(h in self.ledger[i].get(k, []) for k in keys)

    def spec_observe(self, i, nm, ty, h):
        keys = self.observe_keys(nm, ty)
        if keys is None:
            return False
        for k in keys:
            self.ledger[i].setdefault(k, []).append(h)
        return True

    def spec_unobserve(self, i, nm, ty, h):
        sc = self.scope(nm) or []
        for n in sc:
            for t in (self.emits(n) if ty == "all" else [ty]):
                if (n, t) in self.ledger[i]:
                    self.ledger[i][(n, t)] = [x for x in self.ledger[i][(n, t)] if x != h]

    def spec_clear(self, i, nm):
        if nm == "all":
            self.ledger[i] = {}
        else:
            for k in [k for k in self.ledger[i] if k[0] == nm]:
                del self.ledger[i][k]

    def live_view(self, i, alive):
        out = {}
        for k, l in self.ledger[i].items():
            ll = [h for h in l if h in alive]
            if ll:
                out[k] = ll
        return out


# ------------------------------------------------------------------ implementation side
def _enc_oz(v):
    return [0] if v is None else [1, int(v)]


def _is_int(v):
    return isinstance(v, int) and not isinstance(v, bool)


def _snap(v):
    """value of a signal field at delivery time: None, int or a copy of a list"""
    if v is None or _is_int(v):
        return v
    try:
        return list(v)
    except TypeError:
        return ("?", repr(type(v)))


def _enc_val(v):
    if v is None:
        return [0]
    if _is_int(v):
        return [1, v]
    if isinstance(v, list) and all(_is_int(x) for x in v):
        return [2, len(v)] + v
    return [99]


def _enc_idx(ix):
    if ix is _MISSING:
        return [0]
    if _is_int(ix):
        return [1, ix]
    if isinstance(ix, slice):
        return [2] + _enc_oz(ix.start) + _enc_oz(ix.stop) + _enc_oz(ix.step)
    return [99]


_MISSING = object()


def _hier_namespaces(hier):
    """per mro position the (attribute id, kind, fallback) bindings in definition order"""
    ns = [[] for _ in range(HIER_MRO[hier["shape"]])]
    for pos, n, kind, fb in hier["bind"]:
        ns[pos].append((n, kind, fb))
    return ns


def _attr_name(n):
    return f"o{n}" if n < 100 else f"x{n}"


def _build_class(decl, extra=(), hier=None):
    from mesa.experimental.mesa_signals import HasObservables, Observable, ObservableList

    def mk(kind, fb):
        if kind == "plain":
            return 0
        if kind == "obs":
            return Observable() if fb is None else Observable(fallback_value=fb)
        return ObservableList()

    if hier is not None:
        nss = [{_attr_name(n): mk(kind, fb) for n, kind, fb in cls_ns} for cls_ns in _hier_namespaces(hier)]

        def __init__(self, init):
            super(leaf, self).__init__()
            for i, v in enumerate(init):
                if v is not None:
                    setattr(self, f"o{i}", list(v) if isinstance(v, list) else v)
        nss[0]["__init__"] = __init__
        shape = hier["shape"]
        if shape == "chain3":
            a = type("A", (HasObservables,), nss[2])
            b = type("B", (a,), nss[1])
            leaf = type("C", (b,), nss[0])
            want = [leaf, b, a]
        elif shape == "diamond":
            a = type("A", (HasObservables,), nss[3])
            b = type("B", (a,), nss[1])
            c = type("C", (a,), nss[2])
            leaf = type("D", (b, c), nss[0])
            want = [leaf, b, c, a]
        elif shape == "mixin_after":
            st = type("Stock", (), nss[1])
            leaf = type("Tracked", (HasObservables, st), nss[0])
            want = [leaf, st]
        elif shape == "mixin_both":
            m1 = type("M1", (), nss[1])
            m2 = type("M2", (), nss[2])
            leaf = type("T", (m1, HasObservables, m2), nss[0])
            want = [leaf, m1, m2]
        else:   # diamond_mid
            pl = type("P", (), nss[3])
            b = type("B", (HasObservables, pl), nss[1])
            c = type("C", (pl,), nss[2])
            leaf = type("D", (b, c), nss[0])
            want = [leaf, b, c, pl]
        if [k for k in leaf.__mro__ if k in want] != want or HasObservables not in leaf.__mro__:
            raise RuntimeError("driver: unexpected mro")
        return leaf
    base_ns, sub_ns = {}, {}
    for i, d in enumerate(decl):
        nm = f"o{i}"
        if d.get("override"):
            base_ns[nm] = mk(d["override"], None)
            sub_ns[nm] = mk(d["kind"], d.get("fallback"))
        elif d["where"] == "base":
            base_ns[nm] = mk(d["kind"], d.get("fallback"))
        else:
            sub_ns[nm] = mk(d["kind"], d.get("fallback"))
    for x in extra:
        base_ns[f"x{x['id']}"] = mk(x["base"], None)
        sub_ns[f"x{x['id']}"] = 0
    Base = type("Base", (HasObservables,), base_ns)

    def __init__(self, init):
        Base.__init__(self)
        for i, v in enumerate(init):
            if v is not None:
                setattr(self, f"o{i}", list(v) if isinstance(v, list) else v)

    sub_ns["__init__"] = __init__
    return type("Sub", (Base,), sub_ns)


def _freeze(signal):
    """what the handler sees at the moment it is called (old/new may be live lists)"""
    d = dict(signal)
    d["old"] = _snap(d.get("old"))
    d["new"] = _snap(d.get("new"))
    return d


class _Listener:
    """an object whose bound methods m0, m1, ... are handlers (they die together with it)"""

    def __init__(self, log):
        self.log = log
        self.hids = {}

    def _called(self, m, signal):
        self.log.append((self.hids[m], _freeze(signal)))


def _listener_method(m):
    def meth(self, signal):
        self._called(m, signal)
    meth.__name__ = m
    return meth


for _j in range(64):
    setattr(_Listener, f"m{_j}", _listener_method(f"m{_j}"))


def _mk_fn(hid, log):
    def handler(signal):
        log.append((hid, _freeze(signal)))
    handler._hid = hid
    return handler


def _hid_of(h):
    if hasattr(h, "__self__"):
        return h.__self__.hids.get(h.__func__.__name__, -1)
    return getattr(h, "_hid", -1)



# ------------------------------------------------------------------ oracle-only stream: heterogeneous values & objects
# (the Z-valued model cannot represent these; the property statement is checked on the implementation alone)
def _hx_val(rng):
    r = rng.random()
    if r < 0.12:
        return ["none"]
    if r < 0.27:
        return ["int", rng.choice([0, 1, -1, 7, 2 ** 53 + 1, -2 ** 70])]
    if r < 0.40:
        return ["float", rng.choice(["0.1", "0.0", "-0.0", "1e308", "2.5", "inf"])]
    if r < 0.46:
        return ["nan"]
    if r < 0.58:
        return ["str", rng.choice(["", "a", "change"])]
    if r < 0.66:
        return ["tuple", rng.choice([[], [1, 2]])]
    if r < 0.74:
        return ["bool", rng.random() < 0.5]
    if r < 0.87:
        return ["falsy", rng.randint(0, 2)]      # an object whose truth value is False (and len 0); the same id = the same object
    return ["obj", rng.randint(0, 2)]


def _gen_hx(rng):
    ops = []
    for _ in range(rng.randint(8, 22)):
        i = rng.randrange(2)
        r = rng.random()
        if r < 0.2:
            ops.append(["assign", i, _hx_val(rng)])
        elif r < 0.3:
            ops.append(["assignlist", i, [_hx_val(rng) for _ in range(rng.randint(0, 3))]])
        elif r < 0.36:
            ops.append(["shared"])               # the SAME list object assigned to the lists of both instances
        elif r < 0.40:
            ops.append(["selfassign", i, rng.randrange(2)])   # owner.l = (this or the other owner's) observable list
        elif r < 0.45:
            ops.append(["late"])                 # a further instance created now, after all that history
        elif r < 0.50:
            ops.append(["raise", i])             # the next signal of instance i makes one handler raise
        else:
            k = rng.choice(["append", "insert", "setitem", "delitem", "pop", "remove", "extend", "iadd", "reverse", "clear", "setslice"])
            op = ["lop", i, k, rng.choice([0, 1, -1, 2, -2, 5, 2 ** 70, -2 ** 70]), _hx_val(rng),
                  [_hx_val(rng) for _ in range(rng.randint(0, 2))]]
            ops.append(op)
    return {"hx": {"kw": rng.random() < 0.5}, "ops": ops}


class _Falsy:
    def __bool__(self):
        return False

    def __len__(self):
        return 0


def _run_hx(case):
    from mesa.experimental.mesa_signals import All, HasObservables, Observable, ObservableList

    class Base(HasObservables):
        x = Observable()

        def __bool__(self):          # an owner whose truth value is False
            return False

        def __len__(self):
            return 0

    class S1(Base):
        l = ObservableList()  # noqa: E741

        def __init__(self):
            super().__init__()
            self.l = []

    class S2(S1):                    # a subclass of a subclass with one more observable
        y = Observable(fallback_value=3)

    pool = {}

    def mat(v):
        t = v[0]
        if t == "none":
            return None
        if t == "int":
            return v[1]
        if t == "float":
            return float(v[1])
        if t == "nan":
            return pool.setdefault("nan", float("nan"))
        if t == "str":
            return v[1]
        if t == "tuple":
            return tuple(v[1])
        if t == "bool":
            return bool(v[1])
        if t == "falsy":
            return pool.setdefault(("f", v[1]), _Falsy())
        return pool.setdefault(("o", v[1]), object())

    failures, obs = [], []

    def fail(key, opi, what):
        failures.append({"key": key, "op": opi, "what": what})

    def same(a, b):
        """identical values: the same object, or equal plain values of the same type (ints / strs may be re-created)"""
        if a is b:
            return True
        return type(a) is type(b) and isinstance(a, (int, str, tuple, bool)) and a == b

    def same_list(a, b):
        return len(a) == len(b) and all(same(p, q) for p, q in zip(a, b))

    objs = [S1(), S2()]
    seen = {id(o): [] for o in objs}         # what the All/All witness of each instance was called with
    armed = {}

    def mk_witness(o):
        def w(signal):
            if armed.pop(id(o), None):
                raise RuntimeError("handler failure injected by the harness")
            d = dict(signal)
            for f in ("old", "new"):
                if not isinstance(d.get(f), (str, tuple)) and hasattr(d.get(f), "__iter__"):
                    d[f] = ("list", list(d[f]))
            seen[id(o)].append(d)
        return w
    keep = [mk_witness(o) for o in objs]
    kw = case["hx"].get("kw")
    for o, w in zip(objs, keep):
        if kw:
            o.observe(name=All(), signal_type=All(), handler=w)      # keyword spelling of the same call
        else:
            o.observe(All(), All(), w)
    shadow_x = [None, None]
    shadow_l = [[], []]
    copy_l = [[], []]                         # the listener's copies, rebuilt from the signals
    for opi, op in enumerate(case["ops"]):
        k = op[0]
        for o in objs:
            del seen[id(o)][:]
        try:
            if k == "late":
                o3 = S2()
                armed.clear()
                if any(refs for per in o3.subscribers.values() for refs in per.values()) or list(o3.l) != [] or "_x" in vars(o3):
                    fail("C16/values/late-instance", opi, f"an instance created after other instances were used starts with subscribers "
                         f"{dict(o3.subscribers)} / list {list(o3.l)} / x set: {'_x' in vars(o3)}")
                got3 = []

                def h3(signal):
                    got3.append(signal)
                o3.observe("y", "change", h3)
                o3.y = 1
                if len(got3) != 1 or got3[0].old != 3 or got3[0].owner is not o3:
                    fail("C16/values/late-instance", opi, f"first assignment on a late instance delivered {got3}")
                obs.append([0])
                continue
            if k == "raise":
                armed[id(objs[op[1]])] = True
                obs.append([0])
                continue
            if k == "shared":
                armed.clear()
                shared = [mat(["obj", 0]), 1]
                snapshot = list(shared)
                objs[0].l = shared
                objs[1].l = shared
                shadow_l[0], shadow_l[1] = list(shared), list(shared)
                objs[0].l.append(2)
                shadow_l[0].append(2)
                if not same_list(shared, snapshot) or not same_list(list(objs[1].l), shadow_l[1]):
                    fail("C16/values/shared-list-aliasing", opi, f"one list object assigned to two observable lists: after an append to the "
                         f"first, the caller's list is {shared} and the second list is {list(objs[1].l)}")
                copy_l = [list(objs[0].l), list(objs[1].l)]
                obs.append([0])
                continue
            i = op[1]
            o = objs[i]
            exc = sexc = None
            arg_before = arg = None
            if k == "assign":
                v = mat(op[2])
                try:
                    o.x = v
                except RuntimeError:
                    exc = "handler"
                if exc is None:
                    sig = seen[id(o)]
                    if len(sig) != 1 or sig[0]["type"] != "change" or sig[0]["name"] != "x" or sig[0]["owner"] is not o \
                            or not same(sig[0]["new"], v) or not same(sig[0]["old"], shadow_x[i]):
                        fail("C16/values/payload-identity", opi, f"x = {v!r} (previous {shadow_x[i]!r}) delivered {sig}")
                    if not same(vars(o).get("_x"), v):
                        fail("C16/values/stored", opi, f"x = {v!r} stored {vars(o).get('_x')!r}")
                    shadow_x[i] = v
                else:
                    shadow_x[i] = vars(o).get("_x")          # after a failing handler: not judged, continue from what is there
                obs.append([0])
                continue
            if k == "assignlist":
                arg = [mat(x) for x in op[2]]
                arg_before = list(arg)
                try:
                    o.l = arg
                    shadow_l[i] = list(arg)
                except RuntimeError:
                    exc = "handler"
            elif k == "selfassign":
                src = objs[op[2]].l
                want = list(src)
                try:
                    o.l = src
                    shadow_l[i] = want
                except RuntimeError:
                    exc = "handler"
            else:
                _, _, kind, ix, v, vs = op
                v = mat(v)
                arg = [mat(x) for x in vs]
                arg_before = list(arg)
                lop = {"append": ["append", v], "insert": ["insert", ix, v], "setitem": ["setitem", ix, v], "delitem": ["delitem", ix],
                       "pop": ["pop", None if ix == 5 else ix], "remove": ["remove", v], "extend": ["extend", arg], "iadd": ["iadd", arg],
                       "reverse": ["reverse"], "clear": ["clear"], "setslice": ["setslice", [None if ix == 5 else ix, None, None], arg]}[kind]
                keep_shadow = list(shadow_l[i])
                try:
                    _apply_plain(shadow_l[i], lop)
                except (IndexError, ValueError, OverflowError) as e:
                    sexc = type(e).__name__
                    shadow_l[i] = keep_shadow
                try:
                    if lop[0] == "iadd":
                        tmp = o.l
                        tmp += lop[1]
                        o.l = tmp
                        del tmp
                    else:
                        _apply_plain(o.l, lop)
                except RuntimeError:
                    exc = "handler"
                except (IndexError, ValueError, OverflowError) as e:
                    exc = type(e).__name__
                bad_index = {"IndexError", "OverflowError"}      # list.pop(2**70) says OverflowError, self[2**70] IndexError
                if exc != "handler" and exc != sexc and not (exc in bad_index and sexc in bad_index):
                    fail("C16/values/wrong-exception", opi, f"{lop}: the observable list raised {exc}, a Python list raises {sexc}")
            real = list(o.l)
            if exc == "handler":
                shadow_l[i] = list(real)                 # not judged (raising handlers are outside the statement); continue from here
                copy_l[i] = list(real)
            else:
                if not same_list(real, shadow_l[i]):
                    fail("C16/values/wrong-state", opi, f"{op}: the list holds {real}, a Python list holds {shadow_l[i]}")
                    shadow_l[i] = list(real)
                # replay the signals on the listener's copy, checking identity of old / new
                c = copy_l[i]
                for d in seen[id(o)]:
                    if d["owner"] is not o or d["name"] != "l":
                        fail("C16/values/payload-identity", opi, f"{op}: signal for {d['name']!r} of another owner")
                    t, ixx = d["type"], d.get("index")
                    old, new = d["old"], d["new"]
                    try:
                        if t == "change":
                            c = list(new[1]) if isinstance(new, tuple) and new and new[0] == "list" else list(new)
                        elif t == "append":
                            if ixx != len(c) or old is not None:
                                fail("C16/values/payload-identity", opi, f"{op}: append signal index {ixx} old {old!r}, copy has {len(c)} items")
                            c.append(new)
                        elif t == "insert":
                            c.insert(ixx, new)
                        elif t == "replace":
                            cur = c[ixx]
                            ok = same_list(old[1], cur) if isinstance(ixx, slice) else same(old, cur)
                            if not ok:
                                fail("C16/values/payload-identity", opi, f"{op}: replace signal old {old!r}, the copy holds {cur!r}")
                            c[ixx] = new[1] if isinstance(ixx, slice) else new
                        elif t == "remove":
                            cur = c[ixx]
                            ok = same_list(old[1], cur) if isinstance(ixx, slice) else same(old, cur)
                            if not ok or new is not None:
                                fail("C16/values/payload-identity", opi, f"{op}: remove signal old {old!r} new {new!r}, the copy holds {cur!r}")
                            del c[ixx]
                    except (IndexError, TypeError, ValueError) as e:
                        fail("C16/values/replay", opi, f"{op}: the listener cannot apply {d}: {type(e).__name__}")
                copy_l[i] = c
                if not same_list(copy_l[i], real):
                    fail("C16/values/replay", opi, f"{op}: a listener applying the signals holds {copy_l[i]}, the list holds {real}")
                    copy_l[i] = list(real)
                if arg is not None and not same_list(arg, arg_before):
                    fail("C16/values/argument-mutated", opi, f"{op}: the caller's list changed from {arg_before} to {arg}")
            # the other instance is untouched
            j = 1 - i
            if not same_list(list(objs[j].l), shadow_l[j]) or not same(vars(objs[j]).get("_x"), shadow_x[j]):
                fail("C16/values/other-instance-changed", opi, f"{op} on instance {i} changed instance {j}")
            # the registry still holds exactly the two witnesses' subscriptions (also after a raising handler)
            for o2, w in zip(objs, keep):
                for nm, per in o2.subscribers.items():
                    for ty, refs in per.items():
                        live = [r() for r in refs if r() is not None]
                        if live != [w]:
                            fail("C16/values/registry-after", opi, f"{op}: subscribers[{nm!r}][{ty!r}] holds {len(live)} live handlers")
            obs.append([0])
        except Exception as e:  # noqa: BLE001
            obs.append([-1, 99])
            fail("C16/values/unexpected-exception", opi, f"{op} raised {type(e).__name__}: {e}")
    return {"obs": obs, "failures": failures, "model": False}


# ------------------------------------------------------------------ oracle-only stream: USER CODE inside the notification
# handlers that re-enter the API, kill other handlers' owners (gc inside the handler), raise; user subclasses of HasObservables /
# Observable / ObservableList; listeners with value-based __eq__.  What a handler does to the (name, type) list that is being
# delivered at that very moment is outside the statement (see the re-entrant model streams): those keys are re-synchronised from
# the implementation after the round; everything else is judged: handlers alive throughout receive the signal exactly once, the
# registry equals the ledger after the round, and the plain signals that follow are delivered exactly once each, in order.
UC_NAMES = ["x", "y", "l"]
UC_KINDS = {"x": "obs", "y": "obs", "l": "list"}
UC_EXC = ["ValueError", "RuntimeError", "StopIteration", "IndexError", "KeyError", "AttributeError", "TypeError", "GeneratorExit",
          "ZeroDivisionError"]


def _gen_uc(rng):
    nh = rng.randint(4, 7)
    hs = []
    for h in range(1, nh + 1):
        hs.append({"id": h, "kind": rng.choice(["m", "m", "f"]), "eq": rng.random() < 0.3})
    subs = []
    for h in range(1, nh + 1):
        for _ in range(rng.randint(1, 2)):
            nm = rng.choice(UC_NAMES + ["all"])
            ty = rng.choice(["all", "change"] + (["append", "replace"] if nm in ("l",) else []))
            subs.append([nm, ty, h])
    rng.shuffle(subs)
    rounds = []
    for r in range(rng.randint(2, 4)):
        acts = {}
        for h in rng.sample(range(1, nh + 1), rng.randint(1, 2)):
            k = rng.random()
            other = rng.randint(1, nh)
            if k < 0.22:
                a = ["kill", rng.choice([h, other, other])]
            elif k < 0.40:
                a = ["raise", rng.choice(UC_EXC)]
            elif k < 0.47:
                a = ["bad_observe"]
            elif k < 0.62:
                a = ["observe", rng.choice(UC_NAMES + ["all"]), rng.choice(["all", "change"]), other]
            elif k < 0.77:
                a = ["unobserve", rng.choice(UC_NAMES + ["all"]), rng.choice(["all", "change"]), rng.choice([h, other])]
            elif k < 0.84:
                a = ["clear", rng.choice(UC_NAMES + ["all"])]
            else:
                a = ["assign", rng.choice(["x", "y"]), rng.randint(10, 19)]
            acts[str(h)] = a
        prekill = [rng.randint(1, nh)] if rng.random() < 0.5 else []        # a reference that is already dead when the round starts
        op = rng.choice([["set", "x"], ["set", "y"], ["append"], ["setitem"], ["set", "x"]])
        top = []
        if rng.random() < 0.4:         # ordinary calls between the rounds (judged like any other history)
            top.append([rng.choice(["observe", "unobserve", "unobserve"]), rng.choice(UC_NAMES + ["all"]), rng.choice(["all", "change"]),
                        rng.randint(1, nh)])
        rounds.append({"prekill": prekill, "top": top, "acts": acts, "op": op})
    return {"uc": {"handlers": hs, "subs": subs, "owner": rng.choice(["plain", "slots", "eq", "mixin"])}, "ops": rounds}


def _run_uc(case):
    import gc

    from mesa.experimental.mesa_signals import All, HasObservables, Observable, ObservableList

    class MyObs(Observable):
        """a docstring-only subclass"""

    class ObsWithArg(Observable):
        def __init__(self, label, fallback_value=None):
            super().__init__(fallback_value=fallback_value)
            self.label = label

    class MyList(ObservableList):
        pass

    class Mixin:
        z = Observable()

    variant = case["uc"]["owner"]
    ns = {"x": MyObs(), "y": ObsWithArg("why", fallback_value=0), "l": MyList()}
    if variant == "slots":
        ns["__slots__"] = ("extra",)
    if variant == "eq":
        ns["__eq__"] = lambda self, other: isinstance(other, type(self))
        ns["__hash__"] = lambda self: 7

    def __init__(self):
        HasObservables.__init__(self)
        self.x, self.y, self.l = 0, 0, [1, 2, 3]
    ns["__init__"] = __init__
    bases = (HasObservables, Mixin) if variant == "mixin" else (HasObservables,)
    owner = type("Owner", bases, ns)()
    emits = {"x": ["change"], "y": ["change"], "l": ["change", "replace", "remove", "insert", "append"]}
    names = list(UC_NAMES) + (["z"] if variant == "mixin" else [])
    if variant == "mixin":
        emits["z"] = ["change"]
    failures, obs = [], []
    nfail = {}

    def fail(key, opi, what):
        nfail[key] = nfail.get(key, 0) + 1
        if nfail[key] <= 3:
            failures.append({"key": key, "op": opi, "what": what[:1500]})

    calls = []            # (hid, name, type) in call order
    delivering = []       # stack of (name, type) being delivered
    did = []              # registry actions performed by handlers in this round: (kind, keys, during keys, hid)
    holders, armed = {}, {}

    class EqListener:
        """listeners of this class are all equal to each other (value-based __eq__ / __hash__)"""

        def __init__(self, hid):
            self.hid = hid

        def __eq__(self, other):
            return isinstance(other, EqListener)

        def __hash__(self):
            return 11

        def on(self, signal):
            called(self.hid, signal)

    class Listener:
        def __init__(self, hid):
            self.hid = hid

        def on(self, signal):
            called(self.hid, signal)

    def get(hid):
        o = holders.get(hid)
        if o is None:
            return None
        return o.on if hasattr(o, "on") else o

    def keys_of(nm, ty):
        out = []
        for n in (names if nm == "all" else [nm]):
            for t in (emits[n] if ty == "all" else [ty]):
                if t in emits[n]:
                    out.append((n, t))
        return out

    def called(hid, signal):
        key = (signal.name, signal.type)
        calls.append((hid, key))
        a = armed.pop(hid, None)
        if a is None:
            return
        delivering.append(key)
        try:
            k = a[0]
            if k == "kill":
                holders.pop(a[1], None)
                gc.collect()
                did.append(("kill", a[1]))
            elif k == "raise":
                import builtins
                raise getattr(builtins, a[1])("raised by the handler")
            elif k == "bad_observe":
                owner.observe("x", "no-such-signal-type", get(hid))       # rejected: the ValueError leaves the handler
            elif k in ("observe", "unobserve"):
                hd = get(a[3])
                if hd is not None:
                    getattr(owner, k)(All() if a[1] == "all" else a[1], All() if a[2] == "all" else a[2], hd)
                    did.append((k, keys_of(a[1], a[2]), list(delivering), a[3]))
            elif k == "clear":
                owner.clear_all_subscriptions(All() if a[1] == "all" else a[1])
                did.append(("clear", [kk for n in (names if a[1] == "all" else [a[1]]) for kk in keys_of(n, "all")], list(delivering), None))
            elif k == "assign":
                did.append(("assign", (a[1], "change"), list(delivering), None))
                setattr(owner, a[1], a[2])
        finally:
            delivering.pop()

    for hd in case["uc"]["handlers"]:
        hid = hd["id"]
        if hd["kind"] == "f":
            def f(signal, hid=hid):
                called(hid, signal)
            f._hid = hid
            holders[hid] = f
            del f
        else:
            holders[hid] = (EqListener if hd["eq"] else Listener)(hid)
    ledger = {}
    for nm, ty, h in case["uc"]["subs"]:
        if nm not in names + ["all"]:
            continue
        owner.observe(All() if nm == "all" else nm, All() if ty == "all" else ty, get(h))
        for key in keys_of(nm, ty):
            ledger.setdefault(key, []).append(h)

    def hid_of(hd):
        return hd.__self__.hid if hasattr(hd, "__self__") else hd._hid

    def registry():
        out = {}
        for nm, per in list(owner.subscribers.items()):
            for ty, refs in list(per.items()):
                hs = [hid_of(r()) for r in refs if r() is not None]
                if hs:
                    out[(nm, ty)] = hs
        return out

    def live(key):
        return [h for h in ledger.get(key, []) if h in holders]

    def signal_op(op, value):
        if op[0] == "set":
            setattr(owner, op[1], value)
            return (op[1], "change")
        if op[0] == "append":
            owner.l.append(value)
            return ("l", "append")
        owner.l[0] = value
        return ("l", "replace")

    def plain_round(opi, op, value, what):
        del calls[:]
        key = (op[1], "change") if op[0] == "set" else ("l", "append" if op[0] == "append" else "replace")
        exp = [(h, key) for h in live(key)]
        try:
            signal_op(op, value)
        except Exception as e:  # noqa: BLE001
            fail("C16/usercode/later-signal-raised", opi, f"{what}: {op} raised {type(e).__name__}: {e}")
            return
        if calls != exp:
            fail("C16/usercode/later-delivery-wrong", opi, f"{what}: the signal {key} was delivered to {[h for h, _ in calls]}, "
                 f"the live subscribers in subscription order are {[h for h, _ in exp]}")
        reg = registry()
        want = {k: live(k) for k in ledger if live(k)}
        if reg != want:
            fail("C16/usercode/registry-wrong", opi, f"{what}: after {op} the live registry is {reg}, the history implies {want}")
            for k in set(reg) | set(want):
                ledger[k] = list(reg.get(k, []))

    value = 100
    for opi, rnd in enumerate(case["ops"]):
        for g in rnd.get("prekill", []):
            holders.pop(g, None)
        for kind, nm, ty, h in rnd.get("top", []):
            hd = get(h)
            if hd is None:
                continue
            getattr(owner, kind)(All() if nm == "all" else nm, All() if ty == "all" else ty, hd)
            for kk in keys_of(nm, ty):
                if kind == "observe":
                    ledger.setdefault(kk, []).append(h)
                else:
                    ledger[kk] = [q for q in ledger.get(kk, []) if q != h]
            del hd
        armed.clear()
        for h, a in rnd["acts"].items():
            if int(h) in holders:
                armed[int(h)] = a
        del calls[:]
        del did[:]
        op = rnd["op"]
        key0 = (op[1], "change") if op[0] == "set" else ("l", "append" if op[0] == "append" else "replace")
        before_live = list(live(key0))
        value += 1
        raised = None
        try:
            signal_op(op, value)
        except BaseException as e:  # noqa: BLE001 - the caller catches whatever the handler raised
            raised = type(e).__name__
        # ---- bookkeeping of what the handlers did
        touched = set()
        nested_same = False
        for d in did:
            if d[0] in ("observe", "unobserve", "clear"):
                _, keys, during, h2 = d
                for kk in keys:
                    if kk in during:
                        touched.add(kk)           # the list that was being delivered: outside the statement, re-synchronised below
                    elif d[0] == "observe":
                        ledger.setdefault(kk, []).append(h2)
                    elif d[0] == "unobserve":
                        ledger[kk] = [q for q in ledger.get(kk, []) if q != h2]
                    else:
                        ledger[kk] = []
            elif d[0] == "assign":
                if d[1] in d[2]:
                    nested_same = True
        # ---- in the round: a subscriber alive before and after it gets the signal exactly once (unless a handler raised,
        #      the list itself was re-entered, or the observable was assigned again from inside)
        if raised is None and key0 not in touched and not nested_same:
            got = [h for h, k in calls if k == key0]
            for h in set(before_live):
                if h in holders and got.count(h) != before_live.count(h):
                    fail("C16/usercode/in-round-delivery", opi,
                         f"round {rnd}: subscriber {h} of {key0} is alive before and after the round but was called {got.count(h)} "
                         f"time(s) (calls {got}, subscribers {before_live})")
        reg = registry()
        for kk in touched:
            ledger[kk] = list(reg.get(kk, []))
        if nested_same:
            ledger[key0] = list(reg.get(key0, []))
        want = {k: live(k) for k in ledger if live(k)}
        if reg != want:
            fail("C16/usercode/registry-wrong", opi, f"after round {rnd} (raised: {raised}) the live registry is {reg}, the history implies {want}")
            for k in set(reg) | set(want):
                ledger[k] = list(reg.get(k, []))
        armed.clear()
        # ---- what happens NEXT: plain signals on every kind of key
        for j, pop in enumerate([["set", "x"], ["set", "y"], ["append"], ["setitem"]]):
            value += 1
            plain_round(opi, pop, value, f"after round {rnd} (raised: {raised})")
        obs.append([0])
    return {"obs": obs, "failures": failures, "model": False}


def _run_reentrant(case):
    from mesa.experimental.mesa_signals import HasObservables, Observable

    class R(HasObservables):
        x = Observable()

    obj = R()
    obj.x = 0
    calls, handlers = [], {}
    with_assign = bool(case["re"].get("assign"))
    script = {x[0]: tuple(x[1:]) for x in case["re"]["script"]}
    ids = set(case["re"]["subs"]) | set(script) | {v[1] for v in script.values() if v[0] in ("obs", "unobs")}

    class Runaway(Exception):
        """the implementation under test keeps calling handlers: stop the history instead of exhausting memory"""

    def mk(h):
        def f(signal):
            if len(calls) > 20000:
                raise Runaway
            if with_assign:
                calls.extend([h] + [v if _is_int(v) else -99 for v in (signal.old, signal.new)])
            else:
                calls.append(h)
            a, t = script.get(h, ("nop", 0))[:2]
            if a == "assign":
                if signal.new == t:
                    obj.x = script[h][2]
            elif a == "obs":
                obj.observe("x", "change", handlers[t])
            elif a == "unobs":
                obj.unobserve("x", "change", handlers[t])
        f._hid = h
        return f
    for h in ids:
        handlers[h] = mk(h)
    for h in case["re"]["subs"]:
        obj.observe("x", "change", handlers[h])
    obs = []
    for i, _ in enumerate(case["ops"]):
        del calls[:]
        if sum(1 for _ in obj.subscribers["x"]["change"]) > 150:
            obs.append([-3])
            break
        try:
            obj.x = i + 1
        except (Runaway, RecursionError):
            obs.append([-3])
            break
        reg = [r()._hid for r in obj.subscribers["x"]["change"] if r() is not None]
        obs.append(list(calls) + [-7] + reg + ([-6, obj._x if _is_int(obj._x) else -99] if with_assign else []))
    return {"obs": obs, "failures": []}


def run_impl(case):
    if "hx" in case:
        return _run_hx(case)
    if "uc" in case:
        return _run_uc(case)
    if "re" in case:
        return _run_reentrant(case)
    import gc
    import weakref

    from mesa.experimental.mesa_signals import All

    decl = case["decl"]
    k = len(decl)
    extra = case.get("extra", [])
    extra_ids = {x["id"] for x in extra}
    cls = _build_class(decl, extra, case.get("hier"))
    objs = [cls(init) for init in case["init"]]
    ninst = len(objs)
    log = []          # (hid, signal) as the handlers are called
    emitted = []      # (inst, name, old, new, type, kwargs) as notify is called (snapshots)

    def hook(i, obj):
        orig = obj.notify

        def notify(observable, old_value, new_value, signal_type, **kw):
            emitted.append((i, observable, _snap(old_value), _snap(new_value), signal_type,
                            {a: (b if isinstance(b, slice) else _snap(b)) for a, b in kw.items()}))
            return orig(observable, old_value, new_value, signal_type, **kw)
        obj.notify = notify

    for i, o in enumerate(objs):
        hook(i, o)

    # handlers: functions and bound methods; holders[gid] is the only strong reference
    holders, weak, how = {}, {}, {}
    for hid, kind, gid in case["handlers"]:
        if kind in ("f", "l", "p"):
            f = _mk_fn(hid, log)
            if kind == "l":
                f = (lambda g: (lambda signal: g(signal)))(f)       # a lambda
                f._hid = hid
            elif kind == "p":
                import functools
                f = functools.partial(f)                              # a functools.partial object (weakly referenceable)
                f._hid = hid
            holders[gid] = f
            weak[gid] = weakref.ref(f)
            how[hid] = (gid, None)
            del f
        else:
            if gid not in holders:
                holders[gid] = _Listener(log)
                weak[gid] = weakref.ref(holders[gid])
            m = f"m{len(holders[gid].hids)}"
            holders[gid].hids[m] = hid
            how[hid] = (gid, m)
    alive = set(how)

    def handler(hid):
        gid, m = how[hid]
        return holders[gid] if m is None else getattr(holders[gid], m)

    def nm_arg(nm):
        if nm == "all":
            return All()
        if nm in extra_ids:
            return f"x{nm}"
        return f"o{nm}" if isinstance(nm, int) and 0 <= nm < k else f"nope{nm}"

    def ty_arg(ty):
        if ty == "all":
            return All()
        return TYPE_NAME.get(ty, f"bogus{ty}")

    name_code = {f"o{i}": i for i in range(k)}

    def registry(i):
        """live subscribers per (name, type) as the implementation holds them"""
        out = {}
        for nm, per in list(objs[i].subscribers.items()):
            unknown = 0
            for ty, refs in list(per.items()):
                if ty not in TYPE_CODE:
                    unknown += 1
                    if unknown > 1:          # keys that are no signal type: the first one is shown (as type 98), the rest would only cost time
                        continue
                hs = []
                for ref in refs:
                    h = ref()
                    if h is not None:
                        hs.append(_hid_of(h))
                    del h
                if hs:
                    out[(name_code.get(nm, 98), TYPE_CODE.get(ty, 98))] = hs
        return out

    def values(i):
        out = []
        for n, d in enumerate(decl):
            v = getattr(objs[i], f"_o{n}", _MISSING)
            if d["kind"] == "obs":
                out.append(None if v is _MISSING else v)
            else:
                out.append(None if v is _MISSING else list(v))
        return out

    light = bool(case.get("oracle_only"))

    def view():
        out = []
        if light:                 # implementation + oracle only: nothing is compared with the model
            return out
        for i in range(ninst):
            reg = registry(i)
            for key in sorted(reg):
                out += [key[0], key[1], len(reg[key])] + reg[key]
            out.append(-8)
            for d, v in zip(decl, values(i)):
                if d["kind"] == "obs":
                    out += [0] if v is None else ([1, v] if _is_int(v) else [99])
                else:
                    out += [3] if v is None else _enc_val(v)
            out.append(-9)
        return out

    def enc_signal(sig):
        owner = next((j for j, o in enumerate(objs) if sig.get("owner") is o), -1)
        return ([owner, name_code.get(sig.get("name"), -1), TYPE_CODE.get(sig.get("type"), -1)]
                + _enc_val(_snap(sig.get("old"))) + _enc_val(_snap(sig.get("new"))) + _enc_idx(sig.get("index", _MISSING)))

    orc = _Oracle(case)
    shadow = [[(list(v) if isinstance(v, list) else v) for v in row] for row in case["init"]]
    copy = [[(list(v) if isinstance(v, list) else v) for v in row] for row in case["init"]]   # the replaying listener
    obs, failures = [], []

    nfail = {}

    def fail(key, opi, what):
        nfail[key] = nfail.get(key, 0) + 1
        if nfail[key] <= 5:              # one defect is reported a few times per history, not once per operation
            failures.append({"key": key, "op": opi, "what": what[:3000]})

    def reg_diff(got, exp):
        out = []
        for key in sorted(set(got) | set(exp)):
            g, e = got.get(key, []), exp.get(key, [])
            if g != e:
                if len(g) + len(e) <= 24:
                    out.append(f"{key}: {g}, the history implies {e}")
                else:
                    p = next((q for q, (a, b) in enumerate(zip(g, e)) if a != b), min(len(g), len(e)))
                    out.append(f"{key}: {len(g)} handlers, the history implies {len(e)}; first difference at position {p} "
                               f"({g[p:p + 3]} vs {e[p:p + 3]})")
            if len(out) >= 4:
                break
        return "; ".join(out)

    def check_registry(opi, i, site, op):
        exp = orc.live_view(i, alive)
        got = registry(i)
        if got != exp:
            fail(f"C16/{site}/registry-wrong", opi,
                 f"after {op} the live subscriptions of instance {i} differ: {reg_diff(got, exp)} "
                 f"((name index, type code) -> handler ids in subscription order; types {TYPE_NAME})")
            # resynchronise so that one defect is reported once
            orc.ledger[i] = {key: list(v) for key, v in got.items()}

    for opi, op in enumerate(case["ops"]):
        kind = op[0]
        del log[:]
        del emitted[:]
        status, ret = [0], None
        i = op[1] if kind != "kill" else None
        if kind != "kill" and not (isinstance(i, int) and 0 <= i < ninst):
            obs.append([-2] + _enc_val(None) + [0, -7] + view())
            continue
        try:
            if kind == "observe":
                _, _, nm, ty, h = op
                if h not in alive:
                    status = [-2]
                else:
                    keys = orc.observe_keys(nm, ty)
                    before = registry(i) if (keys is None or not light) else None     # at scale only where a rejection is expected
                    raised = None
                    try:
                        if opi % 3 == 1:       # the same call spelled with keywords
                            objs[i].observe(name=nm_arg(nm), signal_type=ty_arg(ty), handler=handler(h))
                        else:
                            objs[i].observe(nm_arg(nm), ty_arg(ty), handler(h))
                    except ValueError as e:
                        raised = str(e)
                        status = [-1, E_NAME if orc.scope(nm) is None else E_TYPE]
                    if keys is None:
                        if raised is None:
                            over = [n for n in (orc.scope(nm) or []) if decl[n].get("override") or case.get("hier")] or ([nm] if nm in extra_ids else [])
                            fail("C16/observe/overridden-observable-types" if over else "C16/observe/invalid-accepted", opi,
                                 f"{op}: observe accepted an unknown observable or a signal type that is not emitted"
                                 + (f" (attribute(s) {over} override an inherited observable of another kind)" if over else ""))
                            orc.ledger[i] = {key: list(v) for key, v in registry(i).items()}
                        elif registry(i) != before:
                            what = (f"{op}: observe raised ValueError ({raised}) but changed the subscriptions of instance {i} "
                                    f"({reg_diff(registry(i), before)})")
                            fail("C16/observe/rejected-but-subscribed", opi, what)
                            fail("C18/signals/observe", opi, what)
                            orc.ledger[i] = {key: list(v) for key, v in registry(i).items()}
                    else:
                        if raised is not None:
                            over = [n for n in (orc.scope(nm) or []) if decl[n].get("override") or case.get("hier")]
                            key = "C16/observe/overridden-observable-types" if over else "C16/observe/valid-subscription-rejected"
                            what = (f"{op}: every requested (name, type) exists ({[(n, TYPE_NAME[t]) for n, t in keys]}) but observe raised ValueError: {raised}")
                            fail(key, opi, what)
                            if before is not None and registry(i) != before:
                                fail("C18/signals/observe", opi, what + f"; and the subscriptions changed: {reg_diff(registry(i), before)}")
                            orc.ledger[i] = {key2: list(v) for key2, v in registry(i).items()}
                        else:
                            orc.spec_observe(i, nm, ty, h)
                            check_registry(opi, i, "observe", op)
            elif kind == "unobserve":
                _, _, nm, ty, h = op
                if h not in alive:
                    status = [-2]
                else:
                    try:
                        if opi % 3 == 1:
                            objs[i].unobserve(name=nm_arg(nm), signal_type=ty_arg(ty), handler=handler(h))
                        else:
                            objs[i].unobserve(nm_arg(nm), ty_arg(ty), handler(h))
                    except KeyError:
                        if orc.scope(nm) is None and ty == "all":
                            status = [-1, E_KEY]      # unknown name with All(): outside the statement, recorded
                        else:
                            raise
                    orc.spec_unobserve(i, nm, ty, h)
                    check_registry(opi, i, "unobserve", op)
            elif kind == "clear":
                if opi % 3 == 1:
                    objs[i].clear_all_subscriptions(name=nm_arg(op[2]))
                else:
                    objs[i].clear_all_subscriptions(nm_arg(op[2]))
                orc.spec_clear(i, op[2])
                check_registry(opi, i, "clear", op)
            elif kind == "kill":
                g = op[1]
                if g in holders:
                    del holders[g]
                    if weak[g]() is not None:
                        gc.collect()
                    if weak[g]() is not None:
                        raise RuntimeError("driver: handler still referenced after kill")
                    alive -= {hid for hid, (gg, _) in how.items() if gg == g}
                for j in range(ninst):
                    check_registry(opi, j, "kill", op)
            elif kind in ("assign", "assignlist", "lop"):
                n = op[2]
                want = "obs" if kind == "assign" else "list"
                if not (isinstance(n, int) and 0 <= n < k and decl[n]["kind"] == want):
                    status = [-2]
                else:
                    status, ret = _mutate(case, objs, shadow, copy, orc, alive, op, opi, i, n, log, emitted, fail, enc_signal, registry, values)
                    check_registry(opi, i, "notify", op)
            else:
                status = [-2]
        except Exception as e:  # noqa: BLE001
            status = [-1, 99]
            fail(f"C16/{kind}/unexpected-exception", opi, f"{op} raised {type(e).__name__}: {e}")
        ds = []
        for hid, sig in log:
            ds += [hid] + enc_signal(sig)
        obs.append(status + _enc_val(ret) + [len(log)] + (ds if not light else []) + [-7] + view())
    return {"obs": obs, "failures": failures, "model": not light}


def _mutate(case, objs, shadow, copy, orc, alive, op, opi, i, n, log, emitted, fail, enc_signal, registry, values):
    """perform an assignment / list mutation on the implementation and state the property on what was
    emitted (notify hook) and delivered (handler log)"""
    decl = case["decl"]
    kind = op[0]
    name = f"o{n}"
    obj = objs[i]
    status, ret = [0], None
    lopname = kind if kind != "lop" else op[3]
    before_vals = values(i)
    # --- the call on the implementation, and on the plain shadow
    exc = None
    try:
        if kind == "assign":
            setattr(obj, name, op[3])
        elif kind == "assignlist":
            setattr(obj, name, list(op[3]))
        else:
            lop = op[3:]
            if lop[0] == "iadd":
                tmp = getattr(obj, name)
                tmp += list(lop[1])
                setattr(obj, name, tmp)
                del tmp
            elif lop[0] == "extendself":
                tmp = getattr(obj, name)
                tmp.extend(tmp)
                del tmp
            else:
                ret = _apply_plain(getattr(obj, name), lop)
    except IndexError:
        exc, status = "IndexError", [-1, E_INDEX]
    except ValueError:
        exc, status = "ValueError", [-1, E_VALUE]
    except AttributeError:
        exc, status = "AttributeError", [-1, E_ATTR]
    sexc, sret = None, None
    if kind == "assign":
        old_expected = shadow[i][n] if shadow[i][n] is not None else decl[n].get("fallback")
        shadow[i][n] = op[3]
    elif kind == "assignlist":
        old_expected = list(shadow[i][n]) if shadow[i][n] is not None else []
        shadow[i][n] = list(op[3])
    else:
        if shadow[i][n] is None:
            sexc = "AttributeError"
        else:
            keep = list(shadow[i][n])
            try:
                sret = _apply_plain(shadow[i][n], op[3:])
            except IndexError:
                sexc = "IndexError"
            except ValueError:
                sexc = "ValueError"
            if sexc:
                shadow[i][n] = keep
    if exc != sexc:
        fail(f"C16/list/{lopname}/wrong-exception", opi, f"{op}: the observable list raised {exc}, a Python list raises {sexc}")
    if exc is not None:
        if emitted or log or values(i) != before_vals:
            what = f"{op} raised {exc} but emitted {len(emitted)} signal(s) / changed the values from {before_vals} to {values(i)}"
            fail(f"C16/list/{lopname}/raised-but-changed", opi, what)
            fail(f"C18/signals/list-{lopname}", opi, what)
        return status, None
    if kind == "lop" and ret != sret:
        fail(f"C16/list/{lopname}/wrong-result", opi, f"{op} returned {ret}, a Python list returns {sret}")
    # --- the real state is what the mutation means on a plain list
    real = values(i)
    if real[n] != shadow[i][n]:
        fail(f"C16/list/{lopname}/wrong-state", opi, f"after {op} the value is {real[n]}, plain Python semantics give {shadow[i][n]}")
        shadow[i][n] = (list(real[n]) if isinstance(real[n], list) else real[n])
    # --- every emitted signal: right name, owner, type known, payload consistent with the listener's copy
    if (kind != "lop" or lopname in PRIMITIVE) and len(emitted) != 1:
        fail(f"C16/{lopname}/signal-count", opi, f"{op} emitted {len(emitted)} signals, exactly one describes this change")
    c = copy[i][n]
    for (ei, ename, eold, enew, etype, ekw) in emitted:
        tcode = TYPE_CODE.get(etype)
        site = f"C16/signal/{etype}"
        if ename != name or ei != i:
            fail(site + "/name", opi, f"{op}: signal emitted for {ename!r} on instance {ei}, the change was to {name!r} on instance {i}")
        if tcode is None or tcode not in EMITS[decl[n]["kind"]]:
            fail(site + "/type", opi, f"{op}: emitted signal type {etype!r} is not one this observable declares")
            continue
        ix = ekw.get("index", _MISSING)
        if set(ekw) - {"index"} or (tcode == 1) != (ix is _MISSING):
            fail(site + "/fields", opi, f"{op}: unexpected extra fields {sorted(ekw)} for a {etype!r} signal")
        try:
            if tcode == 1:
                if decl[n]["kind"] == "obs":
                    cur = c if c is not None else decl[n].get("fallback")
                    if eold != cur:
                        fail(site + "/old", opi, f"{op}: signal.old is {eold!r}, the value before the assignment was {cur!r}")
                    c = enew
                else:
                    cur = c if c is not None else []
                    if eold != cur:
                        fail(site + "/old", opi, f"{op}: signal.old is {eold!r}, the list before the assignment was {cur!r}")
                    c = list(enew)
            elif c is None:
                fail(site + "/index", opi, f"{op}: list signal although the list was never assigned")
            elif tcode == 2:
                if eold != c[ix]:
                    fail(site + "/old", opi, f"{op}: signal.old is {eold!r}, the listener's copy holds {c[ix]!r} at {ix}")
                c[ix] = enew
            elif tcode == 3:
                if eold != c[ix]:
                    fail(site + "/old", opi, f"{op}: signal.old is {eold!r}, the removed item(s) at {ix} were {c[ix]!r} (list before: {c})")
                if enew is not None:
                    fail(site + "/new", opi, f"{op}: signal.new is {enew!r} for a removal")
                del c[ix]
            elif tcode == 4:
                if eold is not None:
                    fail(site + "/old", opi, f"{op}: signal.old is {eold!r} for an insertion")
                c.insert(ix, enew)
            elif tcode == 5:
                if eold is not None:
                    fail(site + "/old", opi, f"{op}: signal.old is {eold!r} for an append")
                if ix != len(c):
                    fail(site + "/index", opi, f"{op}: signal.index is {ix!r}, the item went to position {len(c)}")
                c.append(enew)
        except (IndexError, TypeError, ValueError) as e:
            fail(site + "/index", opi, f"{op}: the listener cannot apply the signal (index {ix!r}, new {enew!r}) to its copy {c}: {type(e).__name__}")
    copy[i][n] = c
    if copy[i][n] != real[n]:
        fail("C16/replay/diverged", opi, f"after {op} a listener that applied the {len(emitted)} emitted signal(s) holds {copy[i][n]}, the real value is {real[n]}")
        copy[i][n] = (list(real[n]) if isinstance(real[n], list) else real[n])
    # --- deliveries: each emitted signal once to each live subscriber of (name, type), in subscription order
    exp = []
    for (ei, ename, eold, enew, etype, ekw) in emitted:
        tcode = TYPE_CODE.get(etype, -1)
        enc = [i, n, tcode] + _enc_val(eold) + _enc_val(enew) + _enc_idx(ekw.get("index", _MISSING))
        for h in orc.ledger[i].get((n, tcode), []):
            if h in alive:
                exp.append((h, enc))
    got = [(hid, enc_signal(sig)) for hid, sig in log]
    gh, eh = [h for h, _ in got], [h for h, _ in exp]
    if sorted(gh) != sorted(eh):
        fail("C16/notify/wrong-recipients", opi,
             f"{op}: handlers called {gh}; the live subscribers of the emitted signals {[(e[1], e[4]) for e in emitted]} are {eh}")
    elif gh != eh:
        fail("C16/notify/wrong-order", opi, f"{op}: handlers called in order {gh}, subscription order is {eh}")
    elif got != exp:
        bad = next((g, e) for g, e in zip(got, exp) if g != e)
        fail("C16/notify/payload-altered", opi, f"{op}: handler {bad[0][0]} received {bad[0][1]}, the emitted signal encodes as {bad[1][1]} "
             "(owner, name, type, old, new, index)")
    for hid, sig in log:
        keys = set(sig.keys())
        want = {"name", "old", "new", "owner", "type"}
        if not (keys == want or keys == want | {"index"}):
            fail("C16/signal/fields", opi, f"{op}: signal carries fields {sorted(keys)}")
            break
    return status, ret


# ------------------------------------------------------------------ model side
def _oz(v):
    return L.opt(None if v is None else L.z(v))


def _slot(d, v):
    if d["kind"] == "obs":
        return f"SObs {_oz(v)} {_oz(d.get('fallback'))}"
    return "SList " + L.opt(None if v is None else L.zlist(v))


def _target(nm):
    return "TAll" if nm == "all" else f"(TName {L.z(nm)})"


def _tsel(ty):
    return "SAll" if ty == "all" else f"(SType {L.z(ty)})"


def _lop(lop):
    k = lop[0]
    if k == "append":
        return f"(LAppend {L.z(lop[1])})"
    if k == "insert":
        return f"(LInsert {L.z(lop[1])} {L.z(lop[2])})"
    if k == "setitem":
        return f"(LSetItem {L.z(lop[1])} {L.z(lop[2])})"
    if k == "setslice":
        a, b, c = lop[1]
        return f"(LSetSlice {_oz(a)} {_oz(b)} {_oz(c)} {L.zlist(lop[2])})"
    if k == "delitem":
        return f"(LDelItem {L.z(lop[1])})"
    if k == "delslice":
        a, b, c = lop[1]
        return f"(LDelSlice {_oz(a)} {_oz(b)} {_oz(c)})"
    if k == "pop":
        return f"(LPop {_oz(lop[1])})"
    if k == "remove":
        return f"(LRemove {L.z(lop[1])})"
    if k == "extend":
        return f"(LExtend {L.zlist(lop[1])})"
    if k == "extendself":
        return "LExtendSelf"
    if k == "iadd":
        return f"(LIAdd {L.zlist(lop[1])})"
    if k == "reverse":
        return "LReverse"
    if k == "clear":
        return "LClear"
    raise ValueError(k)


def _entry(kind, fb=None):
    return {"obs": f"EObs {_oz(fb)}", "list": "EList", "plain": "EPlain"}[kind]


def _mro(case):
    """vars(Sub), vars(Base) in definition order, as _build_class creates them (most derived first)"""
    if case.get("hier"):
        return L.lst([L.lst([L.pair(L.z(n), _entry(kind, fb)) for n, kind, fb in cls_ns])
                      for cls_ns in _hier_namespaces(case["hier"])])
    base, sub = [], []
    for i, d in enumerate(case["decl"]):
        own = L.pair(L.z(i), _entry(d["kind"], d.get("fallback")))
        if d.get("override"):
            base.append(L.pair(L.z(i), _entry(d["override"])))
            sub.append(own)
        elif d["where"] == "base":
            base.append(own)
        else:
            sub.append(own)
    for x in case.get("extra", []):
        base.append(L.pair(L.z(x["id"]), _entry(x["base"])))
        sub.append(L.pair(L.z(x["id"]), "EPlain"))
    return L.lst([L.lst(sub), L.lst(base)])


def _haction(a, t):
    return {"obs": f"HObserve {L.z(t)}", "unobs": f"HUnobserve {L.z(t)}"}.get(a, "HNop")


def coq_case(case):
    if "uc" in case:
        return "Plain2 {| c_mro := []; c_vals := []; c_ops := [] |}"
    if "hx" in case:          # oracle-only (never evaluated by the model): a placeholder keeps replay files well formed
        return "Plain2 {| c_mro := []; c_vals := []; c_ops := [] |}"
    if "re" in case and case["re"].get("assign"):
        def act(x):
            if x[1] == "assign":
                return f"AAssignIf {L.z(x[2])} {L.z(x[3])}"
            return {"obs": f"AObserve {L.z(x[2])}", "unobs": f"AUnobserve {L.z(x[2])}"}.get(x[1], "ANop")
        sc = L.lst([L.pair(L.z(x[0]), act(x)) for x in case["re"]["script"]])
        vals = L.zlist(list(range(1, len(case["ops"]) + 1)))
        return (f"ReentrantAssign {{| rc2_subs := {L.zlist(case['re']['subs'])}; rc2_script := {sc}; rc2_init := 0; "
                f"rc2_values := {vals} |}}")
    if "re" in case:
        sc = L.lst([L.pair(L.z(h), _haction(a, t)) for h, a, t in case["re"]["script"]])
        return (f"Reentrant2 {{| rc_subs := {L.zlist(case['re']['subs'])}; rc_script := {sc}; "
                f"rc_rounds := {len(case['ops'])} |}}")
    return "Plain2 " + _coq_plain(case)


def _coq_plain(case):
    decl = case["decl"]
    insts = L.lst([L.lst([_slot(d, v) for d, v in zip(decl, row)]) for row in case["init"]])
    groups = {}
    for hid, _, gid in case["handlers"]:
        groups.setdefault(gid, []).append(hid)
    def one(op):
        k = op[0]
        if k == "observe":
            return f"Observe {L.z(op[1])} {_target(op[2])} {_tsel(op[3])} {L.z(op[4])}"
        if k == "unobserve":
            return f"Unobserve {L.z(op[1])} {_target(op[2])} {_tsel(op[3])} {L.z(op[4])}"
        if k == "clear":
            return f"ClearAll {L.z(op[1])} {_target(op[2])}"
        if k == "assign":
            return f"Assign {L.z(op[1])} {L.z(op[2])} {L.z(op[3])}"
        if k == "assignlist":
            return f"AssignList {L.z(op[1])} {L.z(op[2])} {L.zlist(op[3])}"
        if k == "lop":
            return f"ListOp {L.z(op[1])} {L.z(op[2])} {_lop(op[3:])}"
        if k == "kill":
            return f"Kill {L.zlist(groups.get(op[1], []))}"
        raise ValueError(k)

    # runs of subscriptions / deaths of consecutive handlers are printed as  map (fun k => ...) (zrange a b)
    allops = case["ops"]
    segs, plain, j = [], [], 0

    def flush():
        if plain:
            segs.append(L.lst(list(plain)))
            del plain[:]
    while j < len(allops):
        op = allops[j]
        e = j
        if op[0] in ("observe", "unobserve"):
            while e + 1 < len(allops) and allops[e + 1][:4] == op[:4] and allops[e + 1][4] == allops[e][4] + 1:
                e += 1
            if e - j >= 3:
                flush()
                ctor = "Observe" if op[0] == "observe" else "Unobserve"
                segs.append(f"(map (fun k => {ctor} {L.z(op[1])} {_target(op[2])} {_tsel(op[3])} k) (zrange {L.z(op[4])} {L.z(allops[e][4])}))")
                j = e + 1
                continue
        if op[0] == "kill" and len(groups.get(op[1], [])) == 1 and j + 2 < len(allops):
            h0 = groups[op[1]][0]
            step = None
            while e + 1 < len(allops) and allops[e + 1][0] == "kill" and len(groups.get(allops[e + 1][1], [])) == 1:
                d = groups[allops[e + 1][1]][0] - groups[allops[e][1]][0]
                if step is None and d >= 1:
                    step = d
                if d != step:
                    break
                e += 1
            if e - j >= 3:
                flush()
                segs.append(f"(map (fun k => Kill [{L.z(h0)} + {step} * k]) (zrange 0 {e - j}))")
                j = e + 1
                continue
        plain.append(one(op))
        j += 1
    flush()
    ops_text = "(" + " ++ ".join(segs) + ")" if segs else "[]"
    return f"{{| c_mro := {_mro(case)}; c_vals := {insts}; c_ops := {ops_text} |}}"


def op_kinds(case):
    if "uc" in case:
        return ["usercode." + "+".join(sorted(a[0] for a in r["acts"].values())) for r in case["ops"]]
    if "hx" in case:
        return ["values." + (op[2] if op[0] == "lop" else op[0]) for op in case["ops"]]
    if "re" in case:
        return ["reentrant-assign-round" if case["re"].get("assign") else "reentrant-round"] * len(case["ops"])
    out = []
    for op in case["ops"]:
        if op[0] == "lop":
            out.append("list." + op[3])
        elif op[0] in ("observe", "unobserve"):
            out.append(f"{op[0]}({'All' if op[2] == 'all' else 'name'},{'All' if op[3] == 'all' else 'type'})")
        else:
            out.append(op[0])
    return out


def nontrivial(case):
    if "uc" in case:
        return len(case["ops"]) >= 2
    if "hx" in case:
        return len(case["ops"]) >= 3
    if "re" in case:
        return len(case["ops"]) >= 2 and bool(case["re"]["script"])
    n = 0
    for o in case.get("_obs", []):
        if len(o) > 2 and o[0] == 0:
            j = 2 if o[1] == 0 else (3 if o[1] == 1 else None)
            if j is not None and j < len(o) and o[j] > 0:
                n += 1
    return len(case["ops"]) >= 3 and n >= 1


LEVEL_TEXT = ("Machine-checked Coq theorems (32, closed under the global context) over executable Gallina models of mesa_signals: "
              "Model/Signals.v transcribes observe / unobserve / clear_all_subscriptions / notify / _mesa_notify, Observable.__set__, "
              "ObservableList.__set__, the SignalingList mutators, the six mutators inherited from collections.abc.MutableSequence and "
              "dict(descriptor_generator(self)) over a class hierarchy.  For EVERY history from the start of every case: the live registry "
              "equals the ledger of subscriptions the history implies, All expanded in either position (C16_registry_is_ledger); every emitted "
              "signal is delivered once per subscription to each live subscriber of its (name, type) in subscription order with owner, name, "
              "type, old, new, index (C16_exactly_subscribers, C16_payload); a listener subscribed All/All from the start that applies what it "
              "receives holds exactly the real values of all observables after every operation (C16_listener_replay; C16_replay, "
              "C16_list_op_spec: all 13 mutators as Coq list functions, reverse = rev); unobserve / clear / death silence a handler; observe is "
              "rejected exactly for an unknown observable or signal type and every raising operation leaves the whole state unchanged "
              "(C16_unknown_rejected, C18_signals_atomic); the hash order of the signal-type sets cannot show in any observation of any run "
              "(C16_type_order_irrelevant_runs); the effective kind of an attribute is its most derived definition "
              "(C16_observables_most_derived).  Code-level T1: the bodies of observe / unobserve / clear_all_subscriptions / _mesa_notify, "
              "of the four SignalingList mutators and of the six stdlib mutators are translated from the working tree / the running interpreter "
              "on every run (19 T1 constructs) and proved equal to the model by bridge lemmas (Proofs/SignalsBridge.v: C16_source_code_is_model, "
              "C16_source_list_code_is_model, C16_source_derived_code_is_model), with the headline restated on the translated code "
              "(C16_observe_exact_of_source, C16_notify_exact_of_source, C16_reverse_reverses_of_source).  T2: model vs implementation on "
              "random and corpus histories incl. re-entrant handlers; an independent oracle (ledger, plain-Python shadow, replaying listener) "
              "states the property on the implementation, with an oracle-only stream for non-integer values and objects.")
LEVEL_NOTE = ("Theorems are about the models; the tie to the code is T1 (translation + bridge lemmas + normalised skeletons) and T2.  Found on the "
              "unchanged tree and fixed in /repo: observe(All, All) / observe(All, type) narrowing and partial subscription (#23, also C18), "
              "unobserve(All, All) leaving subscriptions (#24), the remove signal carrying the mutated list as old (#25), an overriding "
              "observable registered with the overridden one's signal types.  Recorded, outside the quantifier, not judged: an unobserve made by a "
              "handler during the notification of the same (name, type) is overwritten (C16_unobserve_silences_reentrant_refuted); a nested "
              "assignment from a handler is delivered first and the outer store wins.  Oracle-only: values other than ints, falsy objects / "
              "owners, shared and caller-owned lists, late instances, continuation after a raising handler.  Not covered: Computable / Computed "
              "(C17), _register_signal_emitter, callables other than functions and bound methods, more than one user class hierarchy shape per "
              "case.  No axioms.")
TECHNIQUE = ("Coq proofs (induction over histories, refinement to a per-key ledger, loop invariants, simulation under permuted tables; closed under the "
             "global context) + code-level T1 (source bodies translated to Gallina, bridge lemmas) + vm_compute correspondence + independent oracle")
DESIGN_REF = "DESIGN.md section 4, C16 (and C18 site observe)"
