"""C04 - one activation (do / shuffle_do / map, GroupBy.do / map) calls each surviving member exactly
once, even when the callbacks create and remove agents.  Model: Model/Activation.v.

A history is a list of ops (JSON lists):
  ["act", A]                                   the program itself, outside any activation
  ["newset", [ids]]                            AgentSet([agents with those ids still alive], random=model.random)
  ["collect"]                                  gc.collect()
  ["activate", kind, form, sref, script, args, kwargs]
  ["group", kind, outer, byform, sref, m, script, args, kwargs]
with  A      = ["nop"] | ["rmself", keep] | ["rm", id, keep] | ["create", cls, n, keep] | ["drop", id] | ["add", id]
      kind   = "do" | "shuffle_do" | "map";  form = "name" | "callable"
      sref   = ["all"] | ["type", c] | ["user", k]
      script = [[id, [A, ...]], ...]           what agent `id` does on its turn
The program's references (`ext`) are real references kept in a list by the driver; agents are reached through a
WeakValueDictionary so that the driver itself never keeps anything alive.
"""
import itertools

import coqlit as L

ID = "C04"
COQ_PROPERTY_FILE = "Properties/C04.v"
COQ_DEPS = ["Common/ListX.v", "Model/Activation.v", "Proofs/ActivationProofs.v"]
COQ_IMPORTS = "From Mesa Require Import Model.Activation."
COQ_CASE_TYPE = "case"
COQ_RUN = "run_case"
TABLE_CONSTRUCTS = []
ENUM_ALWAYS = False
RULE = ("histories = one Model; top-level creation/removal/reference keeping of agents of 3 classes, program-made "
        "AgentSets in arbitrary order, then 1-4 activations (do/shuffle_do/map by method name or callable, on "
        "model.agents, agents_by_type[c] or a program-made set, or through groupby(...).do/map) whose per-agent scripts "
        "do nothing / remove self / remove an earlier or later or dead agent (reference kept or not) / create agents / "
        "drop or take references; ALL one-act scripts over sets of size <= 3 (4 thorough, and 4 in the enumerator) are run first; "
        "non-trivial = an activation that called >= 2 agents; distinct = SHA1 of the history")
TRUSTED_BASE = [
    "Coq 8.16.1 kernel (coqc); vm_compute used for the non-vacuity examples and for evaluating the model in the correspondence",
    "no axioms: Print Assumptions reports 'Closed under the global context' for every C04 theorem",
    "harness/props/C04.py driver+observer and the Gallina literal printer (T2, differential testing, not a proof)",
    "Model/Activation.v is a hand transcription of AgentSet.do/shuffle_do/map, GroupBy.do/map, Agent.__init__/remove, "
    "Model.register_agent/deregister_agent; CPython reference counting and WeakKeyDictionary are modelled "
    "(alive = registered or referenced by the program or bound to the activation frame's local), not verified",
    "random.shuffle is never modelled: the permutation it produced is recorded by a recording Random and passed to the model, "
    "which checks that it is a permutation of the snapshot",
    "Uint63 primitive hash only in scratch Cases files, never under a theorem",
]
ASSUMPTIONS = [
    "callbacks do not raise, do not start a nested activation and do not add/discard members of model-owned sets directly",
    "no reference cycles through agents (a cycle counts as 'the program still holds a reference')",
    "agents removed from the model while the program keeps a reference MAY be called (the statement allows it); the model says they are",
]
NCLS = 3
MAXCREATE = 3
KINDS = ["do", "shuffle_do", "map"]


# ------------------------------------------------------------------ generation
def _rand_act(rng, ids_hint, self_id=None, order=None):
    """one act; ids_hint = ids that probably exist"""
    r = rng.random()
    hi = max(ids_hint) if ids_hint else 1
    if r < 0.22:
        return ["nop"]
    if r < 0.40:
        return ["rmself", rng.random() < 0.3]
    if r < 0.72:
        if order and self_id in order and rng.random() < 0.8:
            i = order.index(self_id)
            if rng.random() < 0.6 and i + 1 < len(order):
                tgt = rng.choice(order[i + 1:])      # a later agent
            elif i > 0:
                tgt = rng.choice(order[:i])          # an earlier agent
            else:
                tgt = rng.choice(order)
        else:
            tgt = rng.randint(1, hi + 2)
        return ["rm", tgt, rng.random() < 0.35]
    if r < 0.86:
        return ["create", rng.randrange(NCLS), rng.randint(1, 2), rng.random() < 0.25]
    if r < 0.95:
        return ["drop", rng.randint(1, hi + 1)]
    return ["add", rng.randint(1, hi + 1)]


def _rand_script(rng, order, ids_hint, density):
    sc = []
    for a in order:
        if rng.random() < density:
            sc.append([a, [_rand_act(rng, ids_hint, a, order) for _ in range(rng.choice([1, 1, 1, 2, 3]))]])
    return sc


def _rand_case(rng, big=False):
    ops = []
    n0 = rng.randint(0, 9 if big else 6)
    nid = 0
    live = []      # rough shadow (top level only): ids registered
    held = []
    for _ in range(n0):
        keep = rng.random() < 0.3
        ops.append(["act", ["create", rng.randrange(NCLS), 1, keep]])
        nid += 1
        live.append(nid)
        if keep:
            held.append(nid)
    # some top-level churn
    for _ in range(rng.choice([0, 0, 1, 2])):
        if live:
            t = rng.choice(live)
            keep = rng.random() < 0.5
            ops.append(["act", ["rm", t, keep]])
            live.remove(t)
            if keep:
                held.append(t)
    usets = []
    for _ in range(rng.choice([0, 1, 1, 2])):
        pool = list(range(1, nid + 2))
        rng.shuffle(pool)
        ids = pool[:rng.randint(0, len(pool))]
        if ids and rng.random() < 0.3:
            ids.append(rng.choice(ids))
        ops.append(["newset", ids])
        alive = set(live) | set(held)
        seen = []
        for i in ids:
            if i in alive and i not in seen:
                seen.append(i)
        usets.append(seen)
    for _ in range(rng.randint(1, 4)):
        # choose a target set
        r = rng.random()
        if usets and r < 0.35:
            k = rng.randrange(len(usets))
            sref, order = ["user", k], list(usets[k])
        elif r < 0.55:
            sref, order = ["type", rng.randrange(NCLS)], list(live)
        else:
            sref, order = ["all"], list(live)
        hint = list(range(1, nid + 1)) or [1]
        density = rng.choice([0.0, 0.3, 0.6, 1.0])
        script = _rand_script(rng, order or hint, hint, density)
        args = [rng.randint(0, 9) for _ in range(rng.choice([0, 0, 1, 2]))]
        kwargs = [rng.randint(0, 9) for _ in range(rng.choice([0, 0, 1, 2]))]
        kind = rng.choice(KINDS)
        if rng.random() < 0.2:
            ops.append(["group", kind, rng.choice(["do", "map", "do-callable", "map-callable"]), rng.choice(["attr", "callable"]), sref,
                        rng.choice([1, 2, 2, 3]), script, args, kwargs])
        else:
            ops.append(["activate", kind, rng.choice(["name", "callable"]), sref, script, args, kwargs])
        # rough update of the shadow: count creations, forget removals (ids stay plausible targets)
        for _, acts in script:
            for a in acts:
                if a[0] == "create":
                    nid += a[2]
        if rng.random() < 0.25:
            ops.append(["collect"])
        if rng.random() < 0.3:
            ops.append(["act", _rand_act(rng, hint)])
    return {"ops": ops}


def _one_act_options(n, i):
    """acts agent number i (1-based id) of a set of size n may perform in the exhaustive sweep"""
    opts = [["nop"], ["rmself", False], ["rmself", True], ["create", 0, 1, False]]
    for j in range(1, n + 1):
        if j != i:
            opts.append(["rm", j, False])
            opts.append(["rm", j, True])
    return opts


def _enum_scripts(n):
    for combo in itertools.product(*[_one_act_options(n, i) for i in range(1, n + 1)]):
        yield [[i + 1, [a]] for i, a in enumerate(combo) if a != ["nop"]]


def _exhaustive(nmax, kinds, user_orders):
    for n in range(1, nmax + 1):
        setup = [["act", ["create", i % 2, 1, False]] for i in range(n)]
        for j, sc in enumerate(_enum_scripts(n)):
            # every kind for n <= 3; for n = 4 (10^4 scripts) the kinds take turns
            for kind in (kinds if n <= 3 else [kinds[j % len(kinds)]]):
                yield {"ops": setup + [["activate", kind, "name" if len(sc) % 2 else "callable", ["all"], sc, [], []]]}
            if user_orders and n >= 2 and (n <= 3 or j % 3 == 0):
                # a program-made set in reverse order: removal does not take the agent out of it
                rev = list(range(n, 0, -1))
                yield {"ops": setup + [["newset", rev], ["activate", kinds[len(sc) % len(kinds)], "callable", ["user", 0], sc, [1], [2]]]}


def gen_cases(rng, tier):
    cases = []
    # every one-act script over sets of size <= 2 (3 thorough), all kinds
    cases += list(_exhaustive(3 if tier == "quick" else 4, KINDS, True))
    n = 1500 if tier == "quick" else 15000
    for i in range(n):
        cases.append(_rand_case(rng, big=(i % 5 == 0)))
    return cases


def enumerate_cases(tier, broken=False):
    """ALL one-act scripts {nop, remove self (kept or not), remove any other member (kept or not), create 1}
    over model.agents of size <= 4, for do, shuffle_do and map, plus a reversed program-made set."""
    if tier == "thorough" and not broken:
        return  # gen_cases already ran (and compared with the model) every script over sets of size <= 4
    yield from _exhaustive(4, KINDS, True)


# ------------------------------------------------------------------ implementation side
_ENV = {}


def _env():
    """per-process: agent classes, recording Random"""
    if _ENV:
        return _ENV
    import gc
    import random

    import mesa

    ctx = {"cur": None}

    def _make(name):
        def __init__(self, model):
            mesa.Agent.__init__(self, model)
            self.g1 = 0
            self.g2 = self.unique_id % 2
            self.g3 = self.unique_id % 3

        def act(self, *a, **k):
            return ctx["cur"].call(self, a, k)

        return type(name, (mesa.Agent,), {"__init__": __init__, "act": act})

    classes = [_make(f"K{c}") for c in range(NCLS)]

    class RecRandom(random.Random):
        """random.Random that records what shuffle did (ids of the referents before and after)"""

        def shuffle(self, x):
            rec = ctx.get("rec")
            before = None
            if rec is not None:
                before = [_uid_of(r) for r in x]
            super().shuffle(x)
            if rec is not None:
                rec.append((before, [_uid_of(r) for r in x]))

    def _uid_of(r):
        o = r() if callable(r) else r
        u = getattr(o, "unique_id", -1) if o is not None else -1
        del o
        return u

    gc.collect()
    gc.freeze()
    _ENV.update(ctx=ctx, classes=classes, RecRandom=RecRandom, mesa=mesa)
    return _ENV


class _Run:
    def __init__(self, env):
        import weakref

        mesa = env["mesa"]
        self.env = env
        self.model = mesa.Model(seed=7)
        self.model.random.__class__ = env["RecRandom"]
        self.wv = weakref.WeakValueDictionary()
        self.ext = []            # the program's references (real ones)
        self.user_sets = []
        self.events = []         # ("call"|"rm"|"create", uid)
        self.removed_at = {}     # uid -> event index of its (first, effective) removal from the model
        self.created_at = {}
        self.registered = set()  # shadow: created and not yet removed through remove()
        self.script = {}
        self.calls = []          # (uid, event index, args, kwargs, held_by_program)
        self.token = None

    # --- what a callback / the program can do
    def exec_act(self, me, a):
        k = a[0]
        if k == "nop":
            return
        if k in ("rmself", "rm"):
            if k == "rmself":
                tgt, keep = me, a[1]
            else:
                tgt, keep = self.wv.get(a[1]), a[2]
            if tgt is not None:
                uid = tgt.unique_id
                tgt.remove()
                if uid in self.registered:
                    self.registered.discard(uid)
                    self.removed_at[uid] = len(self.events)
                    self.events.append(("rm", uid))
                if keep:
                    self.ext.append(tgt)
            del tgt
        elif k == "create":
            _, c, n, keep = a
            for _ in range(max(0, min(int(n), MAXCREATE))):
                ag = self.env["classes"][c % NCLS](self.model)
                uid = ag.unique_id
                self.wv[uid] = ag
                self.registered.add(uid)
                self.created_at[uid] = len(self.events)
                self.events.append(("create", uid))
                if keep:
                    self.ext.append(ag)
                del ag
        elif k == "drop":
            for j, o in enumerate(self.ext):
                if o.unique_id == a[1]:
                    del self.ext[j]
                    break
            o = None
        elif k == "add":
            t = self.wv.get(a[1])
            if t is not None:
                self.ext.append(t)
            del t
        else:
            raise ValueError(k)

    def call(self, agent, args, kwargs):
        uid = agent.unique_id
        held = any(o is agent for o in self.ext)
        self.calls.append((uid, len(self.events), args, kwargs, held))
        self.events.append(("call", uid))
        for a in self.script.get(uid, ()):
            self.exec_act(agent, a)
        return 2 * uid + 1

    # --- observation
    def resolve(self, sref):
        if sref[0] == "all":
            return self.model.agents
        if sref[0] == "type":
            return self.model.agents_by_type.get(self.env["classes"][sref[1] % NCLS])
        k = sref[1]
        return self.user_sets[k] if 0 <= k < len(self.user_sets) else None

    @staticmethod
    def ids(s):
        return [a.unique_id for a in s]

    def view(self):
        mesa = self.env["mesa"]
        nxt = int(repr(mesa.Agent._ids[self.model])[6:-1])
        out = [nxt, -10] + [a.unique_id for a in self.model._agents] + [-11] + sorted(o.unique_id for o in self.ext)
        out += [-20] + self.ids(self.model.agents)
        for c in range(NCLS):
            s = self.model.agents_by_type.get(self.env["classes"][c])
            out += [-21, c] + ([-23] if s is None else self.ids(s))
        for k, s in enumerate(self.user_sets):
            out += [-22, k] + self.ids(s)
        return out


def _subseq(small, big):
    it = iter(big)
    return all(any(x == y for y in it) for x in small)


def _check_activation(run, site, snap, expected_order, ev0, calls, failures, opi, ordered=True):
    """the property statement over what the implementation did during one activation.
    snap: ids of the members when the call started; expected_order: the order in which they are to be visited;
    calls: [(uid, time, args, kwargs, held)]"""
    log = [c[0] for c in calls]
    snapset = set(snap)
    tcall = {}
    for uid, t, _, _, _ in calls:
        if uid in tcall:
            failures.append({"key": f"C04/{site}/called-twice", "op": opi,
                             "what": f"agent {uid} was called twice in one {site}; calls in order: {log}; members at call start: {snap}"})
        tcall.setdefault(uid, t)
    for uid in tcall:
        if uid not in snapset:
            if run.created_at.get(uid, -1) >= ev0:
                failures.append({"key": f"C04/{site}/called-new-agent", "op": opi,
                                 "what": f"agent {uid} was created during the {site} call and was called by it; calls: {log}; members at call start: {snap}"})
            else:
                failures.append({"key": f"C04/{site}/called-non-member", "op": opi,
                                 "what": f"agent {uid} was not a member when {site} started but was called; calls: {log}; members: {snap}"})
    inlog = [u for u in log if u in snapset]
    if ordered and not _subseq(inlog, expected_order):
        what = "set order" if site.endswith("do") and "shuffle" not in site or "map" in site else "the order shuffle() produces from the same generator state"
        failures.append({"key": f"C04/{site}/order", "op": opi,
                         "what": f"{site} called agents in the order {log}; required: {what} = {expected_order} (minus agents gone before their turn)"})
        ordered = False   # turns cannot be placed on the required order any more: judge skipped members by the whole call
    # every member not removed from its model before its turn is called
    end = len(run.events)
    pos = {u: i for i, u in enumerate(expected_order)}
    for a in snap:
        if a in tcall:
            t = tcall[a]
            rem = run.removed_at.get(a)
            if rem is not None and rem < t:
                held = next(c[4] for c in calls if c[0] == a)
                if not held:
                    failures.append({"key": f"C04/{site}/called-removed-agent", "op": opi,
                                     "what": f"agent {a} had been removed from its model (event {rem}) and the program held no reference to it, yet {site} called it (event {t}); calls: {log}"})
            continue
        # its turn ends at the latest when the next called agent after it (in visiting order) is called
        if ordered and a in pos:
            later = [tcall[b] for b in expected_order[pos[a] + 1:] if b in tcall]
            turn_end = min(later) if later else end
        else:
            turn_end = end
        rem = run.removed_at.get(a)
        if rem is None or rem >= turn_end:
            failures.append({"key": f"C04/{site}/live-member-skipped", "op": opi,
                             "what": f"agent {a} was a member when {site} started and was still registered with its model when its turn came "
                                     f"(visiting order {expected_order}, removed at event {rem}, turn over by event {turn_end}) but was never called; calls: {log}"})


def run_impl(case):
    import gc

    env = _env()
    gc.disable()
    try:
        return _run_impl(env, case)
    finally:
        env["ctx"]["cur"] = None
        env["ctx"]["rec"] = None
        gc.enable()


def _args_ok(calls, args, kwargs, token):
    for uid, _, a, k, _ in calls:
        if tuple(a) != tuple(args) or set(k) != set(kwargs) | {"tok"} or any(k[n] != v for n, v in kwargs.items()) or k.get("tok") is not token:
            return uid, a, k
    return None


def _run_impl(env, case):
    import gc

    run = _Run(env)
    ctx = env["ctx"]
    ctx["cur"] = run
    obs, failures, ops_for_model = [], [], []
    for opi, op in enumerate(case["ops"]):
        kind = op[0]
        mop = op
        try:
            if kind == "act":
                run.exec_act(None, op[1])
                obs.append(run.view())
            elif kind == "newset":
                from mesa.agent import AgentSet

                ags = [run.wv.get(i) for i in op[1]]
                run.user_sets.append(AgentSet([a for a in ags if a is not None], random=run.model.random))
                del ags
                obs.append(run.view())
            elif kind == "collect":
                gc.collect()
                obs.append(run.view())
            elif kind == "activate":
                _, akind, form, sref, script, args, kwargs = op
                s = run.resolve(sref)
                if s is None:
                    obs.append([-2])
                else:
                    snap = run.ids(s)
                    rnd = run.model.random
                    expected = snap
                    if akind == "shuffle_do":
                        saved = rnd.getstate()
                        expected = run.ids(s.shuffle())       # what shuffle() produces from this generator state
                        rnd.setstate(saved)
                    run.script = {int(i): acts for i, acts in script}
                    run.calls = []
                    ev0 = len(run.events)
                    token = object()
                    kw = {f"k{j}": v for j, v in enumerate(kwargs)}
                    rec = ctx["rec"] = []
                    target = "act" if form == "name" else (lambda agent, *a, **k: run.call(agent, a, k))
                    res = getattr(s, akind)(target, *args, tok=token, **kw)
                    ctx["rec"] = None
                    calls = run.calls
                    run.script = {}
                    log = [c[0] for c in calls]
                    perm = expected
                    if akind == "shuffle_do":
                        if len(rec) == 1 and rec[0][0] == snap:
                            perm = rec[0][1]
                            if perm != expected:
                                failures.append({"key": "C04/shuffle_do/order", "op": opi,
                                                 "what": f"shuffle_do shuffled the members {snap} into {perm}; shuffle() from the same generator state gives {expected}"})
                        else:
                            failures.append({"key": "C04/shuffle_do/order", "op": opi,
                                             "what": f"shuffle_do did not shuffle one private list of its {len(snap)} members exactly once (recorded shuffles: {rec}); shuffle() from the same generator state gives {expected}"})
                    elif rec:
                        failures.append({"key": f"C04/{akind}/order", "op": opi,
                                         "what": f"{akind} consumed the generator (shuffles recorded: {rec}); it has to visit in set order {snap}"})
                    _check_activation(run, akind, snap, expected, ev0, calls, failures, opi)
                    bad = _args_ok(calls, args, kw, token)
                    if bad:
                        failures.append({"key": f"C04/{akind}/args", "op": opi,
                                         "what": f"{akind}(..., *{args}, **{kw}) called agent {bad[0]} with args {bad[1]} kwargs {sorted(bad[2])}"})
                    if akind == "map":
                        want = [2 * u + 1 for u in log]
                        if not isinstance(res, list) or res != want:
                            failures.append({"key": "C04/map/results", "op": opi,
                                             "what": f"map returned {res!r}; the callable returned {want} in call order"})
                        ret = [-31] + ([int(x) for x in res] if isinstance(res, list) and all(isinstance(x, int) for x in res) else [-99])
                    else:
                        if res is not s:
                            failures.append({"key": f"C04/{akind}/return", "op": opi, "what": f"{akind} returned {res!r}, not the set itself"})
                        ret = [-32] if res is s else [-99]
                    del res
                    after = run.ids(s)
                    aset = set(after)
                    rel_after = [a for a in after if a in set(snap)]
                    rel_snap = [a for a in snap if a in aset]
                    if rel_after != rel_snap:
                        failures.append({"key": f"C04/{akind}/set-order-changed", "op": opi,
                                         "what": f"the set's own order was {snap} before {akind} and is {after} after it: surviving members changed their relative order"})
                    full = list(args) + list(kwargs)
                    o = [-30]
                    for c in calls:
                        o += [c[0]] + [int(x) for x in c[2]] + [int(c[3][n]) for n in sorted(c[3]) if n != "tok" and isinstance(c[3][n], int)]
                    obs.append(o + ret + run.view())
                    mop = ["activate", akind, form, sref, script, full, [], perm]
            elif kind == "group":
                _, akind, outer, byform, sref, m, script, args, kwargs = op
                s = run.resolve(sref)
                if s is None or m not in (1, 2, 3):
                    obs.append([-2])
                else:
                    snap = run.ids(s)
                    run.script = {int(i): acts for i, acts in script}
                    run.calls = []
                    ev0 = len(run.events)
                    token = object()
                    kw = {f"k{j}": v for j, v in enumerate(kwargs)}
                    gb = s.groupby(f"g{m}") if byform == "attr" else s.groupby(lambda a: a.unique_id % m)
                    keys = list(gb.groups.keys())
                    want_groups = []
                    for a in snap:
                        k = a % m
                        for kk, lst in want_groups:
                            if kk == k:
                                lst.append(a)
                                break
                        else:
                            want_groups.append((k, [a]))
                    got_groups = [(k, run.ids(v)) for k, v in gb.groups.items()]
                    if got_groups != want_groups:
                        failures.append({"key": "C04/groupby/groups", "op": opi,
                                         "what": f"groupby on members {snap} by id mod {m} gave {got_groups}; required (first-seen key order, set order inside) {want_groups}"})
                    rec = ctx["rec"] = []
                    if outer.endswith("-callable"):
                        inner = (lambda agent, *a, **k: run.call(agent, a, k))
                        res = getattr(gb, outer[:-9])(lambda grp, *a, **k: getattr(grp, akind)(inner, *a, **k), *args, tok=token, **kw)
                    else:
                        res = getattr(gb, outer)(akind, "act", *args, tok=token, **kw)
                    outer = outer.split("-")[0]
                    ctx["rec"] = None
                    calls = run.calls
                    run.script = {}
                    log = [c[0] for c in calls]
                    site = f"groupby-{akind}"
                    perms = []
                    if akind == "shuffle_do":
                        # one recorded shuffle per group, in group order
                        ok = len(rec) == len(want_groups) and all(sorted(b) == sorted(x for x in g if x in set(b)) and set(b) <= set(g)
                                                                  for (b, _), (_, g) in zip(rec, want_groups))
                        if ok:
                            perms = [a for _, a in rec]
                            expected = [x for p in perms for x in p]
                            _check_activation(run, site, snap, expected, ev0, calls, failures, opi)
                        else:
                            failures.append({"key": f"C04/{site}/order", "op": opi,
                                             "what": f"GroupBy.{outer}('shuffle_do') over groups {want_groups} recorded the shuffles {rec}: not one shuffle of each group's live members, in group order"})
                            _check_activation(run, site, snap, snap, ev0, calls, failures, opi, ordered=False)
                    else:
                        expected = [x for _, g in want_groups for x in g]
                        if rec:
                            failures.append({"key": f"C04/{site}/order", "op": opi, "what": f"{site} consumed the generator: {rec}"})
                        _check_activation(run, site, snap, expected, ev0, calls, failures, opi)
                    bad = _args_ok(calls, args, kw, token)
                    if bad:
                        failures.append({"key": f"C04/{site}/args", "op": opi,
                                         "what": f"GroupBy.{outer}({akind!r}, 'act', *{args}, **{kw}) called agent {bad[0]} with args {bad[1]} kwargs {sorted(bad[2])}"})
                    # group-level result
                    per_group = {k: [] for k, _ in want_groups}
                    for u in log:
                        per_group.setdefault(u % m, []).append(u)
                    if outer == "do":
                        if res is not gb:
                            failures.append({"key": "C04/groupby-do/return", "op": opi, "what": f"GroupBy.do returned {res!r}, not the GroupBy itself"})
                    else:
                        okres = isinstance(res, dict) and list(res.keys()) == keys
                        if okres:
                            for k in keys:
                                if akind == "map":
                                    okres = okres and res[k] == [2 * u + 1 for u in per_group.get(k, [])]
                                else:
                                    okres = okres and res[k] is gb.groups[k]
                        if not okres:
                            failures.append({"key": "C04/groupby-map/results", "op": opi,
                                             "what": f"GroupBy.map({akind!r}) returned {res!r}; required one entry per group {keys} holding that group's result"})
                    del res, gb
                    full = list(args) + list(kwargs)
                    o = []
                    for k in keys:
                        o += [-34, k]
                        for u in per_group.get(k, []):
                            o += [u] + full
                        o += ([-31] + [2 * u + 1 for u in per_group.get(k, [])]) if akind == "map" else [-32]
                    # calls that belong to no group of the snapshot would be invisible above: flag them in the observation
                    if any((u % m) not in keys for u in log):
                        o += [-99]
                    obs.append(o + run.view())
                    mop = ["group", akind, outer, byform, sref, m, script, full, [], perms]
            else:
                raise ValueError(kind)
        except Exception as e:  # noqa: BLE001
            ctx["rec"] = None
            run.script = {}
            obs.append([-1, 99])
            site = op[1] if kind in ("activate", "group") else kind
            failures.append({"key": f"C04/{site}/unexpected-exception", "op": opi,
                             "what": f"{op} raised {type(e).__name__}: {e}"})
        ops_for_model.append(mop)
    ctx["cur"] = None
    # Agent._ids is a class-level dict keyed by model: forget this model so that it can be freed
    env["mesa"].Agent._ids.pop(run.model, None)
    return {"obs": obs, "failures": failures, "ops_for_model": ops_for_model}


# ------------------------------------------------------------------ model side
def _act(a):
    k = a[0]
    if k == "nop":
        return "Nop"
    if k == "rmself":
        return f"RemoveSelf {L.b(a[1])}"
    if k == "rm":
        return f"RemoveId {L.z(a[1])} {L.b(a[2])}"
    if k == "create":
        return f"Create {L.z(a[1] % NCLS)} {L.z(max(0, min(int(a[2]), MAXCREATE)))} {L.b(a[3])}"
    if k == "drop":
        return f"DropRef {L.z(a[1])}"
    if k == "add":
        return f"AddRef {L.z(a[1])}"
    raise ValueError(k)


def _sref(s):
    if s[0] == "all":
        return "SAll"
    if s[0] == "type":
        return f"(SType {L.z(s[1] % NCLS)})"
    return f"(SUser {L.z(s[1])})"


def _script(sc):
    # the driver's dict keeps the LAST entry for an id; the model's assoc lookup takes the first
    d = {}
    for i, acts in sc:
        d[int(i)] = acts
    return L.lst([L.pair(L.z(i), L.lst([_act(a) for a in acts])) for i, acts in d.items()])


_K = {"do": "KDo", "shuffle_do": "KShuffleDo", "map": "KMap"}


def coq_case(case):
    ops = case.get("_ops_for_model") or case["ops"]
    out = []
    for op in ops:
        k = op[0]
        if k == "act":
            out.append(f"OAct ({_act(op[1])})")
        elif k == "newset":
            out.append(f"ONewSet {L.zlist(op[1])}")
        elif k == "collect":
            out.append("OCollect")
        elif k == "activate":
            _, akind, form, sref, script, args, kwargs = op[:7]
            perm = op[7] if len(op) > 7 else []
            out.append(f"OActivate {_K[akind]} {_sref(sref)} {L.zlist(perm)} {_script(script)} {L.zlist(list(args) + list(kwargs))}")
        elif k == "group":
            _, akind, outer, byform, sref, m, script, args, kwargs = op[:9]
            perms = op[9] if len(op) > 9 else []
            out.append(f"OGroup {_K[akind]} {_sref(sref)} {L.z(m if m in (1, 2, 3) else 0)} {L.lst([L.zlist(p) for p in perms])} {_script(script)} {L.zlist(list(args) + list(kwargs))}")
        else:
            raise ValueError(k)
    return L.lst(out)


def op_kinds(case):
    out = []
    for op in case["ops"]:
        if op[0] == "activate":
            out.append(f"{op[1]}/{op[2]}/{op[3][0]}")
        elif op[0] == "group":
            out.append(f"groupby.{op[2]}({op[1]})/{op[3]}")
        elif op[0] == "act":
            out.append("program:" + op[1][0])
        else:
            out.append(op[0])
    return out


def nontrivial(case):
    for op, o in zip(case["ops"], case.get("_obs", [])):
        if op[0] in ("activate", "group") and o and o[0] in (-30, -34):
            # at least two calls
            if op[0] == "activate":
                width = 1 + len(op[5]) + len(op[6])
                end = next(i for i, v in enumerate(o) if v in (-31, -32))
                if (end - 1) // width >= 2:
                    return True
            else:
                return True
    return False


LEVEL_TEXT = ("Machine-checked Coq theorems over a Gallina transcription of AgentSet.do/shuffle_do/map, GroupBy.do/map and the "
              "registry they run on, with CPython reference counting explicit (registered / referenced by the program / bound to "
              "the activation frame): for ALL states satisfying the registry invariant, ALL callback scripts and ALL shuffle "
              "outcomes, one activation calls no agent twice, calls only members of the snapshot, in set order (in the shuffled "
              "order for shuffle_do), calls exactly those alive at their turn - in particular every member still registered at "
              "its turn, and never one that is dead - never calls an agent created during the call, and leaves the relative "
              "order of the set untouched.  The model is tied to the code by differential evaluation on all one-act scripts over "
              "small sets and on random churn histories (T2); an independent oracle states the property on the implementation.")
LEVEL_NOTE = ("Theorems are about the model; CPython's refcounting/weakref semantics are modelled, not verified; 'shuffle_do visits "
              "in the order shuffle() would produce' is checked implementation-against-implementation. No axioms.")
TECHNIQUE = "Coq proof (induction over visiting order / op lists, state invariants; closed under global context) + vm_compute correspondence + oracle"
DESIGN_REF = "DESIGN.md section 4, C04"
