"""C04 - one activation (do / shuffle_do / map, GroupBy.do / map) calls each surviving member exactly
once, even when the callbacks create and remove agents.  Model: Model/Activation.v.

A history is a list of ops (JSON lists):
  ["act", A]                                   the program itself, outside any activation
  ["newset", [ids]]                            AgentSet([agents with those ids still alive], random=model.random)
  ["collect"]                                  gc.collect()
  ["activate", kind, form, sref, script, args, kwargs, scripts?]     scripts = one script per further nesting level
  ["group", kind, outer, byform, sref, m, script, args, kwargs, scripts?]
  ["grouplist", outer, byform, sref, m, script, args, kwargs, scripts?]   groupby(result_type="list").do/map(callable)
  ["groupcount" | "groupagg", byform, sref, m]  groupby(...).count() / .agg("unique_id", sum)
  ["space", kind]                               the agents live in a legacy ContinuousSpace / SingleGrid / MultiGrid / NetworkGrid / a
                                                discrete_space grid (CellAgents); removers look around and take the victim out first
  ["foreignset", n, order]                      a second model with n agents + a set mixing both models (oracle only)
with  A      = ["nop"] | ["rmself", keep] | ["rm", id, keep] | ["create", cls, n, keep] | ["drop", id] | ["add", id]
               | ["raise"]                      the callback raises (the activation is aborted)
               | ["nested", kind, sref]         the callback itself calls sref.do/shuffle_do/map; agents called there run the next script
               | ["trynested", kind, sref]      the same inside try: ... except Exception: pass
      kind   = "do" | "shuffle_do" | "map" | "shuffle_then_do" (= set.shuffle().do(...)) | "copy_<kind>" (on copy.copy(set) /
               set.select(), a copy nothing else refers to);  form = "name" | "callable"
      sref   = ["all"] | ["type", c] | ["user", k]
      script = [[id, [A, ...]], ...]           what agent `id` does on its turn
The program's references (`ext`) are real references kept in a list by the driver; agents are reached through a
WeakValueDictionary so that the driver itself never keeps anything alive.
"""
import itertools

import coqlit as L

ID = "C04"
COQ_PROPERTY_FILE = "Properties/C04.v"
COQ_DEPS = ["Common/ListX.v", "Generated/Tables.v", "Model/Activation.v", "Model/ActivationCode.v",
            "Proofs/ActivationProofs.v", "Proofs/ActivationBridge.v"]
COQ_IMPORTS = "From Mesa Require Import Model.Activation."
COQ_CASE_TYPE = "case"
COQ_RUN = "run_case"
TABLE_CONSTRUCTS = ["agentset_do_code", "agentset_shuffle_do_code", "agentset_map_code", "groupby_do_code", "groupby_map_code",
                    "groupby_count_code", "groupby_agg_code", "agentset_shuffle_groupby_skeleton",
                    # extracted by harness/tables/registry.py (C02 builder), reused here
                    "agent_first_id", "deregister_order", "register_order", "remove_suppresses_keyerror"]
ENUM_ALWAYS = False
RULE = ("histories = one Model; agents of 3 classes (a plain one; Agent + a mixin after the framework base in the MRO whose instances are "
        "FALSE in a boolean context; a subclass of that subclass with len() == 0) are created / removed / referenced by the program, "
        "program-made AgentSets in arbitrary order, then 1-4 activations: do / shuffle_do / map / set.shuffle().do / the same on a copy "
        "nothing else refers to (copy.copy(set), set.select()), on model.agents, agents_by_type[c] or a program-made set, or through "
        "groupby(...).do/map (AgentSet groups, by method name or callable at both levels), groupby(result_type='list').do/map(callable), "
        "groupby(...).count()/agg(); `method` is given as str, str subclass, function, callable object, functools.partial, by keyword, "
        "a bound method of another object, a plain function taken from a class, or as an unknown method name (rejected call, history "
        "continues); the Model is a subclass overriding register_agent/deregister_agent (calling super()); agents of class K1/K2 assign "
        "their own colliding unique_id after Agent.__init__, K2 has value-based __eq__/__hash__ and is iterable; callbacks raise subclasses "
        "of StopIteration, GeneratorExit, IndexError, KeyError, AttributeError, TypeError, RuntimeError, ... which the caller (or an "
        "enclosing callback) catches, after which the history continues (user code is passed to the model as explicit script acts); every call also carries the keyword xv = None / float / inf / "
        "str / nested tuple / bool / ints beyond 2^63 / list / dict / set / Decimal / Fraction / numpy scalars and arrays / bytes / empty "
        "values, which must arrive as the same object, unchanged; per-agent scripts do nothing / remove self / remove an earlier, later or "
        "dead agent (reference kept or not) / create agents / drop or take references / raise / start a nested do, shuffle_do or map "
        "(inside try/except or not) on any set, up to 4 nesting levels; 45% of the activations stay inside the statement's own quantifier "
        "(no raise, no nesting); populations of 0-9 agents, occasionally 20-30; ALL one-act scripts (incl. raise) over sets of size <= 3 "
        "(4 thorough) and a nested-activation sweep run first; oracle-only streams: sets mixing agents of a second model, abandoned "
        "iterators (dead references stay in the key list); non-trivial = an activation that called >= 2 agents; distinct = SHA1 of the history")
TRUSTED_BASE = [
    "Coq 8.16.1 kernel (coqc); vm_compute for the non-vacuity examples, the per-function code facts and the correspondence",
    "no axioms: Print Assumptions reports 'Closed under the global context' for all 34 C04 theorems (coqchk: none)",
    "harness/tables/activation_code.py + harness/pyexpr.py (T1, code level): AgentSet.do/shuffle_do/map and GroupBy.do/map are "
    "re-translated from the working tree on every run into act_fn records (branch condition and liveness guard as boolean functions "
    "via pyexpr, iterated source: weak keyrefs snapshot / private shuffled copy / strong list, call form, *args/**kwargs forwarding, "
    "return value), GroupBy.count/agg into grp_comp records, AgentSet.shuffle/groupby as statement skeletons modulo local names, "
    "docstrings and formatting; the truth value of an agent is NOT accepted as a liveness test; harness/tables/registry.py (C02 builder) "
    "supplies first id, KeyError suppression and the statement orders of register_agent/deregister_agent",
    "harness/props/C04.py driver+observer and the Gallina literal printer (T2, differential testing, not a proof)",
    "Model/Activation.v (registry, weak sets, frame stack, executors of any nesting depth, list groups, count/agg) and "
    "Model/ActivationCode.v (meaning of the generated records, statement-wise register/deregister) are hand-written; CPython reference "
    "counting and WeakKeyDictionary are modelled (alive = registered, or referenced by the program, or bound in a running activation "
    "frame, or held by a strong container), not verified",
    "random.shuffle is never modelled: the permutation it produced is recorded by a recording Random and passed to the model, which checks "
    "that it is a permutation of the snapshot; 'the order shuffle() would produce' is compared implementation against implementation "
    "(cloned random.getstate()) on every shuffle_do / shuffle().do / nested shuffle_do",
    "Uint63 primitive hash only in scratch Cases files, never under a theorem",
]
ASSUMPTIONS = [
    "callbacks do not add/discard members of model-owned sets directly and do not rebind set._agents",
    "an exception raised by a callback leaves every running activation unless a callback catches it around a nested activation "
    "(try: set.do(...) except Exception: pass); other try blocks inside callbacks contain nothing of Mesa's",
    "below the outermost callback level nested activations are do / map only (a recorded shuffle permutation cannot be attached to an "
    "act that may run several times)",
    "no reference cycles through agents (a cycle counts as 'the program still holds a reference')",
    "agents removed from the model while the program (its lists, a running callback of that agent, a GroupBy holding lists, a suspended "
    "iterator) keeps a reference MAY be called (the statement allows it); the model says they are, the oracle does not demand it",
    "sets mixing agents of two models and histories with an abandoned iterator are checked by the oracle only (the Gallina model has one "
    "registry and no deferred removals)",
    "all agent classes define the method used for by-name activation (an unknown method name is driven as a rejected call)",
]
# the source functions Model/Activation.v transcribes (finer escalation than the per-class default)
SOURCE_FUNCS = [("mesa/agent.py", "AgentSet.do"), ("mesa/agent.py", "AgentSet.shuffle_do"), ("mesa/agent.py", "AgentSet.map"),
                ("mesa/agent.py", "AgentSet.shuffle"), ("mesa/agent.py", "AgentSet.groupby"), ("mesa/agent.py", "AgentSet.__init__"),
                ("mesa/agent.py", "AgentSet.add"), ("mesa/agent.py", "AgentSet.remove"),
                ("mesa/agent.py", "GroupBy.do"), ("mesa/agent.py", "GroupBy.map"),
                ("mesa/agent.py", "Agent.__init__"), ("mesa/agent.py", "Agent.remove"),
                ("mesa/model.py", "Model.register_agent"), ("mesa/model.py", "Model.deregister_agent")]
NCLS = 3
MAXCREATE = 3
SCALE_MAX = 5000          # "createn": populations of the scale stream
SCALE_MODEL_MAX = 300     # above this population a history is run on the implementation + oracle only (the model's sweeps are quadratic)
SPACE_KINDS = ["continuous", "multi", "single", "network", "cells", "continuous"]
SCALE_SIZES = [255, 256, 257, 512, 513, 1024, 1025, 2048, 2049]
KINDS = ["do", "shuffle_do", "map"]


# ------------------------------------------------------------------ generation
def _rand_sref(rng, nuser=2):
    r = rng.random()
    if r < 0.5:
        return ["all"]
    if r < 0.75:
        return ["type", rng.randrange(NCLS)]
    return ["user", rng.randrange(max(1, nuser))]


def _rand_act(rng, ids_hint, self_id=None, order=None, level=None):
    """one act; ids_hint = ids that probably exist; level 1 = callback of the op's activation (may nest / raise),
    level 2 = callback of a nested activation (may raise)"""
    r = rng.random()
    hi = max(ids_hint) if ids_hint else 1
    if level == 1 and rng.random() < 0.12:
        return [rng.choice(["nested", "nested", "trynested"]), rng.choice(KINDS), _rand_sref(rng)]
    if level is not None and level >= 2 and rng.random() < 0.10:
        return [rng.choice(["nested", "trynested"]), rng.choice(["do", "map"]), _rand_sref(rng)]
    if level is not None and rng.random() < (0.05 if level == 1 else 0.08):
        return ["raise", rng.randrange(13)]
    if r < 0.22:
        return ["nop"]
    if r < 0.40:
        return ["rmself", rng.random() < 0.3]
    if r < 0.72:
        if order and self_id in order and rng.random() < 0.8:
            i = order.index(self_id)
            if rng.random() < 0.6 and i + 1 < len(order):
                tgt = rng.choice(order[i + 1:])      # a later agent
            elif i > 0:
                tgt = rng.choice(order[:i])          # an earlier agent
            else:
                tgt = rng.choice(order)
        else:
            tgt = rng.randint(1, hi + 2)
        return ["rm", tgt, rng.random() < 0.35]
    if r < 0.86:
        return ["create", rng.randrange(NCLS), rng.randint(1, 2), rng.random() < 0.25]
    if r < 0.95:
        return ["drop", rng.randint(1, hi + 1)]
    return ["add", rng.randint(1, hi + 1)]


def _rand_script(rng, order, ids_hint, density, level=None):
    sc = []
    for a in order:
        if rng.random() < density:
            sc.append([a, [_rand_act(rng, ids_hint, a, order, level) for _ in range(rng.choice([1, 1, 1, 2, 3]))]])
    return sc


def _rand_case(rng, big=False):
    ops = []
    n0 = rng.randint(0, 9 if big else 6)
    if big and rng.random() < 0.04:
        n0 = rng.randint(20, 30)      # a large population
    nid = 0
    live = []      # rough shadow (top level only): ids registered
    held = []
    for _ in range(n0):
        keep = rng.random() < 0.3
        ops.append(["act", ["create", rng.randrange(NCLS), 1, keep]])
        nid += 1
        live.append(nid)
        if keep:
            held.append(nid)
    # some top-level churn
    for _ in range(rng.choice([0, 0, 1, 2])):
        if live:
            t = rng.choice(live)
            keep = rng.random() < 0.5
            ops.append(["act", ["rm", t, keep]])
            live.remove(t)
            if keep:
                held.append(t)
    usets = []
    for _ in range(rng.choice([0, 1, 1, 2])):
        pool = list(range(1, nid + 2))
        rng.shuffle(pool)
        ids = pool[:rng.randint(0, len(pool))]
        if ids and rng.random() < 0.3:
            ids.append(rng.choice(ids))
        ops.append(["newset", ids])
        alive = set(live) | set(held)
        seen = []
        for i in ids:
            if i in alive and i not in seen:
                seen.append(i)
        usets.append(seen)
    for _ in range(rng.randint(1, 4)):
        # choose a target set
        r = rng.random()
        if usets and r < 0.35:
            k = rng.randrange(len(usets))
            sref, order = ["user", k], list(usets[k])
        elif r < 0.55:
            sref, order = ["type", rng.randrange(NCLS)], list(live)
        else:
            sref, order = ["all"], list(live)
        hint = list(range(1, nid + 1)) or [1]
        density = rng.choice([0.0, 0.3, 0.6, 1.0])
        plain = rng.random() < 0.45          # the statement's own quantifier: no raising, no nesting
        script = _rand_script(rng, order or hint, hint, density, None if plain else 1)
        script2 = []
        cur_sc, lv = script, 2
        while lv <= 4 and any(a[0] in ("nested", "trynested") for _, acts in cur_sc for a in acts):
            cur_sc = _rand_script(rng, hint, hint, rng.choice([0.0, 0.3, 0.6]), lv)
            script2.append(cur_sc)
            lv += 1
        args = [rng.randint(0, 9) for _ in range(rng.choice([0, 0, 1, 2]))]
        kwargs = [rng.randint(0, 9) for _ in range(rng.choice([0, 0, 1, 2]))]
        if rng.random() < 0.2:
            # keyword arguments by name, incl. names that helpers inside the library may use for their own parameters
            kwargs = [[nm, rng.randint(0, 9)] for nm in rng.sample(KW_NAMES, rng.choice([1, 1, 2, 3]))]
            if not args:
                args = [rng.randint(0, 9)]
        kind = rng.choice(KINDS)
        r = rng.random()
        if r < 0.06:
            ops.append(["grouplist", rng.choice(["do", "map"]), rng.choice(["attr", "callable"]), sref, rng.choice([1, 2, 2, 3]),
                        script, args, kwargs, script2])
        elif r < 0.25:
            ops.append(["group", kind, rng.choice(["do", "map", "do-callable", "map-callable"]), rng.choice(["attr", "callable"]), sref,
                        rng.choice([1, 2, 2, 3]), script, args, kwargs, script2])
        else:
            r2 = rng.random()
            if r2 < 0.12:
                kind = "shuffle_then_do"
            elif r2 < 0.22:
                kind = "copy_" + kind
            ops.append(["activate", kind, rng.choice(["name", "callable", "name", "callable", "strsub", "callobj", "partial", "bound", "unbound", "kwmethod", "badname"]),
                        sref, script, args, kwargs, script2])
        # rough update of the shadow: count creations, forget removals (ids stay plausible targets)
        for _, acts in script + [x for sc in script2 for x in sc]:
            for a in acts:
                if a[0] == "create":
                    nid += a[2]
        if rng.random() < 0.25:
            ops.append(["collect"])
        if rng.random() < 0.15:
            ops.append([rng.choice(["groupcount", "groupagg"]), rng.choice(["attr", "callable"]), _rand_sref(rng, max(1, len(usets))),
                        rng.choice([1, 2, 3])])
        if rng.random() < 0.3:
            ops.append(["act", _rand_act(rng, hint)])
    return {"ops": ops}


def _one_act_options(n, i):
    """acts agent number i (1-based id) of a set of size n may perform in the exhaustive sweep"""
    opts = [["nop"], ["rmself", False], ["rmself", True], ["create", 0, 1, False], ["raise"]]
    for j in range(1, n + 1):
        if j != i:
            opts.append(["rm", j, False])
            opts.append(["rm", j, True])
    return opts


def _enum_scripts(n):
    for combo in itertools.product(*[_one_act_options(n, i) for i in range(1, n + 1)]):
        yield [[i + 1, [a]] for i, a in enumerate(combo) if a != ["nop"]]


def _nested_sweep():
    """3 agents; agent 1 or 2 starts a nested activation on model.agents / its class set / a reversed program set;
    the nested callbacks do one act each (incl. raise)"""
    setup = [["act", ["create", i % 2, 1, False]] for i in range(3)] + [["newset", [3, 2, 1]]]
    inner_opts = [["nop"], ["rmself", False], ["rm", 3, False], ["rm", 1, True], ["create", 1, 1, False], ["raise"]]
    j = 0
    for who in (1, 2):
        for sref in (["all"], ["type", 0], ["user", 0]):
            for ik in KINDS:
                for a1 in inner_opts:
                    for a3 in inner_opts:
                        for extra in ([], [["rm", 3, False]], [["raise"]]):
                            j += 1
                            sc = [[who, extra[:1] * (j % 2) + [["nested", ik, sref]] + extra[:1] * ((j + 1) % 2)]]
                            sc2 = [[1, [a1]], [3, [a3]]]
                            yield {"ops": setup + [["activate", KINDS[j % 3], "name" if j % 2 else "callable", [["all"], ["user", 0]][j % 2], sc, [], [], sc2]]}


def _scale_case(rng, n, kind, extra=True):
    """a population of n agents (two classes; created by two ops, so the Gallina text stays short), a few of them also referenced
    by the program, one activation of `kind` over model.agents with a churn script of ~16 agents: remove a later agent / an
    earlier agent / self / a referenced one, create agents; then (extra) a second activation over a by-type set"""
    n1 = n // 3
    ops = [["act", ["createn", 0, n - n1, False]], ["act", ["createn", 1, n1, False]]]
    held = rng.sample(range(1, n + 1), 3)
    ops += [["act", ["add", h]] for h in held]
    script = []
    who = rng.sample(range(1, n + 1), min(n, 16))
    for a in who:
        r = rng.random()
        if r < 0.45:
            t = rng.randint(a + 1, n) if a < n else a           # a later agent (in set order; under shuffle_do: any)
            acts = [["rm", t, False]]
            if rng.random() < 0.5:
                acts.append(["rm", rng.randint(1, n), False])
        elif r < 0.6:
            acts = [["rm", rng.randint(1, a), False]]            # an earlier agent (or itself)
        elif r < 0.7:
            acts = [["rmself", False]]
        elif r < 0.8:
            acts = [["rm", rng.choice(held), rng.random() < 0.5]]
        elif r < 0.9:
            acts = [["create", rng.randrange(NCLS), 2, False]]
        else:
            acts = [["rm", rng.randint(1, n), True], ["drop", rng.randint(1, n)]]
        script.append([a, acts])
    args, kwargs = [rng.randint(0, 9)], []
    if kind.startswith("group:"):
        _, inner, outer = kind.split(":")
        ops.append(["group", inner, outer, rng.choice(["attr", "callable"]), ["all"], rng.choice([1, 2, 3]), script, args, kwargs, []])
    else:
        ops.append(["activate", kind, rng.choice(["name", "callable"]), ["all"], script, args, kwargs, []])
    if extra:
        ops.append(["activate", rng.choice(["shuffle_do", "do", "map"]), "name", ["type", 0],
                    [[a, [["rm", min(n, a + rng.randint(1, 40)), False]]] for a in rng.sample(range(1, n + 1), 6)], [], [], []])
    return {"ops": ops}


SCALE_KINDS = ["shuffle_do", "do", "map", "copy_do", "copy_shuffle_do", "shuffle_then_do",
               "group:shuffle_do:do", "group:do:map", "group:map:map-callable", "group:shuffle_do:do-callable"]


def _scale_cases(rng, tier, broken=False):
    """populations crossing 255/256/257/512/1024/2048 (CPython small-int cache, block sizes of 'optimised' loops) under churn.
    Up to SCALE_MODEL_MAX agents the history is also evaluated by the Gallina model; above, implementation + oracle only."""
    if tier == "quick" and not broken:
        # two histories that the model evaluates too (one activation each), the rest implementation + oracle only
        plan = [(256, "shuffle_do", False), (rng.choice([255, 257]), rng.choice(SCALE_KINDS), False),
                (rng.choice([512, 513]), "shuffle_do", True), (rng.choice([512, 1024, 1025]), rng.choice(SCALE_KINDS), True),
                (rng.choice([1024, 1025]), "shuffle_do", True), (rng.choice([2048, 2049]), rng.choice(SCALE_KINDS), True)]
    else:
        plan = [(n, k, True) for n in SCALE_SIZES for k in SCALE_KINDS for _ in range(1 if n > 1025 else 2)]
    return [_scale_case(rng, n, k, extra) for n, k, extra in plan]


def _kwname_sweep(names=None):
    """every keyword name x every way of activating (3 agents, one positional and one keyword argument, no churn)"""
    setup = [["act", ["create", i % 2, 1, False]] for i in range(3)]
    j = 0
    for nm in (names or KW_NAMES):
        for kind in KINDS + ["shuffle_then_do", "copy_do"]:
            for form in ("name", "callable"):
                j += 1
                yield {"ops": setup + [["activate", kind, form, ["all"], [], [7], [[nm, 5]], []]]}
        for kind in KINDS:
            for outer in ("do", "map", "do-callable", "map-callable"):
                yield {"ops": setup + [["group", kind, outer, "attr", ["all"], 2, [], [7], [[nm, 5]], []]]}
        for outer in ("do", "map"):
            yield {"ops": setup + [["grouplist", outer, "callable", ["all"], 2, [], [7], [[nm, 5]], []]]}


def _exhaustive(nmax, kinds, user_orders):
    for n in range(1, nmax + 1):
        setup = [["act", ["create", i % 2, 1, False]] for i in range(n)]
        for j, sc in enumerate(_enum_scripts(n)):
            # every kind for n <= 3; for n = 4 (10^4 scripts) the kinds take turns
            for kind in (kinds if n <= 3 else [kinds[j % len(kinds)]]):
                yield {"ops": setup + [["activate", kind, "name" if len(sc) % 2 else "callable", ["all"], sc, [], []]]}
            if user_orders and n >= 2 and (n <= 3 or j % 3 == 0):
                # a program-made set in reverse order: removal does not take the agent out of it
                rev = list(range(n, 0, -1))
                yield {"ops": setup + [["newset", rev], ["activate", kinds[len(sc) % len(kinds)], "callable", ["user", 0], sc, [1], [2]]]}


def gen_cases(rng, tier):
    cases = []
    # every one-act script over sets of size <= 2 (3 thorough), all kinds
    cases += list(_exhaustive(3 if tier == "quick" else 4, KINDS, True))
    scale = _scale_cases(rng, tier)
    kws = list(_kwname_sweep())
    cases += kws if tier != "quick" else kws[rng.randrange(4)::4]
    nest = list(_nested_sweep())
    cases += nest if tier != "quick" else nest[::4]
    n = 1100 if tier == "quick" else 15000
    for i in range(n):
        cases.append(_rand_case(rng, big=(i % 5 == 0)))
    # a second model: sets mixing agents of two models (oracle only, the Gallina model has one registry)
    for i in range(60 if tier == "quick" else 1500):
        c = _rand_case(rng, big=False)
        nmain = sum(1 for o in c["ops"] if o[0] == "act" and o[1][0] == "create")
        nf = rng.randint(1, 3)
        order = list(range(1, nmain + 1)) + [1000 + j for j in range(1, nf + 1)]
        rng.shuffle(order)
        k = sum(1 for o in c["ops"] if o[0] == "newset")
        first = next((j for j, o in enumerate(c["ops"]) if o[0] in ("activate", "group", "grouplist")), len(c["ops"]))
        ops = c["ops"][:first] + [["foreignset", nf, order]]
        for o in c["ops"][first:]:
            if o[0] in ("activate", "group", "grouplist") and rng.random() < 0.7:
                o = list(o)
                pos = {"activate": 3, "group": 4, "grouplist": 3}[o[0]]
                o[pos] = ["user", k]
                sc_pos = {"activate": 4, "group": 6, "grouplist": 5}[o[0]]
                o[sc_pos] = list(o[sc_pos]) + [[1000 + rng.randint(1, nf), [rng.choice([["rmself", False], ["rm", rng.randint(1, max(1, nmain)), False],
                                                                                      ["rm", 1000 + rng.randint(1, nf), rng.random() < 0.5], ["nop"]])]]]
            ops.append(o)
        cases.append({"ops": ops})
    # the scale stream, spread over the case files (each file is evaluated by its own coqc; the corpus shifts positions a little)
    for j, c in enumerate(scale):
        cases.insert(min(len(cases), j * 250 + 7), c)
    # agents living in a space: hunters look around (caches warm) and take later agents out of the space and the model
    for i in range(120 if tier == "quick" else 2500):
        c = _rand_case(rng, big=(i % 4 == 0))
        c["ops"] = [["space", SPACE_KINDS[i % len(SPACE_KINDS)]]] + [o for o in c["ops"] if o[0] not in ("foreignset",)]
        cases.append(c)
    # abandoned iterators (oracle only): dead references stay in the key list until the iterator goes away
    for i in range(40 if tier == "quick" else 1000):
        c = _rand_case(rng, big=False)
        first = next((j for j, o in enumerate(c["ops"]) if o[0] in ("activate", "group", "grouplist")), len(c["ops"]))
        c["ops"] = c["ops"][:first] + [["iterhold", _rand_sref(rng)]] + c["ops"][first:]
        cases.append(c)
    return cases


def enumerate_cases(tier, broken=False):
    """ALL one-act scripts {nop, remove self (kept or not), remove any other member (kept or not), create 1}
    over model.agents of size <= 4, for do, shuffle_do and map, plus a reversed program-made set."""
    if tier == "thorough" and not broken:
        return  # gen_cases already ran (and compared with the model) every script over sets of size <= 4
    yield from _exhaustive(4, KINDS, True)
    yield from _kwname_sweep()
    if broken:
        import random as _random

        yield from _scale_cases(_random.Random(4242), "thorough", broken=True)


# ------------------------------------------------------------------ implementation side
_ENV = {}


def _env():
    """per-process: agent classes, recording Random"""
    if _ENV:
        return _ENV
    import gc
    import random

    import mesa

    ctx = {"cur": None}

    import itertools as _it

    keyctr = _it.count(1)

    def _make(name, bases=None, extra=None, reassign=False, keyed=False, root=None):
        extra = extra or {}

        def __init__(self, model):
            if keyed:
                self._key = next(keyctr)      # set BEFORE registration: __hash__ must not change while the agent is a dict key
            (root or mesa.Agent).__init__(self, model)
            # the driver's name of the agent: unique_id in the main model, 1000 + unique_id in a second model
            self._hid = self.unique_id + getattr(model, "_hid_base", 0)
            if reassign:
                # the Mesa-2 idiom: the model's own id is assigned after super().__init__ - ids that collide with each other
                # and with the automatic ones
                self.unique_id = self._hid % 3 + 1
            self.g1 = 0
            self.g2 = self._hid % 2
            self.g3 = self._hid % 3

        def act(self, /, *a, **k):
            return ctx["cur"].call(self, a, k)

        return type(name, bases or (mesa.Agent,), dict({"__init__": __init__, "act": act}, **extra))

    class Falsy:
        """a mixin placed AFTER the framework base in the MRO: these agents are False in a boolean context"""

        def __bool__(self):
            return False

    # K0: a plain agent class; K1: Agent + mixin, instances are falsy (`if agent:` is not `agent is not None`);
    # K2: a subclass of K1 (a subclass of a subclass of Agent) that also has len() == 0.  agents_by_type is by EXACT class.
    # K1 also assigns its own unique_id after Agent.__init__; K2 also has value-based __eq__ / __hash__ (on a key set before
    # registration, distinct per agent) and is iterable (empty).
    k0 = _make("K0")
    k1 = _make("K1", (mesa.Agent, Falsy), reassign=True)
    k2 = _make("K2", (k1,), {"__len__": lambda self: 0, "__iter__": lambda self: iter(()),
                             "__eq__": lambda self, other: type(other) is type(self) and other._key == self._key,
                             "__hash__": lambda self: hash(("K2", self._key))}, reassign=True, keyed=True)
    classes = [k0, k1, k2]
    from mesa.discrete_space import CellAgent

    # the same three kinds of agents living in a discrete_space grid
    c0 = _make("C0", (CellAgent,), root=CellAgent)
    c1 = _make("C1", (CellAgent, Falsy), reassign=True, root=CellAgent)
    c2 = _make("C2", (c1,), {"__len__": lambda self: 0}, reassign=True, root=CellAgent)
    cell_classes = [c0, c1, c2]

    class HookModel(mesa.Model):
        """a Model subclass overriding the public registration hooks (calling super())"""

        def __init__(self, *a, **k):
            self.n_reg = 0
            self.n_dereg = 0
            super().__init__(*a, **k)

        def register_agent(self, agent):
            super().register_agent(agent)
            self.n_reg += 1

        def deregister_agent(self, agent):
            super().deregister_agent(agent)     # KeyError when not registered (Agent.remove suppresses it)
            self.n_dereg += 1

    class RecRandom(random.Random):
        """random.Random that records what shuffle did (ids of the referents before and after)"""

        def shuffle(self, x):
            rec = ctx.get("rec")
            before = None
            if rec is not None:
                before = [_uid_of(r) for r in x]
            super().shuffle(x)
            if rec is not None:
                rec.append((before, [_uid_of(r) for r in x]))

    def _uid_of(r):
        o = r() if callable(r) else r
        u = getattr(o, "_hid", -1) if o is not None else -1
        del o
        return u

    gc.collect()
    gc.freeze()
    _ENV.update(ctx=ctx, classes=classes, RecRandom=RecRandom, mesa=mesa, HookModel=HookModel, cell_classes=cell_classes)
    return _ENV


class _StrSub(str):
    """a str subclass: isinstance(method, str) holds, the by-name branch must be taken"""


class _CallObj:
    """a callable object (not a function): the callable branch must be taken"""

    def __init__(self, fn):
        self.fn = fn

    def __call__(self, agent, /, *a, **k):
        return self.fn(agent, *a, **k)


class _Boom(Exception):
    """what a scripted callback raises"""


# ... and the same as subclasses of the "control-flow" exception types (the subclass lets the driver tell its own exceptions
# from the library's by TYPE)
_BOOMS = (_Boom,) + tuple(type("_Boom" + t.__name__, (t,), {}) for t in
                          (StopIteration, GeneratorExit, IndexError, KeyError, AttributeError, TypeError, RuntimeError, ValueError,
                           LookupError, ArithmeticError, AssertionError, OSError))


def _scripts(x):
    """the optional trailing element: a list of inner scripts, one per nesting level (a single script is accepted too)"""
    if x and x[0] and isinstance(x[0][0], int):
        return [x]
    return list(x)


def _norm(op):
    """case ops with the optional trailing inner scripts made explicit"""
    pos = {"activate": 7, "group": 9, "grouplist": 8}.get(op[0])
    if pos is None:
        return op
    op = list(op)
    if len(op) <= pos:
        op.append([])
    op[pos] = _scripts(op[pos])
    return op


class _Run:
    def __init__(self, env):
        import weakref

        mesa = env["mesa"]
        self.env = env
        self.model = env["HookModel"](seed=7)
        self.model.random.__class__ = env["RecRandom"]
        self.wv = weakref.WeakValueDictionary()
        self.ext = []            # the program's references (real ones)
        self.user_sets = []
        self.events = []         # ("call"|"rm"|"create"|"raise", uid)
        self.removed_at = {}     # uid -> event index of its (first, effective) removal from the model
        self.created_at = {}
        self.registered = set()  # shadow: created and not yet removed through remove()
        self.levels = []         # levels[d] = what the agents called at nesting depth d do (0 = the op's own activation)
        self.depth = 0           # 0 = program, d = inside a callback at nesting depth d-1
        self.pending = False     # an exception is travelling (raised and not caught by a callback)
        self.strong = set()      # ids held by a strong container of the program (GroupBy with lists)
        self.strong_forever = set()   # ids held by an abandoned iterator of the program
        self.iters = []
        self.foreign = set()     # ids of the agents of a second model
        self.space = None        # ("continuous"|"single"|"multi"|"network"|"cells", space object): the agents live in a space
        self.classes = env["classes"]
        self.models = []         # further models (their agents are named 1000 + unique_id)
        self.calls = []          # (uid, event index, args, kwargs, held_by_program) of the activation in progress
        self.nlog = []           # observation of nested activations
        self.nested_perms = {}   # (agent id, act index) -> recorded permutation of a nested shuffle_do
        self.failures = []
        self.opi = 0
        self.active = []         # ids of the agents whose callbacks are running (outermost first)

    # --- the space the agents live in (the library's containers must not keep a removed agent alive)
    def make_space(self, kind):
        import warnings

        with warnings.catch_warnings():
            warnings.simplefilter("ignore")
            if kind == "continuous":
                from mesa.space import ContinuousSpace

                sp = ContinuousSpace(20, 20, torus=bool(len(self.events) % 2))
            elif kind in ("single", "multi"):
                from mesa.space import MultiGrid, SingleGrid

                sp = (SingleGrid if kind == "single" else MultiGrid)(6, 6, torus=True)
            elif kind == "network":
                import networkx as nx
                from mesa.space import NetworkGrid

                sp = NetworkGrid(nx.cycle_graph(7))
            else:
                from mesa.discrete_space import OrthogonalMooreGrid

                sp = OrthogonalMooreGrid((5, 5), torus=True, random=self.model.random)
                self.classes = self.env["cell_classes"]
        self.space = (kind, sp)

    def space_place(self, ag):
        if self.space is None:
            return
        kind, sp = self.space
        h = ag._hid
        if kind == "continuous":
            sp.place_agent(ag, ((h * 3.7) % 20, (h * 1.3) % 20))
        elif kind == "multi":
            sp.place_agent(ag, (h % 6, (h // 6) % 6))
        elif kind == "single":
            if sp.is_cell_empty((h % 6, (h // 6) % 6)):
                sp.place_agent(ag, (h % 6, (h // 6) % 6))
        elif kind == "network":
            sp.place_agent(ag, h % 7)
        else:
            ag.cell = sp[(h % 5, (h // 5) % 5)]

    def space_look(self, ag):
        """the agent looks around (this builds / warms the neighbourhood caches of the space); nothing is kept"""
        kind, sp = self.space
        pos = getattr(ag, "pos", None)
        if kind == "continuous" and pos is not None:
            n = sp.get_neighbors(pos, 6.0, include_center=True)
        elif kind in ("single", "multi") and pos is not None:
            n = sp.get_neighbors(pos, moore=True, include_center=True, radius=2)
            sp.get_neighborhood(pos, moore=False, include_center=False, radius=1)
        elif kind == "network" and pos is not None:
            n = sp.get_neighbors(pos, include_center=True, radius=2)
        elif kind == "cells" and getattr(ag, "cell", None) is not None:
            n = list(ag.cell.get_neighborhood(radius=2, include_center=True).agents) + list(ag.cell.neighborhood.agents)
        else:
            n = None
        del n

    def space_remove(self, hunter, tgt):
        """a hunter looks around, then takes tgt out of the space (before it is removed from the model)"""
        if self.space is None:
            return
        kind, sp = self.space
        self.space_look(hunter if hunter is not None else tgt)
        if kind == "cells":
            return                      # CellAgent.remove() leaves the cell itself
        if getattr(tgt, "pos", None) is not None:
            sp.remove_agent(tgt)

    # --- what a callback / the program can do
    def exec_act(self, me, a, where=None):
        k = a[0]
        if k == "nop":
            return
        if k in ("rmself", "rm"):
            if k == "rmself":
                tgt, keep = me, a[1]
            else:
                tgt, keep = self.wv.get(a[1]), a[2]
            if tgt is not None:
                uid = tgt._hid
                if uid in self.registered:
                    self.space_remove(me, tgt)
                tgt.remove()
                if uid in self.registered:
                    self.registered.discard(uid)
                    self.removed_at[uid] = len(self.events)
                    self.events.append(("rm", uid))
                if keep:
                    self.ext.append(tgt)
            del tgt
        elif k in ("create", "createn"):
            _, c, n, keep = a
            for _ in range(max(0, min(int(n), MAXCREATE if k == "create" else SCALE_MAX))):
                ag = self.classes[c % NCLS](self.model)
                uid = ag._hid
                self.wv[uid] = ag
                self.space_place(ag)
                self.registered.add(uid)
                self.created_at[uid] = len(self.events)
                self.events.append(("create", uid))
                if keep:
                    self.ext.append(ag)
                del ag
        elif k == "drop":
            for j, o in enumerate(self.ext):
                if o._hid == a[1]:
                    del self.ext[j]
                    break
            o = None
        elif k == "add":
            t = self.wv.get(a[1])
            if t is not None:
                self.ext.append(t)
            del t
        elif k == "raise":
            if me is not None:
                self.events.append(["raise", me._hid, None])
                self.pending = True
                raise _BOOMS[(a[1] if len(a) > 1 else 0) % len(_BOOMS)]()
        elif k in ("nested", "trynested"):
            # allowed while there is a script for the agents it would call; below the outermost level only do / map
            # (an inner callback may run several times, a recorded permutation could not be attached to the act)
            if self.depth < len(self.levels) and (self.depth == 1 or a[1] != "shuffle_do"):
                self.nested(a[1], a[2], where, catch=(k == "trynested"))
        else:
            raise ValueError(k)

    def call(self, agent, args, kwargs):
        uid = agent._hid
        # a reference is held by the program's own list or by a callback of this very agent that is still running
        held = any(o is agent for o in self.ext) or uid in self.active or uid in self.strong or uid in self.strong_forever
        self.calls.append((uid, len(self.events), args, kwargs, held))
        self.events.append(("call", uid))
        sc = self.levels[self.depth] if self.depth < len(self.levels) else {}
        level = self.depth
        self.depth += 1
        self.active.append(uid)
        try:
            for j, a in enumerate(sc.get(uid, ())):
                self.exec_act(agent, a, (level, uid, j))
        finally:
            self.depth -= 1
            self.active.pop()
        return 2 * uid + 1

    def nested(self, akind, sref, where, catch=False):
        """a callback calls do / shuffle_do / map on a set itself (catch: inside try/except Exception);
        the agents called there run the script of the next nesting level"""
        if akind not in KINDS:
            return
        s = self.resolve(sref)
        if s is None:
            return
        ctx = self.env["ctx"]
        snap = self.ids(s)
        rnd = self.model.random
        expected = snap
        if akind == "shuffle_do":
            saved = rnd.getstate()
            outer_rec, ctx["rec"] = ctx.get("rec"), None
            expected = self.ids(s.shuffle())
            ctx["rec"] = outer_rec
            rnd.setstate(saved)
        outer_calls, self.calls = self.calls, []
        outer_rec, ctx["rec"] = ctx.get("rec"), []
        ev0 = len(self.events)
        raised = False
        form = (where[1] + where[2]) % 2
        nlevel = self.depth
        target = "act" if form else (lambda agent, /, *a, **k: self.call(agent, a, k))
        boom = None
        try:
            res = getattr(s, akind)(target, tok=None, xv=None)
            del res
        except _BOOMS as e:
            raised = True
            boom = type(e)       # only the type: keeping the exception would keep its traceback, i.e. the frames and their agents, alive (a cycle)
        rec, calls = ctx["rec"], self.calls
        ctx["rec"], self.calls = outer_rec, outer_calls
        log = [c[0] for c in calls]
        site = f"nested-{akind}"
        perm = expected
        if akind == "shuffle_do":
            if len(rec) == 1 and _living(rec[0][0]) == snap:
                perm = _living(rec[0][1])
            if perm != expected or len(rec) != 1:
                self.failures.append({"key": f"C04/{site}/order", "op": self.opi,
                                      "what": f"nested shuffle_do over {snap} recorded the shuffles {rec}; shuffle() from the same generator state gives {expected}"})
        elif rec:
            self.failures.append({"key": f"C04/{site}/order", "op": self.opi, "what": f"{site} consumed the generator: {rec}"})
        _check_activation(self, site, snap, expected, ev0, calls, self.failures, self.opi, raised=raised, level=nlevel)
        self.nested_perms[where] = perm
        self.nlog += [-35] + log
        if raised and catch:
            # except Exception: pass  - the exception stops here: it aborted the activations started at this depth or deeper
            for e in self.events[ev0:]:
                if e[0] == "raise" and e[2] is None:
                    e[2] = nlevel
            self.pending = False
            self.nlog += [-36]
            boom = None
        elif raised:
            raise boom()

    # --- observation
    def resolve(self, sref):
        if sref[0] == "all":
            return self.model.agents
        if sref[0] == "type":
            return self.model.agents_by_type.get(self.classes[sref[1] % NCLS])
        k = sref[1]
        return self.user_sets[k] if 0 <= k < len(self.user_sets) else None

    @staticmethod
    def ids(s):
        return [a._hid for a in s]

    def view(self):
        mesa = self.env["mesa"]
        nxt = int(repr(mesa.Agent._ids[self.model])[6:-1])
        out = [nxt, -10] + [a._hid for a in self.model._agents] + [-11] + sorted(o._hid for o in self.ext)
        out += [-20] + self.ids(self.model.agents)
        for c in range(NCLS):
            s = self.model.agents_by_type.get(self.classes[c])
            out += [-21, c] + ([-23] if s is None else self.ids(s))
        for k, s in enumerate(self.user_sets):
            out += [-22, k] + self.ids(s)
        return out

    def by_type_failures(self, opi):
        """agents_by_type[c] = the registry filtered by exact class c, in order; every class with a registered agent is a key"""
        out = []
        regs = list(self.model._agents)
        for c, cls in enumerate(self.classes):
            want = [a._hid for a in regs if type(a) is cls]
            s = self.model.agents_by_type.get(cls)
            got = None if s is None else self.ids(s)
            if (got is None and want) or (got is not None and got != want):
                out.append({"key": "C04/agents_by_type/not-the-filtered-registry", "op": opi,
                            "what": f"agents_by_type[class {c}] is {got}; the registered agents of exactly that class are {want}"})
        del regs
        return out


def _living(ids):
    """recorded shuffles name a reference that was already dead when the list was made as -1 (possible only while an abandoned
    iterator defers the removal of dead keys): such references are shuffled along but are no members"""
    return [i for i in ids if i != -1]


def _subseq(small, big):
    it = iter(big)
    return all(any(x == y for y in it) for x in small)


def _check_activation(run, site, snap, expected_order, ev0, calls, failures, opi, ordered=True, raised=False, level=0):
    """the property statement over what the implementation did during one activation.
    snap: ids of the members when the call started; expected_order: the order in which they are to be visited;
    calls: [(uid, time, args, kwargs, held)]; raised: a callback raised (the activation was aborted there)"""
    log = [c[0] for c in calls]
    snapset = set(snap)
    tcall = {}
    for uid, t, _, _, _ in calls:
        if uid in tcall:
            failures.append({"key": f"C04/{site}/called-twice", "op": opi,
                             "what": f"agent {uid} was called twice in one {site}; calls in order: {log}; members at call start: {snap}"})
        tcall.setdefault(uid, t)
    for uid in tcall:
        if uid not in snapset:
            if run.created_at.get(uid, -1) >= ev0:
                failures.append({"key": f"C04/{site}/called-new-agent", "op": opi,
                                 "what": f"agent {uid} was created during the {site} call and was called by it; calls: {log}; members at call start: {snap}"})
            else:
                failures.append({"key": f"C04/{site}/called-non-member", "op": opi,
                                 "what": f"agent {uid} was not a member when {site} started but was called; calls: {log}; members: {snap}"})
    inlog = [u for u in log if u in snapset]
    if ordered and not _subseq(inlog, expected_order):
        what = "the order shuffle() produces from the same generator state" if "shuffle" in site else "set order"
        failures.append({"key": f"C04/{site}/order", "op": opi,
                         "what": f"{site} called agents in the order {log}; required: {what} = {expected_order} (minus agents gone before their turn)"})
        ordered = False   # turns cannot be placed on the required order any more: judge skipped members by the whole call
    end = len(run.events)
    pos = {u: i for i, u in enumerate(expected_order)}
    stop = None
    # an exception caught by a callback at depth c only aborts the activations nested deeper than c
    t_raise = next((t for t in range(ev0, end) if run.events[t][0] == "raise"
                    and (run.events[t][2] is None or run.events[t][2] <= level)), None)
    if t_raise is not None:
        # the exception leaves the loop during the call in progress: nobody is called afterwards,
        # members after that agent (in visiting order) are not visited
        late = [c[0] for c in calls if c[1] > t_raise]
        if late:
            failures.append({"key": f"C04/{site}/called-after-exception", "op": opi,
                             "what": f"a callback raised (event {t_raise}) and {site} went on to call {late}; calls: {log}"})
        before = [c[0] for c in calls if c[1] < t_raise]
        stop = pos.get(before[-1], -1) if (ordered and before) else -1
    elif raised:
        stop = -1
    # every member not removed from its model before its turn is called
    for a in snap:
        if a in tcall:
            t = tcall[a]
            rem = run.removed_at.get(a)
            if rem is not None and rem < t:
                held = next(c[4] for c in calls if c[0] == a)
                if not held:
                    failures.append({"key": f"C04/{site}/called-removed-agent", "op": opi,
                                     "what": f"agent {a} had been removed from its model (event {rem}) and the program held no reference to it, yet {site} called it (event {t}); calls: {log}"})
            continue
        if stop is not None and (stop == -1 or pos.get(a, 1 << 30) > stop):
            continue
        # its turn ends at the latest when the next called agent after it (in visiting order) is called
        if ordered and a in pos:
            later = [tcall[b] for b in expected_order[pos[a] + 1:] if b in tcall]
            turn_end = min(later) if later else end
        else:
            turn_end = end
        rem = run.removed_at.get(a)
        if rem is None or rem >= turn_end:
            failures.append({"key": f"C04/{site}/live-member-skipped", "op": opi,
                             "what": f"agent {a} was a member when {site} started and was still registered with its model when its turn came "
                                     f"(visiting order {expected_order}, removed at event {rem}, turn over by event {turn_end}) but was never called; calls: {log}"})


def run_impl(case):
    import gc

    env = _env()
    gc.disable()
    try:
        return _run_impl(env, case)
    finally:
        env["ctx"]["cur"] = None
        env["ctx"]["rec"] = None
        gc.enable()


# keyword names an activation may be given; they are the user's, whatever helpers inside the library call their parameters.
# Not in the list: `method` and `self` (bound by do/shuffle_do/map/GroupBy.do/map themselves: a TypeError on the unchanged tree
# too), `tok` / `xv` (used by this driver).
KW_NAMES = ["agents", "args", "kwargs", "func", "agent", "return_results", "agentref", "ref", "weakrefs", "res", "group", "groups",
            "v", "k", "by", "key", "attr_name", "value", "model", "random", "inplace", "at_most", "filter_func", "agent_type",
            "handle_missing", "default_value", "item", "cls", "n", "ascending", "result_type", "state"]


def _kw_of(kwargs):
    """kwargs of a case op: ints (named k0, k1, ...) or [name, int] pairs"""
    out = {}
    for j, e in enumerate(kwargs):
        if isinstance(e, (list, tuple)):
            if e[0] not in ("method", "self", "tok", "xv"):
                out[str(e[0])] = int(e[1])
        else:
            out[f"k{j}"] = int(e)
    return out


def _kw_values(kwargs):
    kw = _kw_of(kwargs)
    return [kw[n] for n in sorted(kw)]


def _exotic(i):
    """a value of a kind the callbacks of real models receive: passed as the keyword `xv`, must arrive as the SAME object, unchanged"""
    import decimal
    import fractions

    import numpy as np

    pool = [None, 0.1, float("inf"), "text", (1, (2, 3)), True, False, 2 ** 70, -(2 ** 63) - 1, [1, [2, 3]], {"a": [1]}, set(),
            decimal.Decimal("0.1"), fractions.Fraction(1, 3), np.int64(3), np.float32(0.5), np.array(5), np.array([1, 2]), b"bytes",
            0, 0.0, "", (), object()]
    return pool[i % len(pool)]


def _args_ok(calls, args, kwargs, token, xv=None, xv_before=None):
    import copy

    for uid, _, a, k, _ in calls:
        if (tuple(a) != tuple(args) or set(k) != set(kwargs) | {"tok", "xv"} or any(k[n] != v for n, v in kwargs.items())
                or k.get("tok") is not token or k.get("xv") is not xv):
            return uid, a, k
    if isinstance(xv, (list, dict, set)) and xv_before is not None and xv != xv_before:
        return -1, ("the caller's mutable argument was changed", xv_before, xv), {}
    del copy
    return None


def _script_raises(script, log):
    """does the script of an agent that was called contain a raise (at top level of its turn)?"""
    d = {int(i): acts for i, acts in script}
    return any(any(a[0] == "raise" for a in d.get(u, ())) for u in log)


def _model_script(script, perms, level=0):
    """the script with the recorded permutations of nested shuffles filled in"""
    d = {}
    for i, acts in script:
        d[int(i)] = acts
    out = []
    for i, acts in d.items():
        out.append([i, [([a[0], a[1], a[2], perms.get((level, i, j), [])] if a[0] in ("nested", "trynested") else a)
                        for j, a in enumerate(acts)]])
    return out


def _run_impl(env, case):
    import gc

    run = _Run(env)
    ctx = env["ctx"]
    ctx["cur"] = run
    obs, failures, ops_for_model = [], run.failures, []
    model_ok = True
    for opi, op in enumerate(case["ops"]):
        op = _norm(op)
        kind = op[0]
        mop = op
        run.opi = opi
        run.nlog = []
        run.nested_perms = {}
        run.depth = 0
        try:
            if kind == "act":
                run.depth = 1 << 20  # the program: nested / raise mean nothing here
                run.exec_act(None, op[1])
                run.depth = 0
                obs.append(run.view())
            elif kind == "newset":
                from mesa.agent import AgentSet

                ags = [run.wv.get(i) for i in op[1]]
                run.user_sets.append(AgentSet([a for a in ags if a is not None], random=run.model.random))
                del ags
                obs.append(run.view())
            elif kind == "collect":
                gc.collect()
                obs.append(run.view())
            elif kind == "activate":
                _, akind, form, sref, script, args, kwargs, scripts = op[:8]
                s = run.resolve(sref)
                via = None
                if akind.startswith("copy_") and akind[5:] in KINDS:
                    # a copy of the set that nothing but the running call refers to:  copy.copy(s).do(...) / s.select().do(...)
                    via, akind = akind, akind[5:]
                if s is None or akind not in KINDS + ["shuffle_then_do"]:
                    obs.append([-2])
                else:
                    snap = run.ids(s)
                    rnd = run.model.random
                    expected = snap
                    shuffled = akind in ("shuffle_do", "shuffle_then_do")
                    if shuffled:
                        saved = rnd.getstate()
                        expected = run.ids(s.shuffle())       # what shuffle() produces from this generator state
                        rnd.setstate(saved)
                    run.levels = [{int(i): acts for i, acts in sc} for sc in [script] + scripts]
                    run.pending = False
                    run.calls = []
                    ev0 = len(run.events)
                    token = object()
                    kw = _kw_of(kwargs)
                    import copy as _copy
                    import functools

                    xv = _exotic(opi + 3 * len(case["ops"]) + len(script))
                    xv_before = _copy.deepcopy(xv) if isinstance(xv, (list, dict, set)) else None
                    rec = ctx["rec"] = []
                    fn = (lambda agent, /, *a, **k: run.call(agent, a, k))
                    target = {"name": "act", "strsub": _StrSub("act"), "callobj": _CallObj(fn), "partial": functools.partial(fn),
                              "bound": _CallObj(fn).__call__,             # a bound method of another object
                              "unbound": env["classes"][0].act,          # a plain function taken from a class
                              "badname": "no_such_method"}.get(form, fn)
                    raised = False
                    res = None
                    bad_exc = None
                    try:
                        if akind == "shuffle_then_do":
                            res = s.shuffle().do(target, *args, tok=token, xv=xv, **kw)
                        elif via is not None:
                            res = getattr(_copy.copy(s) if len(script) % 2 else s.select(), akind)(target, *args, tok=token, xv=xv, **kw)
                        elif form == "kwmethod" and not args:
                            res = getattr(s, akind)(method=target, tok=token, xv=xv, **kw)      # the same call, spelled with a keyword
                        else:
                            res = getattr(s, akind)(target, *args, tok=token, xv=xv, **kw)
                    except _BOOMS:
                        raised = True
                    except AttributeError as e:
                        if form != "badname":
                            raise
                        bad_exc = e
                    if form == "badname":
                        # a rejected call: AttributeError from the first living member, nobody called, nothing changed - and the history goes on
                        ctx["rec"] = None
                        run.levels = []
                        if run.calls or (bad_exc is None) != (len(snap) == 0):
                            failures.append({"key": f"C04/{akind}/unknown-method-name", "op": opi,
                                             "what": f"{akind}('no_such_method') over members {snap}: raised {type(bad_exc).__name__ if bad_exc else 'nothing'}, calls made: {[c[0] for c in run.calls]}"})
                        del res, bad_exc
                        obs.append(run.view())
                        ops_for_model.append(["collect"])
                        failures += run.by_type_failures(opi)
                        continue
                    ctx["rec"] = None
                    calls = run.calls
                    run.levels = []
                    log = [c[0] for c in calls]
                    perm = expected
                    if shuffled:
                        if len(rec) == 1 and _living(rec[0][0]) == snap:
                            perm = _living(rec[0][1])
                            if perm != expected:
                                failures.append({"key": f"C04/{akind}/order", "op": opi,
                                                 "what": f"{akind} shuffled the members {snap} into {perm}; shuffle() from the same generator state gives {expected}"})
                        else:
                            failures.append({"key": f"C04/{akind}/order", "op": opi,
                                             "what": f"{akind} did not shuffle one private list of its {len(snap)} members exactly once (recorded shuffles: {rec}); shuffle() from the same generator state gives {expected}"})
                    elif rec:
                        failures.append({"key": f"C04/{akind}/order", "op": opi,
                                         "what": f"{akind} consumed the generator (shuffles recorded: {rec}); it has to visit in set order {snap}"})
                    _check_activation(run, akind, snap, expected, ev0, calls, failures, opi, raised=raised)
                    if not raised and run.pending:
                        failures.append({"key": f"C04/{akind}/exception-swallowed", "op": opi,
                                         "what": f"a callback raised during {akind} but the call returned normally; calls: {log}"})
                    bad = _args_ok(calls, args, kw, token, xv, xv_before)
                    if bad:
                        failures.append({"key": f"C04/{akind}/args", "op": opi,
                                         "what": f"{akind}(..., *{args}, **{kw}, xv={xv!r}) called agent {bad[0]} with args {bad[1]} kwargs {sorted(bad[2])}"})
                    if raised:
                        ret = [-37]
                    elif akind == "map":
                        want = [2 * u + 1 for u in log]
                        if not isinstance(res, list) or res != want:
                            failures.append({"key": "C04/map/results", "op": opi,
                                             "what": f"map returned {res!r}; the callable returned {want} in call order"})
                        ret = [-31] + ([int(x) for x in res] if isinstance(res, list) and all(isinstance(x, int) for x in res) else [-99])
                    else:
                        same = res is s if (akind != "shuffle_then_do" and via is None) else (res is not None and res is not s and type(res) is type(s))
                        if not same:
                            failures.append({"key": f"C04/{akind}/return", "op": opi, "what": f"{akind} returned {res!r}, not the set it was called on"})
                        ret = [-32] if same else [-99]
                    del res
                    after = run.ids(s)
                    aset = set(after)
                    rel_after = [a for a in after if a in set(snap)]
                    rel_snap = [a for a in snap if a in aset]
                    if rel_after != rel_snap:
                        failures.append({"key": f"C04/{akind}/set-order-changed", "op": opi,
                                         "what": f"the set's own order was {snap} before {akind} and is {after} after it: surviving members changed their relative order"})
                    full = list(args) + [kw[n] for n in sorted(kw)]
                    o = [-30]
                    for c in calls:
                        o += [c[0]] + [int(x) for x in c[2]] + [int(c[3][n]) for n in sorted(c[3]) if n not in ("tok", "xv") and isinstance(c[3][n], int)]
                    obs.append(o + ret + [-38] + run.nlog + run.view())
                    mop = ["activate", akind, form, sref, _model_script(script, run.nested_perms), full, [],
                           [_model_script(sc, run.nested_perms, lv + 1) for lv, sc in enumerate(scripts)], perm]
            elif kind == "group":
                _, akind, outer, byform, sref, m, script, args, kwargs, scripts = op[:10]
                s = run.resolve(sref)
                if s is None or m not in (1, 2, 3) or akind not in KINDS:
                    obs.append([-2])
                else:
                    snap = run.ids(s)
                    run.levels = [{int(i): acts for i, acts in sc} for sc in [script] + scripts]
                    run.pending = False
                    run.calls = []
                    ev0 = len(run.events)
                    token = object()
                    kw = _kw_of(kwargs)
                    gb = s.groupby(f"g{m}") if byform == "attr" else s.groupby(lambda a: a._hid % m)
                    xv = _exotic(opi + len(script))
                    import copy as _copy2
                    xvb = _copy2.deepcopy(xv) if isinstance(xv, (list, dict, set)) else None
                    keys = list(gb.groups.keys())
                    want_groups = []
                    for a in snap:
                        k = a % m
                        for kk, lst in want_groups:
                            if kk == k:
                                lst.append(a)
                                break
                        else:
                            want_groups.append((k, [a]))
                    got_groups = [(k, run.ids(v)) for k, v in gb.groups.items()]
                    if got_groups != want_groups:
                        failures.append({"key": "C04/groupby/groups", "op": opi,
                                         "what": f"groupby on members {snap} by id mod {m} gave {got_groups}; required (first-seen key order, set order inside) {want_groups}"})
                    rec = ctx["rec"] = []
                    raised = False
                    res = None
                    try:
                        if outer.endswith("-callable"):
                            inner = (lambda agent, /, *a, **k: run.call(agent, a, k))
                            res = getattr(gb, outer[:-9])(lambda grp, /, *a, **k: getattr(grp, akind)(inner, *a, **k), *args, tok=token, xv=xv, **kw)
                        else:
                            res = getattr(gb, outer)(akind, "act", *args, tok=token, xv=xv, **kw)
                    except _BOOMS:
                        raised = True
                    outer = outer.split("-")[0]
                    ctx["rec"] = None
                    calls = run.calls
                    run.levels = []
                    log = [c[0] for c in calls]
                    site = f"groupby-{akind}"
                    perms = []
                    nvis = len(want_groups)
                    if raised and log:
                        nvis = 1 + [k for k, _ in want_groups].index(log[-1] % m) if (log[-1] % m) in [k for k, _ in want_groups] else nvis
                    if akind == "shuffle_do":
                        # one recorded shuffle per visited group, in group order
                        rec = [(_living(b), _living(a)) for b, a in rec]
                        ok = len(rec) == nvis and all(set(b) <= set(g) and len(set(b)) == len(b) for (b, _), (_, g) in zip(rec, want_groups))
                        if ok:
                            perms = [a for _, a in rec]
                            expected = [x for p in perms for x in p] + [x for _, g in want_groups[nvis:] for x in g]
                            _check_activation(run, site, snap, expected, ev0, calls, failures, opi, raised=raised)
                        else:
                            failures.append({"key": f"C04/{site}/order", "op": opi,
                                             "what": f"GroupBy.{outer}('shuffle_do') over groups {want_groups} recorded the shuffles {rec}: not one shuffle of each group's live members, in group order"})
                            _check_activation(run, site, snap, snap, ev0, calls, failures, opi, ordered=False, raised=raised)
                    else:
                        expected = [x for _, g in want_groups for x in g]
                        if rec:
                            failures.append({"key": f"C04/{site}/order", "op": opi, "what": f"{site} consumed the generator: {rec}"})
                        _check_activation(run, site, snap, expected, ev0, calls, failures, opi, raised=raised)
                    if not raised and run.pending:
                        failures.append({"key": f"C04/{site}/exception-swallowed", "op": opi,
                                         "what": f"a callback raised during GroupBy.{outer}({akind!r}) but the call returned normally; calls: {log}"})
                    bad = _args_ok(calls, args, kw, token, xv, xvb)
                    if bad:
                        failures.append({"key": f"C04/{site}/args", "op": opi,
                                         "what": f"GroupBy.{outer}({akind!r}, 'act', *{args}, **{kw}) called agent {bad[0]} with args {bad[1]} kwargs {sorted(bad[2])}"})
                    # group-level result
                    per_group = {k: [] for k, _ in want_groups}
                    for u in log:
                        per_group.setdefault(u % m, []).append(u)
                    if raised:
                        pass
                    elif outer == "do":
                        if res is not gb:
                            failures.append({"key": "C04/groupby-do/return", "op": opi, "what": f"GroupBy.do returned {res!r}, not the GroupBy itself"})
                    else:
                        okres = isinstance(res, dict) and list(res.keys()) == keys
                        if okres:
                            for k in keys:
                                if akind == "map":
                                    okres = okres and res[k] == [2 * u + 1 for u in per_group.get(k, [])]
                                else:
                                    okres = okres and res[k] is gb.groups[k]
                        if not okres:
                            failures.append({"key": "C04/groupby-map/results", "op": opi,
                                             "what": f"GroupBy.map({akind!r}) returned {res!r}; required one entry per group {keys} holding that group's result"})
                    del res, gb
                    full = list(args) + [kw[n] for n in sorted(kw)]
                    o = []
                    for k in keys[:nvis]:
                        o += [-34, k]
                        for u in per_group.get(k, []):
                            o += [u] + full
                    # calls that belong to no visited group would be invisible above: flag them in the observation
                    if any((u % m) not in keys[:nvis] for u in log):
                        o += [-99]
                    obs.append(o + ([-37] if raised else [-32]) + [-38] + run.nlog + run.view())
                    mop = ["group", akind, outer, byform, sref, m, _model_script(script, run.nested_perms), full, [],
                           [_model_script(sc, run.nested_perms, lv + 1) for lv, sc in enumerate(scripts)], perms]
            elif kind == "grouplist":
                # groupby(by, result_type="list"): the GroupBy holds plain lists; do/map hand each list to the program's callable
                _, outer, byform, sref, m, script, args, kwargs, scripts = op[:9]
                s = run.resolve(sref)
                if s is None or m not in (1, 2, 3) or outer not in ("do", "map"):
                    obs.append([-2])
                else:
                    snap = run.ids(s)
                    run.levels = [{int(i): acts for i, acts in sc} for sc in [script] + scripts]
                    run.pending = False
                    run.calls = []
                    ev0 = len(run.events)
                    token = object()
                    kw = _kw_of(kwargs)
                    gb = (s.groupby(f"g{m}", result_type="list") if byform == "attr"
                          else s.groupby(lambda a: a._hid % m, result_type="list"))
                    want_groups = []
                    for a in snap:
                        k = a % m
                        for kk, lst in want_groups:
                            if kk == k:
                                lst.append(a)
                                break
                        else:
                            want_groups.append((k, [a]))
                    got_groups = [(k, [a._hid for a in v] if isinstance(v, list) else None) for k, v in gb.groups.items()]
                    if got_groups != want_groups:
                        failures.append({"key": "C04/groupby-list/groups", "op": opi,
                                         "what": f"groupby(result_type='list') on members {snap} by id mod {m} gave {got_groups}; required plain lists {want_groups}"})
                    keys = [k for k, _ in want_groups]
                    run.strong = set(snap)
                    raised = False
                    res = None
                    try:
                        xv = _exotic(opi + 7)
                        res = getattr(gb, outer)(lambda grp, /, *a, **k: [run.call(agent, a, k) for agent in grp], *args, tok=token, xv=xv, **kw)
                    except _BOOMS:
                        raised = True
                    calls = run.calls
                    run.levels = []
                    log = [c[0] for c in calls]
                    site = "groupby-list"
                    expected = [x for _, g in want_groups for x in g]
                    t_raise = next((t for t in range(ev0, len(run.events)) if run.events[t][0] == "raise" and run.events[t][2] is None), None)
                    upto = [c[0] for c in calls if t_raise is None or c[1] < t_raise]
                    # the program's own loop over strong references: every member at groupby time, once, in group order
                    if upto != expected[:len(upto)] or (not raised and upto != expected):
                        failures.append({"key": f"C04/{site}/members-not-each-once", "op": opi,
                                         "what": f"GroupBy.{outer}(callable) over the lists {want_groups} reached the agents {log}; every member once, in order: {expected}"})
                    if raised != (t_raise is not None) or (raised and len(log) != len(upto)):
                        failures.append({"key": f"C04/{site}/exception-swallowed" if not raised else f"C04/{site}/called-after-exception", "op": opi,
                                         "what": f"a callback raised={t_raise is not None}, GroupBy.{outer} raised={raised}; calls: {log}"})
                    bad = _args_ok(calls, args, kw, token, xv)
                    if bad:
                        failures.append({"key": f"C04/{site}/args", "op": opi,
                                         "what": f"GroupBy.{outer}(callable, *{args}, **{kw}) handed args {bad[1]} kwargs {sorted(bad[2])} on"})
                    per_group = {k: [] for k in keys}
                    for u in log:
                        per_group.setdefault(u % m, []).append(u)
                    nvis = len(keys)
                    if raised and log and (log[-1] % m) in keys:
                        nvis = 1 + keys.index(log[-1] % m)
                    if not raised:
                        if outer == "do" and res is not gb:
                            failures.append({"key": f"C04/{site}/return", "op": opi, "what": f"GroupBy.do returned {res!r}, not the GroupBy itself"})
                        if outer == "map" and not (isinstance(res, dict) and list(res.keys()) == keys
                                                   and all(res[k] == [2 * u + 1 for u in per_group[k]] for k in keys)):
                            failures.append({"key": f"C04/{site}/results", "op": opi, "what": f"GroupBy.map returned {res!r}"})
                    del res, gb
                    run.strong = set()
                    full = list(args) + [kw[n] for n in sorted(kw)]
                    o = []
                    for k in keys[:nvis]:
                        o += [-34, k]
                        for u in per_group.get(k, []):
                            o += [u] + full
                    obs.append(o + ([-37] if raised else [-32]) + [-38] + run.nlog + run.view())
                    mop = ["grouplist", outer, byform, sref, m, _model_script(script, run.nested_perms), full, [],
                           [_model_script(sc, run.nested_perms, lv + 1) for lv, sc in enumerate(scripts)]]
            elif kind in ("groupcount", "groupagg"):
                # groupby(...).count()  /  groupby(...).agg("unique_id", sum)
                _, byform, sref, m = op
                s = run.resolve(sref)
                if s is None or m not in (1, 2, 3):
                    obs.append([-2])
                else:
                    snap = run.ids(s)
                    gb = s.groupby(f"g{m}") if byform == "attr" else s.groupby(lambda a: a._hid % m)
                    res = gb.count() if kind == "groupcount" else gb.agg("_hid", sum)
                    keys = []
                    for a in snap:
                        if a % m not in keys:
                            keys.append(a % m)
                    want = {k: (len([a for a in snap if a % m == k]) if kind == "groupcount" else sum(a for a in snap if a % m == k)) for k in keys}
                    if not isinstance(res, dict) or list(res.items()) != list(want.items()):
                        failures.append({"key": f"C04/groupby-{kind[5:]}/results", "op": opi,
                                         "what": f"groupby(id mod {m}).{kind[5:]}() over members {snap} returned {res!r}; required (first-seen key order) {want}"})
                    o = [-39]
                    if isinstance(res, dict):
                        for k, v in res.items():
                            o += [int(k), int(v)] if isinstance(v, int) else [int(k), -99]
                    del gb
                    obs.append(o + run.view())
            elif kind == "space":
                # from now on the agents of this history live in a space (placed at creation, looked around and taken out by
                # whoever removes them); the model is not concerned: a correct library keeps no reference of its own
                if run.space is None and not run.registered:
                    run.make_space(op[1])
                obs.append(run.view())
            elif kind == "iterhold":
                # the program starts iterating over a set and abandons the iterator after the first agent: the suspended
                # generator keeps that agent alive and keeps the WeakKeyDictionary in "iterating" mode (removals of dead keys are
                # deferred, keyrefs() snapshots then contain DEAD references).  Oracle only.
                s = run.resolve(op[1])
                if s is not None:
                    it = iter(s)
                    a = next(it, None)
                    if a is not None:
                        run.strong_forever.add(a._hid)
                    del a
                    run.iters.append(it)
                model_ok = False
                obs.append([-2])
            elif kind == "foreignset":
                # a second model with n agents and a program-made set mixing its agents with ours (oracle only: the Gallina
                # model has one registry).  ["foreignset", n, [ids in set order; ids >= 1001 name the foreign agents]]
                _, n, order = op
                mesa = env["mesa"]
                if not run.models:
                    other = env["HookModel"](seed=11)
                    other._hid_base = 1000
                    run.models.append(other)
                other = run.models[0]
                for _ in range(max(0, min(int(n), 4))):
                    ag = env["classes"][0](other)
                    run.wv[ag._hid] = ag
                    run.foreign.add(ag._hid)
                    run.registered.add(ag._hid)
                    run.created_at[ag._hid] = len(run.events)
                    run.events.append(("create", ag._hid))
                    del ag
                from mesa.agent import AgentSet

                ags = [run.wv.get(i) for i in order]
                run.user_sets.append(AgentSet([a for a in ags if a is not None], random=run.model.random))
                del ags
                model_ok = False
                obs.append(run.view())
            else:
                raise ValueError(kind)
            failures += run.by_type_failures(opi)
        except Exception as e:  # noqa: BLE001
            ctx["rec"] = None
            run.levels = []
            run.strong = set()
            run.depth = 0
            obs.append([-1, 99])
            site = op[1] if kind in ("activate", "group") else kind
            failures.append({"key": f"C04/{site}/unexpected-exception", "op": opi,
                             "what": f"{op} raised {type(e).__name__}: {e}"})
        ops_for_model.append(mop)
    ctx["cur"] = None
    n_created = sum(1 for e in run.events if e[0] == "create" and e[1] not in run.foreign)
    n_removed = sum(1 for e in run.events if e[0] == "rm" and e[1] not in run.foreign)
    if run.model.n_reg != n_created or run.model.n_dereg != n_removed:
        failures.append({"key": "C04/hooks/registration-hook-calls", "op": len(case["ops"]) - 1,
                         "what": f"Model.register_agent was called {run.model.n_reg} times for {n_created} agents created, "
                                 f"deregister_agent completed {run.model.n_dereg} times for {n_removed} effective removals"})
    # Agent._ids is a class-level dict keyed by model: forget this model so that it can be freed
    env["mesa"].Agent._ids.pop(run.model, None)
    for other in run.models:
        env["mesa"].Agent._ids.pop(other, None)
    if sum(min(int(o[1][2]), SCALE_MAX) for o in case["ops"] if o[0] == "act" and o[1][0] == "createn") > SCALE_MODEL_MAX:
        model_ok = False
    return {"obs": obs, "failures": failures, "ops_for_model": ops_for_model, "model": model_ok}


# ------------------------------------------------------------------ model side
def _act(a, level=0):
    k = a[0]
    if k == "nop":
        return "Nop"
    if k == "rmself":
        return f"RemoveSelf {L.b(a[1])}"
    if k == "rm":
        return f"RemoveId {L.z(a[1])} {L.b(a[2])}"
    if k == "create":
        return f"Create {L.z(a[1] % NCLS)} {L.z(max(0, min(int(a[2]), MAXCREATE)))} {L.b(a[3])}"
    if k == "createn":
        return f"Create {L.z(a[1] % NCLS)} {L.z(max(0, min(int(a[2]), SCALE_MAX)))} {L.b(a[3])}"
    if k == "drop":
        return f"DropRef {L.z(a[1])}"
    if k == "add":
        return f"AddRef {L.z(a[1])}"
    if k == "raise":
        return "Raise"
    if k in ("nested", "trynested"):
        if a[1] not in KINDS or (level >= 1 and a[1] == "shuffle_do"):
            return "Nop"
        return f"{'Nested' if k == 'nested' else 'TryNested'} {_K[a[1]]} {_sref(a[2])} {L.zlist(a[3] if len(a) > 3 else [])}"
    raise ValueError(k)


def _sref(s):
    if s[0] == "all":
        return "SAll"
    if s[0] == "type":
        return f"(SType {L.z(s[1] % NCLS)})"
    return f"(SUser {L.z(s[1])})"


def _script(sc, level=0):
    # the driver's dict keeps the LAST entry for an id; the model's assoc lookup takes the first
    d = {}
    for i, acts in sc:
        d[int(i)] = acts
    return L.lst([L.pair(L.z(i), L.lst([_act(a, level) for a in acts])) for i, acts in d.items()])


def _scripts_lit(scs):
    return L.lst([_script(sc, lv + 1) for lv, sc in enumerate(scs)])


_K = {"do": "KDo", "shuffle_do": "KShuffleDo", "map": "KMap"}


def coq_case(case):
    ops = case.get("_ops_for_model") or case["ops"]
    out = []
    for op in ops:
        op = _norm(op)
        k = op[0]
        if k == "act":
            a = op[1]
            out.append(f"OAct ({_act(a) if a[0] not in ('raise', 'nested', 'trynested') else 'Nop'})")
        elif k == "newset":
            out.append(f"ONewSet {L.zlist(op[1])}")
        elif k == "collect":
            out.append("OCollect")
        elif k == "activate":
            _, akind, form, sref, script, args, kwargs, scripts = op[:8]
            perm = op[8] if len(op) > 8 else []
            if akind.startswith("copy_"):
                akind = akind[5:]     # a weakly held copy behaves like the set itself
            tail = f"{_sref(sref)} {L.zlist(perm)} {_script(script)} {_scripts_lit(scripts)} {L.zlist(list(args) + _kw_values(kwargs))}"
            if akind == "shuffle_then_do":
                out.append(f"OShuffleThenDo {tail}")
            elif akind in _K:
                out.append(f"OActivate {_K[akind]} {tail}")
            else:
                out.append("OActivate KDo (SUser (-1)) [] [] [] []")
        elif k == "group":
            _, akind, outer, byform, sref, m, script, args, kwargs, scripts = op[:10]
            perms = op[10] if len(op) > 10 else []
            ok = m in (1, 2, 3) and akind in _K
            out.append(f"OGroup {_K.get(akind, 'KDo')} {_sref(sref)} {L.z(m if ok else 0)} {L.lst([L.zlist(p) for p in perms])} {_script(script)} {_scripts_lit(scripts)} {L.zlist(list(args) + _kw_values(kwargs))}")
        elif k == "grouplist":
            _, outer, byform, sref, m, script, args, kwargs, scripts = op[:9]
            ok = m in (1, 2, 3) and outer in ("do", "map")
            out.append(f"OGroupList {_sref(sref)} {L.z(m if ok else 0)} {_script(script)} {_scripts_lit(scripts)} {L.zlist(list(args) + _kw_values(kwargs))}")
        elif k in ("groupcount", "groupagg"):
            out.append(f"{'OGroupCount' if k == 'groupcount' else 'OGroupAgg'} {_sref(op[2])} {L.z(op[3] if op[3] in (1, 2, 3) else 0)}")
        elif k in ("foreignset", "iterhold", "space"):
            out.append("OCollect")   # never evaluated: histories with a second model are oracle-only
        else:
            raise ValueError(k)
    return L.lst(out)


def op_kinds(case):
    out = []
    for op in case["ops"]:
        if op[0] == "activate":
            out.append(f"{op[1]}/{op[2]}/{op[3][0]}")
            for _, acts in op[4]:
                out += [f"callback:{a[0]}" for a in acts if a[0] in ("raise", "nested", "trynested")]
            out += [f"nesting-depth:{1 + len(_scripts(op[7]))}"] if len(op) > 7 and op[7] else []
        elif op[0] == "group":
            out.append(f"groupby.{op[2]}({op[1]})/{op[3]}")
            for _, acts in op[6]:
                out += [f"callback:{a[0]}" for a in acts if a[0] in ("raise", "nested", "trynested")]
            out += [f"nesting-depth:{1 + len(_scripts(op[9]))}"] if len(op) > 9 and op[9] else []
        elif op[0] == "grouplist":
            out.append(f"groupby-list.{op[1]}/{op[2]}")
        elif op[0] == "foreignset":
            out.append("second-model-set")
        elif op[0] == "iterhold":
            out.append("abandoned-iterator")
        elif op[0] == "space":
            out.append(f"space:{op[1]}")
        elif op[0] in ("groupcount", "groupagg"):
            out.append(f"groupby.{op[0][5:]}/{op[1]}")
        elif op[0] == "act":
            out.append("program:" + op[1][0])
        else:
            out.append(op[0])
    return out


def nontrivial(case):
    for op, o in zip(case["ops"], case.get("_obs", [])):
        if op[0] in ("activate", "group", "grouplist") and o and o[0] in (-30, -34):
            # at least two calls
            if op[0] == "activate":
                width = 1 + len(op[5]) + len(op[6])
                end = next((i for i, v in enumerate(o) if v in (-31, -32, -37, -99, -38)), None)
                if end is not None and (end - 1) // width >= 2:
                    return True
            else:
                return True
    return False


LEVEL_TEXT = ("34 machine-checked Coq theorems (all closed under the global context, 17 non-vacuity examples) over a Gallina transcription of "
              "AgentSet.do/shuffle_do/map, shuffle().do, GroupBy.do/map/count/agg (AgentSet and list groups) and the registry they run on, "
              "with CPython reference counting explicit. For ALL histories of ops, ALL callback scripts (incl. raising, nesting to any "
              "depth, catching) and ALL shuffle outcomes: the registry invariant holds, model.agents is the registry and agents_by_type[c] "
              "the registry filtered by exact class; one activation calls no agent twice, only members of the snapshot, in set order (in "
              "the shuffled order for shuffle_do, which equals shuffle() followed by do()), exactly those whose turn is reached alive - "
              "every member still registered at its turn, never a dead one, never one created during the call - and leaves the order of "
              "every set untouched; an exception ends the loop at once (log = prefix + raiser), a caught one stays inside the callback, "
              "the frame stack is restored; group activations visit the groups in first-seen key order, each member once; list groups "
              "reach every member even if removed; count() partitions the set. Code-level T1: the functions are re-translated from the "
              "working tree on every run and bridge lemmas (proved once for every record passing a decidable check over all boolean "
              "inputs) show that the translated do/shuffle_do/map/GroupBy.do/map/count/agg and the statement-wise register/deregister "
              "ARE the model's functions; the headline theorems are restated about the translated code. The model is tied to the "
              "implementation by differential evaluation (T2) and an independent oracle states the property on the implementation.")
LEVEL_NOTE = ("Theorems are about the model; CPython's refcounting/weakref semantics are modelled, not verified; which permutation "
              "random.shuffle picks is an input of the model and is compared implementation-against-implementation; sets mixing two "
              "models and abandoned iterators are oracle-only; GroupBy.do/map on list groups is modelled for the callable form only "
              "(lists have no methods). No defect of the unchanged tree was found in this area (no fix, no known finding). No axioms.")
TECHNIQUE = ("Coq proof (induction over visiting order / op lists / nesting depth, state invariants, executor-generic sections; closed under "
             "global context) + code-level T1 (pyexpr translation into records, decidable checks, bridge lemmas) + vm_compute correspondence "
             "+ independent oracle with recorded shuffle outcomes")
DESIGN_REF = "DESIGN.md section 4, C04"
