"""C07 - cell-space connections and neighbourhoods are exactly the geometry's.
Model: coq/Model/CellGeom.v (neighbourhood recursion + caches over an arbitrary connection table;
n-D orthogonal / hex / network / Delaunay-edge geometry)."""
import itertools
import random as _random

import coqlit as L

ID = "C07"
COQ_PROPERTY_FILE = "Properties/C07.v"
COQ_DEPS = ["Common/ListX.v", "Common/ObsHash.v", "Generated/Tables.v", "Model/CellGeom.v", "Proofs/CellGeomProofs.v",
            "Proofs/CellGeomBridge.v"]
COQ_IMPORTS = "From Mesa Require Import Model.CellGeom."
COQ_CASE_TYPE = "case"
COQ_RUN = "run_case"
TABLE_CONSTRUCTS = ["moore_offsets_2d", "vn_offsets_2d", "hex_even_offsets", "hex_odd_offsets", "hex_selector",
                    "cell_inner_cache", "cell_get_cache", "cell_nbhd_cached_property",
                    # code-level T1 (harness/tables/cellgeom_code.py)
                    "grid_connect_2d_code", "grid_connect_nd_code", "grid_moore_nd_construction", "grid_vn_nd_construction",
                    "grid_dispatch_skeleton", "cell_connect_skeleton", "cell_nbhd_conditions_code", "cell_nbhd_skeleton",
                    "vor_export_code", "vor_connect_code", "net_connect_code"]
RULE = ("histories = one cell space + operations on it. Spaces: OrthogonalMooreGrid / OrthogonalVonNeumannGrid with 1-4 axes of sizes "
        "1-4(5) (quick: every dimension vector over {1..4}^{1..3} with <= 16 cells, 4 axes one vector per multiset of sizes in two "
        "orders) x torus; HexGrid incl. sizes 1 and 2, tori only with even size along the parity axis; Network over simple graphs incl. "
        "isolated nodes and the empty graph, over DiGraphs (boundary of the statement), over str/tuple node labels (oracle only); "
        "VoronoiGrid over integer-lattice points in general position (1-10 points) and over binary64 points with a margin from "
        "degeneracy (oracle only, exact rational predicates); 30% of the spaces use cells whose bool() is False and len() is 0. "
        "Operations: `build` (read every cell's connections; a twin space is built from the SAME argument object), `cert` (Voronoi: "
        "every triangle of the implementation's triangulation), get_neighborhood(radius, include_center) in three call shapes plus "
        "numpy-scalar / float / bool-int spellings of the arguments, `.neighborhood`, `place` (CellAgent of one of three classes enters a "
        "cell), `agents` (len / cells / agents / [cell] of the returned CellCollection, after abandoned iterators); radii 0, -1, "
        "1..max(dims)+1, occasionally 40 and - one oracle-only history - 256..258 on a 262-cell path; each (cell, radius) asked with "
        "both flags, shuffled, some queries repeated at the end. SCALE stream (6 large spaces per quick run, implementation + oracle "
        "only; two medium ones also through the model). USER-CODE stream (40 per quick run, implementation + oracle only): user Cell "
        "subclasses (falsy while empty + iterable, class-level defaults, extra constructor argument) and user subclasses of every space "
        "class (docstring-only, extra argument, overridden _connect_cells calling super), agents placed, the space deep-copied / pickled "
        "mid-history, six public entry points for the direct neighbourhood must agree at build and after every copy. `snap` (35% of the query blocks): deepcopy / pickle.dumps / copy.copy of a cell, collection, space, model or agent is made and discarded - the ORIGINAL must stay exactly the geometry (model: Build on a built space). non-trivial = build + at least 2 queries with a non-empty answer; "
        "distinct = SHA1 of the history")
TRUSTED_BASE = [
    "Coq 8.16.1 kernel (coqc); vm_compute for finite facts over the regenerated tables / translated code and for evaluating the model in the correspondence",
    "no axioms: Print Assumptions reports 'Closed under the global context' for each of the 51 C07 theorems",
    "T1 extractors harness/tables/grid_geom.py (2-D offset tables, hex parity selector translated with pyexpr, functools.cache parameter "
    "tuples; a missing cache on _neighborhood is reported as broken) and harness/tables/cellgeom_code.py (pyexpr translation of "
    "Grid._connect_single_cell_2d/_nd, Delaunay.export_triangles, VoronoiGrid._connect_cells, Network._connect_single_cell, the "
    "conditions and recursive-call arguments of Cell._neighborhood; literals of the n-D offset constructions; statement skeletons "
    "modulo local names, messages, docstrings for the glue); harness/pyexpr.py",
    "harness/props/C07.py driver+observer and the Gallina literal printer (T2, differential testing, not a proof)",
    "Model/CellGeom.v: dict = insertion-ordered key list (C07_connections_dict ties the overwrite reading to it); the connection table the "
    "neighbourhood model runs on is the implementation's own (passed in by `build`), compared separately with the model's geometry; "
    "itertools.product / combinations, networkx adjacency order, functools.cache key equality (equal-and-equally-hashed arguments share "
    "an entry) as modelled",
    "VoronoiGrid: Bowyer-Watson in binary64 is NOT modelled or proved; its result is validated per instance (delaunay_cert / "
    "vor_conn_cert evaluated inside Coq on the exported triangulation, exact integer orientation / in-circle tests)",
    "Uint63 primitive hash only in scratch Cases files, never under a theorem",
]
ASSUMPTIONS = [
    "dimensions are positive Python ints; radii are integers (int, numpy integer, integral float, True); cells are addressed by their position in all_cells",
    "order of cells in a neighbourhood / of connections / of agents is not part of the statement: compared as sorted sets plus a duplicate flag",
    "hex tori only with an even size along the parity axis (dimensions[1]) - C07_hex_odd_torus_refuted shows why; hexagon layout = even-q with column j = coordinate[1]",
    "Network: the statement is about simple undirected graphs; directed graphs are modelled as a boundary (connections = successors, no symmetry); "
    "node labels other than ints are oracle-only",
    "Voronoi: no three centroids collinear, no four cocircular, all well inside the triangulation frame (integer points in [0,20]^2 for the "
    "model and certificate; binary64 points in [0,10)^2 with margins are oracle-only)",
    "connections are not rewired after construction (connect/disconnect after the first query would leave the functools caches stale: outside the statement)",
    "speed is not part of the statement: a query exceeding the 2 s CPU budget of the driver is recorded ([-4]) and never a verdict by itself",
]
E_RADIUS = 1
_DS = "mesa/discrete_space/"
# the source functions the Gallina model transcribes (harness/fingerprint.py: a change escalates the search)
SOURCE_FUNCS = [
    (_DS + "cell.py", "Cell.connect"), (_DS + "cell.py", "Cell.neighborhood"), (_DS + "cell.py", "Cell.get_neighborhood"),
    (_DS + "cell.py", "Cell._neighborhood"),
    (_DS + "grid.py", "Grid.__init__"), (_DS + "grid.py", "Grid._connect_cells"), (_DS + "grid.py", "Grid._connect_single_cell_nd"),
    (_DS + "grid.py", "Grid._connect_single_cell_2d"), (_DS + "grid.py", "OrthogonalMooreGrid"),
    (_DS + "grid.py", "OrthogonalVonNeumannGrid"), (_DS + "grid.py", "HexGrid"),
    (_DS + "network.py", "Network"),
    (_DS + "voronoi.py", "Delaunay"), (_DS + "voronoi.py", "VoronoiGrid.__init__"), (_DS + "voronoi.py", "VoronoiGrid._connect_cells"),
]
MAX_MODEL_CONNS = 1400    # connection-table entries above which a history is checked by the oracle only


# ================================================================== geometry statements (oracle side)
def _cells_of(dims):
    return list(itertools.product(*(range(d) for d in dims)))


def _orth_expected(moore, dims, torus):
    """{cell: {offset: target}} - the property statement, independent of the source tables"""
    n = len(dims)
    offs = []
    for d in itertools.product((-1, 0, 1), repeat=n):
        if moore and max(abs(x) for x in d) == 1:
            offs.append(d)
        elif not moore and sum(abs(x) for x in d) == 1:
            offs.append(d)
    exp = {}
    for c in _cells_of(dims):
        e = {}
        for d in offs:
            t = tuple(a + b for a, b in zip(c, d))
            if torus:
                t = tuple(a % m for a, m in zip(t, dims))
            if all(0 <= a < m for a, m in zip(t, dims)):
                e[d] = t
        exp[c] = e
    return exp


def _cube(i, j):
    return (j, i - (j + (j & 1)) // 2)


def _uncube(q, r):
    return (r + (q + (q & 1)) // 2, q)


_CUBE_DIRS = [(1, 0), (1, -1), (0, -1), (-1, 0), (-1, 1), (0, 1)]


def _hex_expected(dims, torus):
    h, w = dims
    exp = {}
    for (i, j) in _cells_of(dims):
        q, r = _cube(i, j)
        e = {}
        for dq, dr in _CUBE_DIRS:
            i2, j2 = _uncube(q + dq, r + dr)
            d = (i2 - i, j2 - j)
            if torus:
                i2, j2 = i2 % h, j2 % w
            if 0 <= i2 < h and 0 <= j2 < w:
                e[d] = (i2, j2)
        exp[(i, j)] = e
    return exp


def _orient(a, b, c):
    return (b[0] - a[0]) * (c[1] - a[1]) - (b[1] - a[1]) * (c[0] - a[0])


def _incircle(a, b, c, p):
    ax, ay = a[0] - p[0], a[1] - p[1]
    bx, by = b[0] - p[0], b[1] - p[1]
    cx, cy = c[0] - p[0], c[1] - p[1]
    return ((ax * ax + ay * ay) * (bx * cy - cx * by) - (bx * bx + by * by) * (ax * cy - cx * ay)
            + (cx * cx + cy * cy) * (ax * by - bx * ay))


def _strictly_inside(a, b, c, p):
    o = _orient(a, b, c)
    if o > 0:
        return _incircle(a, b, c, p) > 0
    if o < 0:
        return _incircle(a, c, b, p) > 0
    return False


def _delaunay_edges(pts):
    """Delaunay edges of a point set in general position: {i,j} such that some circle through
    both has no point strictly inside; for >= 3 points: some third point k with an empty circumcircle."""
    n = len(pts)
    if n == 2:
        return {(0, 1)}
    edges = set()
    for i, j, k in itertools.combinations(range(n), 3):
        if _orient(pts[i], pts[j], pts[k]) == 0:
            continue
        if not any(_strictly_inside(pts[i], pts[j], pts[k], p) for p in pts):
            edges |= {(i, j), (i, k), (j, k)}
    return edges


def _general_position(pts):
    if len(set(map(tuple, pts))) != len(pts):
        return False
    for a, b, c in itertools.combinations(pts, 3):
        if _orient(a, b, c) == 0:
            return False
    for a, b, c, d in itertools.combinations(pts, 4):
        if _incircle(a, b, c, d) == 0:
            return False
    return True


# ================================================================== generation
def _queries(rng, ncells, rmax, n, cells=None):
    """n (cell, radius) sites, each asked with both flags, some repeated, in shuffled call shapes"""
    qs = []
    for _ in range(n):
        c = rng.randrange(ncells) if cells is None else rng.choice(cells)
        r = rng.randint(1, rmax)
        first = rng.random() < 0.5
        qs.append(["nbhd", rng.randrange(3), c, r, first])
        qs.append(["nbhd", rng.randrange(3), c, r, not first])
        if rng.random() < 0.4:
            qs.append(["nbhd", rng.randrange(3), c, max(1, r + rng.choice([-1, 1])), rng.random() < 0.5])
        if rng.random() < 0.25:
            qs.append(["prop", c])
        if rng.random() < 0.08:
            qs.append(["nbhd", rng.randrange(3), c, rng.choice([0, -1]), rng.random() < 0.5])
        if rng.random() < 0.15:
            # the same query with the radius / flag spelled as numpy scalar, float or bool/int: equal and equally hashed, so the
            # functools caches treat it as the positional int / bool spelling (model op: form 0)
            qs.append(["nbhd", 0, c, r, rng.random() < 0.5, rng.choice(["np", "float", "bool"])])
        if rng.random() < 0.06:
            qs.append(["nbhd", rng.randrange(3), c, rng.choice([rmax + 7, 40]), rng.random() < 0.5])   # far beyond the space
    # CellCollection level: agents enter cells between the queries; the collection of a (possibly cached)
    # neighbourhood must show the agents that are in its cells at the time it is read
    if rng.random() < 0.5:
        pool = list(range(ncells)) if cells is None else list(cells)
        for aid in range(1, rng.randint(2, 5)):
            qs.append(["place", aid, rng.choice(pool)])
        for _ in range(rng.randint(1, 4)):
            c = rng.choice(pool)
            r = rng.randint(1, rmax)
            qs.append(["agents", rng.randrange(3), c, r, rng.random() < 0.5])
            if rng.random() < 0.5:
                qs.append(["place", rng.randint(1, 4), rng.choice(pool)])
                qs.append(["agents", rng.randrange(3), c, r, rng.random() < 0.5])
    rng.shuffle(qs)
    # something reaching the cells is copied / pickled and discarded: the ORIGINAL must stay exactly the geometry's - checked right
    # away and by the queries that follow (fresh radii and cached ones)
    if rng.random() < 0.35:
        pool = list(range(ncells)) if cells is None else list(cells)
        c = rng.choice(pool) if pool else 0
        snap = ["snap", rng.choice(["cell", "collection", "space", "space", "model", "agent"]),
                rng.choice(["deepcopy", "pickle", "copy"]), c]
        qs.insert(rng.randrange(len(qs) + 1), snap)
        if pool:
            for r in {rng.randint(1, rmax), rng.randint(1, rmax)}:
                qs.append(["nbhd", rng.randrange(3), c, r, rng.random() < 0.5])
            qs.append(["nbhd", rng.randrange(3), rng.choice(pool), rng.randint(1, rmax), False])
    # repetition: re-ask a few of the earlier queries at the end (answers must not have changed)
    for q in rng.sample(qs, min(len(qs), 3)):
        qs.append(list(q))
    return qs


def _prod(dims):
    p = 1
    for d in dims:
        p *= d
    return p


def _grid_case(rng, kind, dims, torus, nq):
    ncells = _prod(dims)
    rmax = max(dims) + 1
    ops = [["build"]] + _queries(rng, ncells, rmax, nq)
    if rng.random() < 0.15:
        ops.insert(rng.randrange(1, len(ops) + 1), ["build"])
    if rng.random() < 0.05:
        ops.append(["cert"])  # not a Voronoi space: no-op
    if rng.random() < 0.1:
        ops.append(["nbhd", 0, ncells + rng.randint(0, 2), 1, False])  # no such cell: no-op
    return {"space": {"kind": kind, "dims": list(dims), "torus": torus}, "ops": ops}


def _all_queries_case(kind, dims, torus, rmax, rng):
    """every cell x radius 1..rmax x both flags, shuffled"""
    ncells = _prod(dims)
    qs = [["nbhd", (c + r) % 3, c, r, ic] for c in range(ncells) for r in range(1, rmax + 1) for ic in (False, True)]
    rng.shuffle(qs)
    out = []
    for s in range(0, len(qs), 70):
        out.append({"space": {"kind": kind, "dims": list(dims), "torus": torus}, "ops": [["build"]] + qs[s:s + 70]})
    return out


def _dim_vectors(max_size, max_axes, max_cells):
    out = []
    for n in range(1, max_axes + 1):
        for dims in itertools.product(range(1, max_size + 1), repeat=n):
            if _prod(dims) <= max_cells:
                out.append(dims)
    return out


def _rand_graph(rng, n):
    style = rng.choice(["gnp", "gnp", "path", "cycle", "star", "empty", "complete", "tree"])
    nodes = list(range(n))
    edges = []
    if style == "gnp":
        p = rng.choice([0.15, 0.3, 0.5])
        edges = [[u, v] for u, v in itertools.combinations(nodes, 2) if rng.random() < p]
    elif style == "path":
        edges = [[i, i + 1] for i in range(n - 1)]
    elif style == "cycle" and n >= 3:
        edges = [[i, (i + 1) % n] for i in range(n)]
    elif style == "star":
        edges = [[0, i] for i in range(1, n)]
    elif style == "complete":
        edges = [[u, v] for u, v in itertools.combinations(nodes, 2)]
    elif style == "tree":
        edges = [[rng.randrange(i), i] for i in range(1, n)]
    rng.shuffle(edges)
    edges = [e if rng.random() < 0.5 else [e[1], e[0]] for e in edges]
    if style in ("gnp", "path", "tree") and n >= 3 and rng.random() < 0.5:
        # make the last node isolated
        edges = [e for e in edges if n - 1 not in e]
    return edges


def _net_case(rng, n=None, directed=False):
    n = n or rng.randint(1, 8)
    edges = _rand_graph(rng, n)
    if directed and edges and rng.random() < 0.5:
        # some edges in both directions
        edges += [[v, u] for u, v in rng.sample(edges, max(1, len(edges) // 3))]
    ops = [["build"]] + _queries(rng, n, min(n, 4) + 1, rng.randint(2, 6))
    return {"space": {"kind": "dnet" if directed else "net", "n": n, "edges": edges}, "ops": ops}


def _rand_points(rng, n, lim=20):
    for _ in range(200):
        pts = []
        while len(pts) < n:
            p = [rng.randint(0, lim), rng.randint(0, lim)]
            if p not in pts:
                pts.append(p)
        if _general_position(pts):
            return pts
    return [[0, 0], [7, 1], [3, 9]][:n]


def _vor_case(rng, n=None):
    n = n or rng.choice([1, 2, 3, 3, 4, 4, 5, 5, 6, 6, 7, 8, 9, 10])
    pts = _rand_points(rng, n, rng.choice([6, 12, 20]))
    ops = [["build"], ["cert"]] + _queries(rng, len(pts), 3, rng.randint(1, 4))
    return {"space": {"kind": "vor", "pts": pts}, "ops": ops}


def _hex_dims(lim):
    return [(h, w) for h in range(1, lim + 1) for w in range(1, lim + 1)]


def gen_cases(rng, tier):
    cases = []
    quick = tier == "quick"
    # 1. orthogonal grids: every dimension vector with few cells, both classes, torus on/off
    vecs = _dim_vectors(4, 4, 16 if quick else 36)
    if quick:
        # 4 axes: one representative per multiset of sizes in two orders (small axes first / last); every vector
        # with <= 3 axes stays (sizes 1 and 2 in every position: colliding wrapped offsets, self connections)
        vecs = [d for d in vecs if len(d) < 4 or list(d) == sorted(d) or list(d) == sorted(d, reverse=True)]
    for dims in vecs:
        for kind in ("moore", "vn"):
            for torus in (False, True):
                cases.append(_grid_case(rng, kind, dims, torus, rng.randint(2, 4)))
    # exhaustive queries on the smallest shapes (sizes 1 and 2: colliding wrapped offsets, self connections)
    for dims in _dim_vectors(3 if quick else 4, 3, 9 if quick else 16):
        for kind in ("moore", "vn"):
            for torus in (False, True):
                cases += _all_queries_case(kind, dims, torus, 3, rng)
    # sampled larger ones
    for _ in range(60 if quick else 3000):
        n = rng.choice([1, 2, 2, 2, 3, 3, 4])
        dims = tuple(rng.randint(1, 5 if n <= 2 else (4 if n == 3 else 3)) for _ in range(n))
        cases.append(_grid_case(rng, rng.choice(["moore", "vn"]), dims, rng.random() < 0.5, rng.randint(2, 5)))
    # deep recursion: odd and even radii above 256 on a path that is not saturated (oracle only: the memo of the
    # Gallina model is an association list, 16k entries are too slow for vm_compute)
    cases.append({"space": {"kind": "vn", "dims": [262], "torus": False}, "oracle_only": True,
                  "ops": [["build"], ["nbhd", 0, 0, 257, False], ["nbhd", 1, 2, 258, True], ["nbhd", 0, 0, 256, False]]})
    # 2. hex
    for (h, w) in _hex_dims(4 if quick else 6):
        for torus in (False, True):
            if torus and w % 2:
                continue
            cases.append(_grid_case(rng, "hex", (h, w), torus, rng.randint(2, 4)))
            if h * w <= 8:
                cases += _all_queries_case("hex", (h, w), torus, 3, rng)
    # 3. networks
    for n in range(1, 5):
        cases.append(_net_case(rng, n))
    for _ in range(60 if quick else 2500):
        cases.append(_net_case(rng))
    # 3b. directed graphs: outside the statement's quantifier (simple undirected graphs); connections = successors,
    #     neighbourhoods = balls of directed hops, no symmetry demanded
    for _ in range(15 if quick else 300):
        cases.append(_net_case(rng, directed=True))
    cases.append({"space": {"kind": "net", "n": 0, "edges": []}, "ops": [["build"], ["nbhd", 0, 0, 1, True]]})   # empty graph
    # 3c. node ids that are not ints (str, tuple): oracle only
    for _ in range(8 if quick else 150):
        c = _net_case(rng)
        c["space"]["kind"] = "netl"
        cases.append(c)
    # 4. Voronoi
    for n in (1, 2, 3, 4):
        cases.append(_vor_case(rng, n))
    for _ in range(40 if quick else 1500):
        cases.append(_vor_case(rng))
    # 4b. Voronoi over binary64 (non-dyadic) coordinates, well separated from degeneracy: oracle only, exact rational predicates
    for _ in range(12 if quick else 250):
        n = rng.choice([2, 3, 4, 5, 6, 7, 8])
        pts = _rand_float_points(rng, n)
        cases.append({"space": {"kind": "vorf", "pts": pts}, "ops": [["build"]] + _queries(rng, len(pts), 3, rng.randint(1, 3))})
    # 6. USER-CODE stream
    cases += _user_cases(rng, tier, 40 if quick else 600)
    # 5. SCALE stream
    cases += _scale_cases(rng, tier)
    if not quick:
        for _ in range(3):
            cases += _scale_cases(rng, tier)
    # cells / agents whose truth value is False and whose len() is 0 (nothing in the statement depends on it)
    for c in cases:
        if rng.random() < 0.3:
            c["space"]["falsy"] = True
    return cases


_VOR40 = [[60, 23], [74, 38], [25, 52], [33, 68], [31, 81], [63, 45], [53, 67], [78, 27], [39, 69], [90, 42], [66, 9], [26, 88],
          [59, 90], [83, 18], [68, 27], [52, 7], [44, 80], [15, 17], [41, 49], [42, 44], [54, 53], [27, 52], [29, 26], [5, 28],
          [2, 33], [64, 40], [72, 90], [53, 78], [14, 42], [59, 46], [76, 80], [18, 33], [49, 79], [90, 59], [22, 0], [44, 29],
          [10, 25], [36, 30], [88, 59], [61, 67]]   # fixed, verified: no three collinear, no four cocircular


def _order_patterns(rng, c, nb, radii):
    """query orders that reuse caches: wide then narrow, narrow then wide, neighbour then self, the first query again"""
    rs = sorted(set(radii))
    qs = []
    order = rng.choice(["wide-narrow", "narrow-wide", "mixed"])
    seq = list(reversed(rs)) if order == "wide-narrow" else (rs if order == "narrow-wide" else rng.sample(rs, len(rs)))
    for r in seq:
        first = rng.random() < 0.5
        qs.append(["nbhd", rng.randrange(3), c, r, first])
        if rng.random() < 0.6:
            qs.append(["nbhd", rng.randrange(3), c, r, not first])
    r = rng.choice(rs)
    qs += [["nbhd", 0, nb, r, False], ["nbhd", 0, c, r, False], ["nbhd", 1, c, r, True], ["nbhd", 2, nb, r, True]]
    qs.append(list(qs[0]))
    if rng.random() < 0.5:
        qs += [["place", 1, nb], ["agents", 0, c, rs[0], False], ["place", 1, c], ["agents", 0, c, rs[0], True]]
    return qs


def _scale_cases(rng, tier, broken=False):
    """SCALE stream (harness/SCALE_NOTE.md): spaces with hundreds to thousands of cells, radii crossing
    8/16/32/48/49/64/100/128/256/257 and the diameter, cache-reusing query orders, degenerate tori with one long axis.
    Implementation + oracle (own BFS, metric ball, geometry) only - except the medium ones at the end, which also run
    through the Gallina model."""
    def grid(kind, dims, torus, centre, radii):
        cells = _cells_of(dims)
        c = cells.index(tuple(centre))
        nbc = list(centre)
        ax = max(range(len(dims)), key=lambda a: dims[a])
        nbc[ax] = (nbc[ax] + 1) % dims[ax]
        return {"space": {"kind": kind, "dims": list(dims), "torus": torus}, "oracle_only": True,
                "ops": [["build"]] + _order_patterns(rng, c, cells.index(tuple(nbc)), radii)}

    def net(n, edges, c, radii, kind="net"):
        return {"space": {"kind": kind, "n": n, "edges": edges}, "oracle_only": True,
                "ops": [["build"]] + _order_patterns(rng, c, (c + 1) % n, radii)}

    pick = lambda xs, k: sorted(rng.sample(xs, min(k, len(xs))))   # noqa: E731
    out = []
    strip_r = [8, 16, 32, 48, 49, 64, 100, 128, 129, 255, 256, 257, 310]
    out.append(grid(rng.choice(["vn", "moore"]), (300,), False, (rng.choice([0, 150, 299]),), pick(strip_r, 6) + [49]))
    out.append(grid("moore", (1, 200), True, (0, rng.randrange(200)), pick([48, 49, 64, 99, 100, 101, 128], 4)))
    out.append(grid("vn", (2, 150), True, (rng.randrange(2), rng.randrange(150)), pick([16, 48, 49, 64, 75, 76, 77], 4)))
    out.append(grid("moore", (40, 40), rng.random() < 0.5, (rng.randrange(40), rng.randrange(40)), pick([7, 8, 9, 10], 2)))
    out.append(grid("hex", (30, 30), False, (rng.randrange(30), rng.randrange(30)), pick([8, 11, 12, 13], 2)))
    path = [[i, i + 1] for i in range(399)]
    out.append(net(400, path, rng.choice([0, 200, 399]), pick([8, 16, 32, 48, 49, 50, 64, 97, 98, 100, 128, 256, 257], 5) + [49]))
    if tier != "quick" or broken:
        out.append(grid("vn", (40, 40), True, (rng.randrange(40), rng.randrange(40)), pick([16, 17, 18, 21], 2)))
        out.append(grid("vn", (12, 12, 12), rng.random() < 0.5, (rng.randrange(12), 5, rng.randrange(12)), pick([4, 5, 6], 2)))
        out.append(grid("moore", (12, 12, 12), False, (6, rng.randrange(12), 6), [2, 3]))
        out.append(grid("hex", (30, 30), True, (rng.randrange(30), rng.randrange(30)), pick([12, 15, 16], 2)))
        out.append(grid("vn", (300, 1), True, (rng.randrange(300), 0), pick(strip_r[:10], 5) + [150, 151]))
        cyc = [[i, (i + 1) % 300] for i in range(300)]
        out.append(net(300, cyc, rng.randrange(300), pick([48, 49, 64, 100, 128, 149, 150, 151], 5)))
        tree = [[rng.randrange(max(0, i - 3), i), i] for i in range(1, 500)]
        out.append(net(500, tree, rng.randrange(500), pick([8, 16, 32, 48, 49, 64, 100, 128], 4)))
        out.append(net(300, [[i, i + 1] for i in range(299)], 0, pick([48, 49, 64, 128, 257, 299, 300], 4), kind="dnet"))
        out.append({"space": {"kind": "vor", "pts": _VOR40}, "oracle_only": True,
                    "ops": [["build"], ["cert"]] + _order_patterns(rng, rng.randrange(40), rng.randrange(40), [1, 2, 3, 5, 8])})
    # medium ones THROUGH the model as well (the memo of the Gallina model is an association list: keep entries < ~2000)
    out.append({"space": {"kind": "vn", "dims": [40], "torus": rng.random() < 0.5},
                "ops": [["build"]] + _order_patterns(rng, rng.randrange(40), rng.randrange(40), pick([7, 8, 9, 15, 16, 17, 31, 32, 33, 41], 4))})
    out.append({"space": {"kind": "net", "n": 30, "edges": [[i, (i + 1) % 30] for i in range(30)]},
                "ops": [["build"]] + _order_patterns(rng, rng.randrange(30), rng.randrange(30), pick([7, 8, 9, 14, 15, 16, 17], 3))})
    return out


def _user_cases(rng, tier, n):
    """USER-CODE stream (harness/USERCODE_NOTE.md, part B): every space class built with user Cell subclasses (falsy while
    empty + iterable, class-level defaults + extra slot, extra constructor argument) and as user subclasses of the space
    classes (docstring-only, extra constructor argument, overridden _connect_cells calling super), all dimensions incl. the
    2-D paths and hex; agents placed, then the space is deep-copied / pickled mid-history and the history continues on the
    copy; at `build` and after every copy the public entry points for the direct neighbourhood must agree.
    Implementation + oracle only."""
    out = []
    shapes = [("moore", (5,), True), ("vn", (4,), False), ("moore", (3, 4), True), ("vn", (4, 3), False), ("hex", (3, 4), True),
              ("hex", (4, 3), False), ("vn", (2, 3, 3), True), ("moore", (3, 2, 2), False), ("moore", (2, 2, 1, 3), True),
              ("vn", (1, 3, 2, 2), True), ("net", None, None), ("dnet", None, None), ("vor", None, None)]
    for _ in range(n):
        kind, dims, torus = rng.choice(shapes)
        if kind in ("net", "dnet"):
            c = _net_case(rng, rng.randint(3, 7), directed=(kind == "dnet"))
            sp, ncells = c["space"], c["space"]["n"]
        elif kind == "vor":
            pts = _rand_points(rng, rng.randint(3, 7), 12)
            sp, ncells = {"kind": "vor", "pts": pts}, len(pts)
        else:
            sp, ncells = {"kind": kind, "dims": list(dims), "torus": torus}, _prod(dims)
        sp["user"] = {"cell": rng.choice([None, "lenagents", "lenagents", "defaults", "ctorarg"]),
                      "space": rng.choice([None, "doc", "extra", "override"])}
        rmax = 3
        ops = [["build"]]
        for aid in range(1, rng.randint(2, 4)):
            ops.append(["place", aid, rng.randrange(ncells)])
        ops += _queries(rng, ncells, rmax, rng.randint(1, 2))
        ops.append(["copy", rng.choice(["deepcopy", "pickle"])])
        ops += _queries(rng, ncells, rmax, rng.randint(1, 2))
        if rng.random() < 0.4:
            ops += [["place", 1, rng.randrange(ncells)], ["copy", rng.choice(["deepcopy", "pickle"])]]
            c0 = rng.randrange(ncells)
            ops += [["agents", 0, c0, 2, True], ["nbhd", 1, c0, 2, False]]
        out.append({"space": sp, "oracle_only": True, "ops": ops})
    return out


def _rand_float_points(rng, n):
    """binary64 points in [0, 10)^2 with a margin from every degeneracy: each point is farther than 0.05 from the line
    through any two others, |in-circle determinant| > 0.5 for every four"""
    for _ in range(400):
        pts = [[rng.uniform(0, 10), rng.uniform(0, 10)] for _ in range(n)]
        ok = True
        for a, b, c in itertools.combinations(pts, 3):
            side = max(((a[0] - b[0]) ** 2 + (a[1] - b[1]) ** 2) ** 0.5, ((a[0] - c[0]) ** 2 + (a[1] - c[1]) ** 2) ** 0.5,
                       ((b[0] - c[0]) ** 2 + (b[1] - c[1]) ** 2) ** 0.5)
            if abs(_orient(a, b, c)) <= 0.05 * side:
                ok = False
                break
        if ok:
            for a, b, c, d in itertools.combinations(pts, 4):
                if abs(_incircle(a, b, c, d)) <= 0.5:
                    ok = False
                    break
        if ok:
            return pts
    return [[0.1, 0.2], [7.3, 1.1], [3.3, 9.7]][:n]


def enumerate_cases(tier, broken=False):
    """targeted exhaustive sweep (implementation + oracle only): every dimension vector over
    {1..3}^{1..3} ({1..4}^{1..4} up to 64 cells when thorough) x class x torus, every cell x radius <= max+1 x flags;
    every hex shape <= 5x5; every simple graph on <= 4 nodes."""
    rng = _random.Random(4242)
    for _ in range(6 if broken else 2):
        yield from _scale_cases(rng, tier, broken=True)
    yield from _user_cases(rng, tier, 400 if broken else 100)
    vecs = _dim_vectors(4, 4, 64) if tier == "thorough" else _dim_vectors(3, 3, 27)
    for dims in vecs:
        for kind in ("moore", "vn"):
            for torus in (False, True):
                yield from _all_queries_case(kind, dims, torus, min(max(dims) + 1, 4), rng)
    for (h, w) in _hex_dims(5):
        for torus in (False, True):
            if torus and w % 2:
                continue
            yield from _all_queries_case("hex", (h, w), torus, 4, rng)
    for n in range(1, 5):
        pairs = list(itertools.combinations(range(n), 2))
        for mask in range(1 << len(pairs)):
            edges = [list(p) for b, p in enumerate(pairs) if mask >> b & 1]
            qs = [["nbhd", 0, c, r, ic] for c in range(n) for r in (1, 2, 3) for ic in (False, True)]
            rng.shuffle(qs)
            yield {"space": {"kind": "net", "n": n, "edges": edges}, "ops": [["build"]] + qs}


# ================================================================== implementation side
def _labels(n):
    """non-integer node ids for the labelled-network stream: strings and tuples"""
    return [f"n{i}" if i % 2 == 0 else (i, "x") for i in range(n)]


_UC = {}


def _user_classes():
    """user subclasses as the library intends them, created once per process and registered as module globals
    (pickle / copyreg look classes up by module + qualified name)"""
    if "spaces" in _UC:
        return _UC
    from mesa.discrete_space import Cell, HexGrid, Network, OrthogonalMooreGrid, OrthogonalVonNeumannGrid, VoronoiGrid

    class UCLenAgents(Cell):
        """falsy while empty, iterable: len() / iter() over the agents in the cell"""

        def __len__(self):
            return len(self._agents)

        def __iter__(self):
            return iter(self._agents)

    class UCDefaults(Cell):
        """class-level defaults (a subclass with its own __slots__ cannot be copied at HEAD: Cell.__getstate__ reads
        self.__slots__, i.e. only the subclass's - reported as a C19-type finding, not generated here)"""

        kind = "soil"
        fertility = 3

    class UCCtorArg(Cell):
        """extra constructor argument with a default"""

        def __init__(self, coordinate, capacity=None, random=None, flavour="plain"):
            super().__init__(coordinate, capacity, random)
            self.flavour = flavour

    from mesa.discrete_space import CellAgent

    class UA2(CellAgent):          # truth value False
        def __bool__(self):
            return False

    class UA3(UA2):                # subclass of a subclass, len() == 0 and an attribute the others lack
        extra = 1

        def __len__(self):
            return 0

    _UC["agents"] = (UA2, UA3)
    class UCFalsy(Cell):
        def __bool__(self):
            return False

        def __len__(self):
            return 0

    cells = {"lenagents": UCLenAgents, "defaults": UCDefaults, "ctorarg": UCCtorArg, "falsy": UCFalsy}
    spaces = {}
    for base in (OrthogonalMooreGrid, OrthogonalVonNeumannGrid, HexGrid, Network, VoronoiGrid):
        doc = type(f"US_doc_{base.__name__}", (base,), {"__doc__": "A docstring-only subclass."})

        def _init(self, first, *a, tag="t", _base=base, **kw):
            self.tag = tag
            _base.__init__(self, first, *a, **kw)

        extra = type(f"US_extra_{base.__name__}", (base,), {"__init__": _init})

        def _cc(self, _base=base):
            self.connect_calls = getattr(self, "connect_calls", 0) + 1
            _base._connect_cells(self)

        over = type(f"US_override_{base.__name__}", (base,), {"_connect_cells": _cc})
        spaces[base.__name__] = {"doc": doc, "extra": extra, "override": over}
    _UC["cells"], _UC["spaces"] = cells, spaces
    for k in list(cells.values()) + [UA2, UA3] + [c for d in spaces.values() for c in d.values()]:
        k.__module__ = __name__
        k.__qualname__ = k.__name__
        globals()[k.__name__] = k
    return _UC


def _space_args(sp):
    """the caller-owned argument object of the constructor (a list / a graph), built fresh"""
    k = sp["kind"]
    if k in ("moore", "vn", "hex"):
        return list(sp["dims"])
    if k in ("net", "dnet", "netl"):
        import networkx as nx

        g = nx.DiGraph() if k == "dnet" else nx.Graph()
        lab = _labels(sp["n"]) if k == "netl" else list(range(sp["n"]))
        g.add_nodes_from(lab)
        g.add_edges_from([(lab[u], lab[v]) for u, v in sp["edges"]])
        return g
    return [list(p) for p in sp["pts"]]


def _args_snapshot(sp, args):
    if sp["kind"] in ("net", "dnet", "netl"):
        return (list(args.nodes), sorted(map(repr, args.edges)), {repr(u): [repr(v) for v in args.adj[u]] for u in args.nodes})
    import copy

    return copy.deepcopy(args)


def _make_space(sp, args=None):
    import warnings

    from mesa.discrete_space import Cell, HexGrid, Network, OrthogonalMooreGrid, OrthogonalVonNeumannGrid, VoronoiGrid

    if args is None:
        args = _space_args(sp)
    kw = {}
    if sp.get("falsy"):
        # cells whose truth value is False and whose len() is 0: nothing in the statement depends on bool(cell)
        kw["cell_klass"] = _user_classes()["cells"]["falsy"]
    rnd = _random.Random(1)
    user = sp.get("user") or {}
    classes = {"moore": OrthogonalMooreGrid, "vn": OrthogonalVonNeumannGrid, "hex": HexGrid, "net": Network, "dnet": Network,
               "netl": Network, "vor": VoronoiGrid, "vorf": VoronoiGrid}
    k = sp["kind"]
    klass = classes[k]
    if user:
        uc = _user_classes()
        if user.get("cell"):
            kw["cell_klass"] = uc["cells"][user["cell"]]
        if user.get("space"):
            klass = uc["spaces"][klass.__name__][user["space"]]
            if user["space"] == "extra":
                kw["tag"] = "user"
    with warnings.catch_warnings():
        warnings.simplefilter("ignore")
        if k in ("moore", "vn", "hex"):
            return klass(args, torus=sp["torus"], random=rnd, **kw)
        return klass(args, random=rnd, **kw)


_CLS = {"moore": "OrthogonalMooreGrid", "vn": "OrthogonalVonNeumannGrid", "hex": "HexGrid", "net": "Network",
        "dnet": "Network", "netl": "Network", "vor": "VoronoiGrid", "vorf": "VoronoiGrid"}


def _key_code(kind, key):
    if kind in ("moore", "vn", "hex"):
        acc = 1
        for x in key:
            acc = acc * 3 + int(x) + 1
        return acc
    if kind == "netl":
        return 0 if isinstance(key, str) else 1   # oracle-only stream: the observation is not compared with the model
    if kind in ("net", "dnet"):
        return int(key)
    return int(key[0]) * 1000 + int(key[1])


def _check_connections(sp, space, cells, idx, failures, opi):
    """the connection part of the statement, on the implementation's own tables"""
    kind = sp["kind"]
    cls = _CLS[kind]
    got = {}
    for c in cells:
        got[idx[id(c)]] = {k: idx.get(id(v), -1) for k, v in c.connections.items()}
    if kind in ("moore", "vn", "hex"):
        dims = sp["dims"]
        exp = _orth_expected(kind == "moore", dims, sp["torus"]) if kind != "hex" else _hex_expected(dims, sp["torus"])
        coords = _cells_of(dims)
        cid = {c: i for i, c in enumerate(coords)}
        for i, c in enumerate(cells):
            if tuple(c.coordinate) != coords[i]:
                failures.append({"key": f"C07/{cls}/cells/wrong-coordinates", "op": opi,
                                 "what": f"{cls}({dims}): cell #{i} has coordinate {c.coordinate}, expected {coords[i]}"})
                return
            e = {d: cid[t] for d, t in exp[coords[i]].items()}
            g = {tuple(k) if isinstance(k, tuple) else k: v for k, v in got[i].items()}
            if g != e:
                what = "connected under offset d to c+d for every offset of norm 1" if kind != "hex" else "connected to the cells whose hexagons touch it"
                failures.append({"key": f"C07/{cls}/connections/not-the-geometry", "op": opi,
                                 "what": f"{cls}({tuple(dims)}, torus={sp['torus']}): cell {coords[i]} has connections "
                                         f"{ {k: coords[v] if 0 <= v < len(coords) else v for k, v in sorted(g.items())} } but a cell is {what} "
                                         f"(wrapped on a torus, absent beyond the edge), i.e. "
                                         f"{ {k: coords[v] for k, v in sorted(e.items())} }"})
                break
    elif kind == "netl":
        lab = _labels(sp["n"])
        adj = {u: set() for u in range(sp["n"])}
        for u, v in sp["edges"]:
            adj[u].add(v)
            adj[v].add(u)
        for i, c in enumerate(cells):
            if c.coordinate != lab[i] or {k: v for k, v in got[i].items()} != {lab[v]: v for v in adj[i]}:
                failures.append({"key": "C07/Network/connections/not-the-graph-edges", "op": opi,
                                 "what": f"Network with node labels {lab} and edges {sp['edges']} (by position): node {lab[i]!r} "
                                         f"(cell coordinate {c.coordinate!r}) has connections {sorted(map(repr, got[i]))}, its graph "
                                         f"neighbours are {[lab[v] for v in sorted(adj[i])]}"})
                break
    elif kind in ("net", "dnet"):
        adj = {u: set() for u in range(sp["n"])}
        for u, v in sp["edges"]:
            adj[u].add(v)
            if kind == "net":
                adj[v].add(u)
        for i, c in enumerate(cells):
            if c.coordinate != i:
                failures.append({"key": "C07/Network/cells/wrong-coordinates", "op": opi, "what": f"cell #{i} is node {c.coordinate}"})
                return
            if got[i] != {v: v for v in adj[i]}:
                failures.append({"key": "C07/Network/connections/not-the-graph-edges", "op": opi,
                                 "what": f"Network over edges {sp['edges']} on {sp['n']} nodes: node {i} is connected to "
                                         f"{sorted(got[i].items())}, its graph neighbours are {sorted(adj[i])}"})
                break
    else:
        from fractions import Fraction

        pts = [tuple(Fraction(x) for x in p) for p in sp["pts"]]   # exact also for binary64 coordinates
        edges = _delaunay_edges(pts)
        for i, c in enumerate(cells):
            e = {}
            for a, b in edges:
                if a == i:
                    e[(i, b)] = b
                elif b == i:
                    e[(i, a)] = a
            if got[i] != e:
                failures.append({"key": "C07/VoronoiGrid/connections/not-the-delaunay-edges", "op": opi,
                                 "what": f"VoronoiGrid({sp['pts']}): centroid {i} is connected to {sorted(got[i].values())}, "
                                         f"the Delaunay edges of the centroids join it to {sorted(e.values())}"})
                break
    # symmetry (the geometry is symmetric in every generated space but the directed networks)
    for i in (got if kind != "dnet" else []):
        for k, t in got[i].items():
            if t >= 0 and i not in got[t].values():
                failures.append({"key": f"C07/{cls}/connections/asymmetric", "op": opi,
                                 "what": f"{cls} {_descr(sp)}: cell #{i} is connected to cell #{t} (key {k}) but not the other way round"})
                return


def _descr(sp):
    k = sp["kind"]
    if k in ("moore", "vn", "hex"):
        return f"({tuple(sp['dims'])}, torus={sp['torus']})"
    if k in ("net", "dnet", "netl"):
        return f"({'directed, ' if k == 'dnet' else ''}{'labelled, ' if k == 'netl' else ''}nodes 0..{sp['n'] - 1}, edges {sp['edges']})"
    return f"({sp['pts']})"


def _metric_ball(sp, c, r, ic):
    dims, torus = sp["dims"], sp["torus"]
    coords = _cells_of(dims)
    cc = coords[c]
    out = set()
    for i, x in enumerate(coords):
        ds = [min((a - b) % n, (b - a) % n) if torus else abs(a - b) for a, b, n in zip(x, cc, dims)]
        dist = max(ds) if sp["kind"] == "moore" else sum(ds)
        if dist <= r and (i != c or ic):
            out.add(i)
    return out


def _ball(conn, c, r):
    """cells within r connection hops of c (including c at 0 hops)"""
    seen = {c}
    frontier = [c]
    for _ in range(r):
        nxt = []
        for u in frontier:
            for v in conn[u]:
                if v not in seen:
                    seen.add(v)
                    nxt.append(v)
        frontier = nxt
        if not frontier:
            break
    return seen


_UNCACHED = None


def _inner_uncached():
    """True when T1 finds Cell._neighborhood without functools.cache (model then recurses without memo)"""
    global _UNCACHED
    if _UNCACHED is None:
        try:
            import os
            import sys

            sys.path.insert(0, os.path.join(os.path.dirname(os.path.dirname(os.path.abspath(__file__))), "tables"))
            import grid_geom

            _UNCACHED = ": option (list cparam) := None" in grid_geom.c_inner_cache()
        except Exception as e:  # noqa: BLE001  translator broken: reported by the framework
            _UNCACHED = "not memoised" in str(e)
    return _UNCACHED


def _model_affordable(case, conn):
    """cost bound for the vm_compute evaluation: sum over queries of (max degree)^radius when nothing is memoised"""
    nconn = sum(len(x) for x in conn)
    if nconn > MAX_MODEL_CONNS:
        return False
    if not _inner_uncached():
        return True
    deg = max([len(x) for x in conn] + [1])
    cost = 0
    for op in case["ops"]:
        if op[0] == "nbhd" and op[3] >= 1:
            cost += deg ** min(op[3], 12)
    return cost <= 200000


def _entry_points(cls, sp, cells, idx, failures, opi):
    """public entry points that must name the same direct neighbourhood"""
    from mesa.discrete_space import CellCollection

    for i, c in enumerate(cells[:80]):
        base = {idx.get(id(v), -1) for v in c.connections.values()} - {i}
        forms = {
            "cell.neighborhood": c.neighborhood.cells,
            "get_neighborhood(radius=1)": c.get_neighborhood(radius=1).cells,
            "get_neighborhood(1, False)": c.get_neighborhood(1, False).cells,
            "iter(get_neighborhood())": list(iter(c.get_neighborhood())),
            "get_neighborhood(1, True) minus the cell": [x for x in c.get_neighborhood(1, True).cells if x is not c],
            "CellCollection(list of connections)": CellCollection([v for v in c.connections.values() if v is not c],
                                                                  random=_random.Random(1)).cells,
        }
        for name, got in forms.items():
            g = [idx.get(id(x), -1) for x in got]
            if set(g) != base or len(set(g)) != len(g):
                failures.append({"key": f"C07/{cls}/entry-points/disagree", "op": opi,
                                 "what": f"{cls} {_descr(sp)} {sp.get('user') or ''}: cell #{i} is connected to {sorted(base)} "
                                         f"(connections.values() without itself) but {name} gives {sorted(g)}"})
                return


QUERY_CPU_BUDGET = 2.0   # seconds of CPU time of the worker for ONE neighbourhood query


class _Budget(Exception):
    pass


def _with_budget(fn):
    """run fn() under a CPU-time budget (ITIMER_PROF counts CPU of this process, so a loaded machine does not
    matter); raises _Budget when exceeded.  Speed is not part of the statement: an overrun is an observation
    ([-4]), never a verdict by itself - the un-memoised shape is reported through T1 (cell_inner_cache)."""
    import signal

    def _h(signum, frame):
        raise _Budget()

    old = signal.signal(signal.SIGPROF, _h)
    signal.setitimer(signal.ITIMER_PROF, QUERY_CPU_BUDGET)
    try:
        return fn()
    finally:
        signal.setitimer(signal.ITIMER_PROF, 0)
        signal.signal(signal.SIGPROF, old)


def run_impl(case):
    global QUERY_CPU_BUDGET
    QUERY_CPU_BUDGET = 20.0 if case.get("oracle_only") else 2.0
    sp = case["space"]
    cls = _CLS[sp["kind"]]
    import signal

    def _alarm(signum, frame):
        raise TimeoutError("construction used more than 30 s of CPU time")

    import mesa.discrete_space  # noqa: F401  (imports are not part of the construction being timed)

    try:
        # CPU time of this process, not wall-clock: a loaded machine must not produce a false alarm
        old_handler = signal.signal(signal.SIGPROF, _alarm)
        signal.setitimer(signal.ITIMER_PROF, 30)
        try:
            args = _space_args(sp)
            snap = _args_snapshot(sp, args)
            space = _make_space(sp, args)
        finally:
            signal.setitimer(signal.ITIMER_PROF, 0)
            signal.signal(signal.SIGPROF, old_handler)
    except Exception as e:  # noqa: BLE001  the space cannot even be built: every operation fails
        n = len(case["ops"])
        return {"obs": [[-1, 99]] * n, "ops_for_model": [list(o) for o in case["ops"]], "model": False,
                "failures": [{"key": f"C07/{cls}/construct/unexpected-exception", "op": 0,
                              "what": f"{cls}{_descr(sp)} raised {type(e).__name__}: {e}"}]}
    cells = list(space._cells.values())
    idx = {id(c): i for i, c in enumerate(cells)}
    built = False
    import mesa

    model = mesa.Model(seed=1)
    agents, agent_id, loc = {}, {}, {}
    overrun = False
    obs, failures, ops_for_model = [], [], []
    conn = [[idx.get(id(v), -1) for v in c.connections.values()] for c in cells]
    nconn = sum(len(x) for x in conn)
    for opi, op in enumerate(case["ops"]):
        kind = op[0]
        try:
            if kind == "build":
                o = []
                for i, c in enumerate(cells):
                    rows = sorted(_key_code(sp["kind"], k) * 1000000 + idx.get(id(v), -1) for k, v in c.connections.items())
                    o += [-5] + rows
                obs.append(o)
                ops_for_model.append(["build", conn])
                if not built:
                    _check_connections(sp, space, cells, idx, failures, opi)
                    # the SAME argument object handed to a second space: the caller's object is not modified, the twin has the
                    # same connections, and the first space is untouched (nothing is shared through class / module state)
                    if sp.get("user") is not None:
                        _entry_points(cls, sp, cells, idx, failures, opi)
                    twin = _make_space(sp, args)
                    tcells = list(twin._cells.values())
                    tidx = {id(c): i for i, c in enumerate(tcells)}
                    tconn = [[(repr(k), tidx.get(id(v), -1)) for k, v in c.connections.items()] for c in tcells]
                    oconn = [[(repr(k), idx.get(id(v), -1)) for k, v in c.connections.items()] for c in cells]
                    if _args_snapshot(sp, args) != snap:
                        failures.append({"key": f"C07/{cls}/construct/argument-modified", "op": opi,
                                         "what": f"{cls} {_descr(sp)}: the constructor changed the object it was given: {snap} -> {_args_snapshot(sp, args)}"})
                    if tconn != oconn or oconn != [[(repr(k), t) for (k, t) in zip(c.connections, row)] for c, row in zip(cells, conn)]:
                        failures.append({"key": f"C07/{cls}/construct/second-space-differs", "op": opi,
                                         "what": f"{cls} {_descr(sp)}: a second space built from the same argument object has different "
                                                 f"connections, or building it changed the first one"})
                built = True
                continue
            if kind == "snap":
                # copy / serialise something that reaches the cells and THROW THE RESULT AWAY: the ORIGINAL space must be untouched
                # (model side: re-reading the connections of the original = Build on a built space, a no-op on the state)
                import copy as _copy
                import pickle as _pickle
                import warnings as _w

                if not built:
                    obs.append([-2])
                    ops_for_model.append(["nbhd", 0, -1, 1, False])
                    continue
                _, what, how, c0 = op
                c0 = c0 % len(cells) if cells else 0
                target = space
                if cells and what == "cell":
                    target = cells[c0]
                elif cells and what == "collection":
                    target = cells[c0].get_neighborhood(1, True)
                elif what == "model":
                    model.space_under_test = space
                    target = model
                elif what == "agent" and agents:
                    target = agents[sorted(agents)[0]]
                with _w.catch_warnings():
                    _w.simplefilter("ignore")
                    if how == "deepcopy":
                        _copy.deepcopy(target)
                    elif how == "pickle":
                        _pickle.dumps(target)
                    else:
                        _copy.copy(target)
                o = []
                for i, c in enumerate(cells):
                    o += [-5] + sorted(_key_code(sp["kind"], k) * 1000000 + idx.get(id(v), -1) for k, v in c.connections.items())
                obs.append(o)
                ops_for_model.append(["build", conn])
                now = [[idx.get(id(v), -1) for v in c.connections.values()] for c in cells]
                if now != conn:
                    bad = next(i for i in range(len(cells)) if now[i] != conn[i])
                    failures.append({"key": f"C07/{cls}/copy/original-connections-changed", "op": opi,
                                     "what": f"{cls} {_descr(sp)}: after {how} of the {what} (result discarded) cell #{bad} of the ORIGINAL "
                                             f"space is connected to {now[bad]}, before: {conn[bad]}"})
                else:
                    _check_connections(sp, space, cells, idx, failures, opi)
                continue
            if kind == "copy":
                # user-code stream: continue on a deepcopy / pickle round trip of the whole space (with its agents)
                import copy as _copy
                import pickle as _pickle
                import warnings as _w

                ops_for_model.append(op)
                with _w.catch_warnings():
                    _w.simplefilter("ignore")
                    new_space = _copy.deepcopy(space) if op[1] == "deepcopy" else _pickle.loads(_pickle.dumps(space))
                now = [[idx.get(id(v), -1) for v in c.connections.values()] for c in cells]
                if now != conn:
                    bad = next(i for i in range(len(cells)) if now[i] != conn[i])
                    failures.append({"key": f"C07/{cls}/copy/original-connections-changed", "op": opi,
                                     "what": f"{cls} {_descr(sp)}: after {op[1]} of the space cell #{bad} of the ORIGINAL space is connected "
                                             f"to {now[bad]}, before: {conn[bad]}"})
                space = new_space
                cells = list(space._cells.values())
                idx = {id(c): i for i, c in enumerate(cells)}
                conn = [[idx.get(id(v), -1) for v in c.connections.values()] for c in cells]
                uid = {a.unique_id: aid for aid, a in agents.items()}
                agents, agent_id = {}, {}
                for c in cells:
                    for a in c.agents:
                        if a.unique_id in uid:
                            agents[uid[a.unique_id]] = a
                            agent_id[id(a)] = uid[a.unique_id]
                got_loc = {agent_id[id(a)]: i for i, c in enumerate(cells) for a in c.agents if id(a) in agent_id}
                obs.append([len(cells)] + [x for kv in sorted(got_loc.items()) for x in kv])
                if got_loc != loc:
                    failures.append({"key": f"C07/{cls}/copy/agents-moved", "op": opi,
                                     "what": f"{cls} {_descr(sp)}: after {op[1]} the agents are in cells {got_loc}, before: {loc}"})
                if built:
                    _check_connections(sp, space, cells, idx, failures, opi)
                    _entry_points(cls, sp, cells, idx, failures, opi)
                continue
            if kind == "cert":
                # the triangulation the implementation built, exported for validation inside Coq
                if sp["kind"] != "vor":
                    obs.append([-2])
                    ops_for_model.append(["cert", []])
                    continue
                tris = [[int(v) for v in t] for t in space.triangulation.export_triangles()]
                full = [[int(v) for v in t] for t in space.triangulation.triangles]
                ops_for_model.append(["cert", full])
                edges = sorted({min(a, b) * 1000 + max(a, b) for t in tris for a, b in itertools.combinations(t, 2)})
                o = [1] + edges + [-8]
                for i, c in enumerate(cells):
                    o += [-5] + sorted(_key_code("vor", k) * 1000000 + idx.get(id(v), -1) for k, v in c.connections.items())
                obs.append(o)
                pts = [tuple(p) for p in sp["pts"]]
                bad = [t for t in tris if len(set(t)) != 3 or not all(0 <= v < len(pts) for v in t)
                       or _orient(*(pts[v] for v in t)) == 0
                       or any(_strictly_inside(pts[t[0]], pts[t[1]], pts[t[2]], p) for p in pts)]
                want = _delaunay_edges(pts) if len(pts) != 2 else set()
                have = {(min(a, b), max(a, b)) for t in tris for a, b in itertools.combinations(t, 2)}
                if bad or have != want:
                    failures.append({"key": "C07/VoronoiGrid/triangulation/not-delaunay", "op": opi,
                                     "what": f"VoronoiGrid({sp['pts']}).triangulation.export_triangles() = {tris}: "
                                             + (f"triangle(s) {bad} are degenerate or have a centroid strictly inside their circumcircle"
                                                if bad else f"their edges {sorted(have)} are not the Delaunay edges {sorted(want)}")})
                continue
            ops_for_model.append(op)
            c = op[2] if kind in ("nbhd", "agents", "place") else op[1]
            if not built or not (0 <= c < len(cells)):
                obs.append([-2])
                continue
            cell = cells[c]
            if kind == "place":
                aid = op[1]
                if aid not in agents:
                    from mesa.discrete_space import CellAgent

                    uc = _user_classes()
                    agents[aid] = (CellAgent, uc["agents"][0], uc["agents"][1])[aid % 3](model)
                    agent_id[id(agents[aid])] = aid
                agents[aid].cell = cell
                loc[aid] = c
                got = [agent_id.get(id(a), -1) for a in cell.agents]
                obs.append([1 if len(set(got)) != len(got) else 0] + sorted(got))
                exp = sorted(a for a, w in loc.items() if w == c)
                if sorted(got) != exp or agents[aid].cell is not cell:
                    failures.append({"key": "C07/Cell/agents/not-the-agents-that-entered", "op": opi,
                                     "what": f"{cls} {_descr(sp)}: after agent {aid} entered cell #{c}, cell.agents = {sorted(got)}, "
                                             f"the agents whose last cell is #{c} are {exp}"})
                continue
            if kind == "agents":
                _, form, _, r, ic = op
                if overrun:
                    obs.append([-4])
                    continue
                try:
                    coll = _with_budget(lambda: cell.get_neighborhood(r, ic) if form == 0 else (
                        cell.get_neighborhood(radius=r, include_center=ic) if form == 1 else cell.get_neighborhood(r, include_center=ic)))
                except _Budget:
                    overrun = True
                    obs.append([-4])
                    continue
                except ValueError:
                    if r < 1:
                        obs.append([-1, E_RADIUS])
                        continue
                    raise
                next(iter(coll.agents), None)   # an abandoned iterator must not disturb the next read
                next(iter(coll), None)
                got = [agent_id.get(id(a), -1) for a in coll.agents]
                ccells = [idx.get(id(x), -1) for x in coll.cells]
                obs.append([len(coll), 1 if len(set(got)) != len(got) else 0] + sorted(got))
                if r < 1:
                    continue
                ball = _ball(conn, c, r)
                expc = (ball - {c}) | ({c} if ic else set())
                expa = sorted(a for a, w in loc.items() if w in expc)
                call = f"get_neighborhood(radius={r}, include_center={ic})"
                if len(coll) != len(expc) or set(ccells) != expc or [idx.get(id(x), -1) for x in coll] != ccells:
                    failures.append({"key": "C07/CellCollection/cells/not-the-neighbourhood", "op": opi,
                                     "what": f"{cls} {_descr(sp)}, cell #{c}: {call} has len {len(coll)}, .cells = {sorted(ccells)}; "
                                             f"the neighbourhood is {sorted(expc)}"})
                elif sorted(got) != expa or any(sorted(agent_id.get(id(a), -1) for a in coll[x]) != sorted(a for a, w in loc.items() if w == idx[id(x)])
                                                for x in coll.cells):
                    failures.append({"key": "C07/CellCollection/agents/not-the-agents-in-the-cells", "op": opi,
                                     "what": f"{cls} {_descr(sp)}, cell #{c}: {call}.agents = {sorted(got)}; the agents now in the cells "
                                             f"{sorted(expc)} of the neighbourhood are {expa} (agent -> cell: {loc})"})
                continue
            if kind == "nbhd":
                _, form, _, r, ic = op[:5]
                if overrun:
                    obs.append([-4])
                    continue
                spell = op[5] if len(op) > 5 else None
                if spell and r >= 1:
                    import numpy as np

                    rr = {"np": np.int64(r), "float": float(r), "bool": (True if r == 1 else r)}[spell]
                    icc = {"np": np.bool_(ic), "float": ic, "bool": int(ic)}[spell]
                else:
                    rr, icc = r, ic
                try:
                    if spell and r >= 1:
                        res = _with_budget(lambda: cell.get_neighborhood(rr, icc))
                    elif form == 0:
                        res = _with_budget(lambda: cell.get_neighborhood(r, ic))
                    elif form == 1:
                        res = _with_budget(lambda: cell.get_neighborhood(radius=r, include_center=ic))
                    else:
                        res = _with_budget(lambda: cell.get_neighborhood(r, include_center=ic))
                except _Budget:
                    overrun = True   # every later query of this history is skipped: the check must terminate
                    obs.append([-4])
                    continue
                except ValueError:
                    if r < 1:
                        obs.append([-1, E_RADIUS])
                        continue
                    raise
                call = f"get_neighborhood(radius={r}, include_center={ic})"
            elif kind == "prop":
                if overrun:
                    obs.append([-4])
                    continue
                try:
                    res = _with_budget(lambda: cell.neighborhood)
                except _Budget:
                    overrun = True
                    obs.append([-4])
                    continue
                r, ic = 1, False
                call = "neighborhood"
            else:
                raise ValueError(kind)
            got = [idx.get(id(x), -1) for x in res.cells]
            obs.append([1 if len(set(got)) != len(got) else 0] + sorted(got))
            if r < 1:
                failures.append({"key": "C07/Cell/neighborhood/radius-below-1-accepted", "op": opi,
                                 "what": f"{call} returned {sorted(got)} instead of raising ValueError"})
                continue
            ball = _ball(conn, c, r)
            exp = (ball - {c}) | ({c} if ic else set())
            where = f"{cls} {_descr(sp)}, cell #{c} {getattr(cell, 'coordinate', '')} with connections to {sorted(set(conn[c]))}"
            if len(set(got)) != len(got):
                failures.append({"key": "C07/Cell/neighborhood/duplicates", "op": opi, "what": f"{where}: {call} lists a cell twice: {got}"})
            if sp["kind"] in ("moore", "vn") and set(got) == exp:
                # consequence of the two halves of the statement together: on an orthogonal grid the r-hop ball is
                # the Chebyshev / Manhattan ball (per-axis toroidal distance on a torus)
                mexp = _metric_ball(sp, c, r, ic)
                if set(got) != mexp:
                    failures.append({"key": f"C07/{cls}/neighborhood/not-the-metric-ball", "op": opi,
                                     "what": f"{where}: {call} = {sorted(got)} but the cells within "
                                             f"{'Chebyshev' if sp['kind'] == 'moore' else 'Manhattan'} distance {r} are {sorted(mexp)}"})
            if set(got) != exp:
                if c in got and not ic:
                    key = "C07/Cell/neighborhood/center-present-without-include_center"
                elif c not in got and ic:
                    key = "C07/Cell/neighborhood/center-missing-with-include_center"
                else:
                    key = "C07/Cell/neighborhood/not-the-r-hop-ball"
                failures.append({"key": key, "op": opi,
                                 "what": f"{where}: {call} = {sorted(got)}; the cells within {r} connection hop(s) are {sorted(ball - {c})} "
                                         f"and the cell itself belongs to the answer iff include_center (={ic}), so it must be {sorted(exp)}"})
        except Exception as e:  # noqa: BLE001
            if len(ops_for_model) <= opi:
                ops_for_model.append(op)
            obs.append([-1, 99])
            failures.append({"key": f"C07/{cls}/{kind}/unexpected-exception", "op": opi,
                             "what": f"{op} raised {type(e).__name__}: {e}"})
    return {"obs": obs, "failures": failures, "ops_for_model": ops_for_model, "model": _model_affordable(case, conn) and not overrun and not case.get("oracle_only")
            and sp["kind"] not in ("netl", "vorf") and sp.get("user") is None}


# ================================================================== model side
def _zl(l):
    return L.zlist(l)


def _space_term(sp):
    k = sp["kind"]
    if k in ("moore", "vn"):
        return f"SOrth {L.b(k == 'moore')} {_zl(sp['dims'])} {L.b(sp['torus'])}"
    if k == "hex":
        return f"SHex {_zl(sp['dims'])} {L.b(sp['torus'])}"
    if k in ("net", "dnet", "netl"):
        return f"{'SDNet' if k == 'dnet' else 'SNet'} {L.z(sp['n'])} {L.lst([L.zpair(e) for e in sp['edges']])}"
    if k == "vorf":
        return "SVor []"   # oracle-only stream (binary64 coordinates); never evaluated against the model
    return f"SVor {L.lst([L.zpair(p) for p in sp['pts']])}"


def coq_case(case):
    ops = []
    src = case.get("_ops_for_model") or case["ops"]
    for op in src:
        if op[0] == "build":
            tbl = op[1] if len(op) > 1 else []
            ops.append("Build " + L.lst([_zl(row) for row in tbl]))
        elif op[0] == "cert":
            tris = op[1] if len(op) > 1 else []
            ops.append("Cert " + L.lst([f"({L.z(t[0])}, {L.z(t[1])}, {L.z(t[2])})" for t in tris]))
        elif op[0] == "copy":
            continue
        elif op[0] == "snap":
            ops.append("Nbhd 0 (-1) 1 false")
        elif op[0] == "place":
            ops.append(f"Place {L.z(op[1])} {L.z(op[2])}")
        elif op[0] == "agents":
            ops.append(f"NbhdAgents {L.z(op[1])} {L.z(op[2])} {L.z(op[3])} {L.b(op[4])}")
        elif op[0] == "nbhd":
            ops.append(f"Nbhd {L.z(op[1])} {L.z(op[2])} {L.z(op[3])} {L.b(op[4])}")
        else:
            ops.append(f"NbhdProp {L.z(op[1])}")
    return f"{{| c_space := {_space_term(case['space'])}; c_ops := {L.lst(ops)} |}}"


def op_kinds(case):
    out = []
    k = case["space"]["kind"]
    for op in case["ops"]:
        if op[0] == "nbhd":
            out.append(f"{k}/nbhd/form{op[1]}/ic={int(op[4])}")
        else:
            out.append(f"{k}/{op[0]}")
    return out


def nontrivial(case):
    obs = case.get("_obs", [])
    ops = case["ops"]
    return bool(ops) and ops[0][0] == "build" and sum(1 for o in obs if len(o) > 1 and o[0] in (0, 1)) >= 2


LEVEL_TEXT = ("51 machine-checked Coq theorems (closed under the global context, each with a non-vacuity Example) over Model/CellGeom.v, the "
              "Gallina transcription of the repaired Cell._neighborhood with its three cache layers, the grid / hex / network connection "
              "code, the Delaunay-edge specification and the CellCollection agents view. Neighbourhoods: for EVERY connection function, radius "
              ">= 1, flag and cell the result is exactly the cells within r hops, the cell itself iff include_center, no duplicates, monotone, "
              "symmetric when connections are (C07_nbhd_is_ball, _nodup, _center_rule, _monotone, _symmetric; C07_nbhd_src_partial / _refuted "
              "document the two repaired corners of the unchanged recursion); every history of operations observes what a cache-free "
              "evaluation answers, including agents read from cached collections (C07_cache_transparent, by induction over histories and the "
              "memoised recursion, key tuples from T1). Orthogonal grids, every number of axes and every size incl. 1 and 2: the n-D offset "
              "constructions are the norm-1 offsets, the 2-D tables agree, connections are c+d wrapped / absent beyond the edge, symmetric "
              "(C07_conn_spec_orth, C07_symmetric, ...), and the r-hop ball IS the Chebyshev / Manhattan (toroidal) ball "
              "(C07_ball_is_metric_ball, C07_nbhd_is_metric_ball). Hex: offsets = cube distance 1 for every (i,j) in Z^2, symmetric on "
              "admissible tori (C07_hex_touching, C07_conn_spec_hex, C07_hex_symmetric). Network: connections = graph edges; directed graphs "
              "as boundary (C07_network*, C07_network_directed*). Voronoi: exact in-circle test is geometric, certificate soundness, and end "
              "to end: certified triangulation + translated extraction = Delaunay adjacency (C07_voronoi_cert_sound, "
              "C07_voronoi_connections_of_source). Code-level T1: 19 constructs regenerated from the source on every run with robust bridge "
              "lemmas model = generated code (Proofs/CellGeomBridge.v) and the headline theorems restated about the translated code "
              "(C07_conn_spec_nd_of_source, C07_conn_spec_2d_of_source, C07_nbhd_is_ball_of_source, ...). T2: differential vm_compute "
              "evaluation on the implementation's own connection tables; an independent oracle states the property on the implementation. "
              "Defects of the unchanged tree found and fixed: self-connected cell in its own neighbourhood, isolated cell missing with "
              "include_center (one fix), VoronoiGrid losing Delaunay edges whose triangles all touch the frame (two centroids unconnected).")
LEVEL_NOTE = ("Theorems are about the model and the translated code. Not proved: Bowyer-Watson in binary64 (validated per instance by a "
              "certificate checked inside Coq; binary64 point sets are oracle-only), the general theory that 'some third point spans an empty "
              "circle' characterises Delaunay edges in general position (taken as the specification). Oracle-only streams: non-int node "
              "labels, binary64 Voronoi points, radii above 256, spaces whose connection table exceeds 1400 entries. Trusted: Coq kernel, "
              "pyexpr + the T1 extractors, the driver/observer, CPython dict / functools.cache / itertools / networkx semantics as modelled. "
              "No axioms.")
TECHNIQUE = ("Coq proof (induction over radius, op histories, number of axes, paths; per-instance certificates by vm_compute; closed under the "
             "global context) + code-level T1 (pyexpr translation with robust bridge lemmas, tables, normalised statement skeletons) + "
             "vm_compute correspondence + independent oracle")
DESIGN_REF = "DESIGN.md section 4, C07"
