"""C10 - continuous spaces keep every position and answer range queries exactly.
Legacy mesa.space.ContinuousSpace (Model/ContLegacy.v) and experimental
mesa.experimental.continuous_space.ContinuousSpace/-Agent (Model/ContExp.v).

All coordinates, radii and bounds in a case are ints = 16 * the value handed to Mesa (dyadic
rationals, exact in binary64); squared distances are therefore ints scaled by 256."""
import itertools

import coqlit as L

ID = "C10"
COQ_PROPERTY_FILE = "Properties/C10.v"
COQ_DEPS = ["Common/ListX.v", "Common/ObsHash.v", "Generated/Tables.v", "Model/ContGeom.v", "Model/ContLegacy.v", "Model/ContExp.v",
            "Proofs/ContGeomProofs.v", "Proofs/ContLegacyProofs.v", "Proofs/ContExpProofs.v", "Proofs/ContBridge.v"]
COQ_IMPORTS = "From Mesa Require Import Model.ContGeom Model.ContLegacy Model.ContExp."
COQ_CASE_TYPE = "case"
COQ_RUN = "run_case"
_LEG, _EXP, _AGT = ("mesa/space.py", "mesa/experimental/continuous_space/continuous_space.py",
                    "mesa/experimental/continuous_space/continuous_space_agents.py")
# the source functions Model/ContLegacy.v and Model/ContExp.v transcribe (harness/fingerprint.py escalates when one moves)
SOURCE_FUNCS = (
    [(_LEG, "ContinuousSpace." + f) for f in (
        "__init__", "agents", "_build_agent_cache", "_invalidate_agent_cache", "place_agent", "move_agent",
        "remove_agent", "get_neighbors", "get_heading", "get_distance", "torus_adj", "out_of_bounds")]
    + [(_EXP, "ContinuousSpace." + f) for f in (
        "__init__", "agents", "_add_agent", "_remove_agent", "calculate_difference_vector", "calculate_distances",
        "get_agents_in_radius", "get_k_nearest_agents", "in_bounds", "torus_correct")]
    + [(_AGT, "ContinuousSpaceAgent")]          # position getter/setter, __init__, remove, the two neighbour forms
    # agent.remove() / model.remove_all_agents() as far as they reach the space (round 3)
    + [(_LEG, "warn_if_agent_has_position_already")]      # re-placing a placed legacy agent only warns (round 4)
    + [("mesa/agent.py", "Agent.remove"), ("mesa/model.py", "Model.register_agent"),
       ("mesa/model.py", "Model.deregister_agent"), ("mesa/model.py", "Model.remove_all_agents")]
)
TABLE_CONSTRUCTS = [
                    # code-level T1 (harness/tables/continuous_code.py): translated functions + statement skeletons
                    "cs_legacy_oob_code", "cs_legacy_torus_adj_code", "cs_legacy_distance_code", "cs_legacy_heading_code",
                    "cs_legacy_nbr_delta_code", "cs_legacy_nbr_dist2_code", "cs_legacy_nbr_select_code", "cs_legacy_skeleton",
                    "cs_exp_in_bounds_code", "cs_exp_torus_correct_code", "cs_exp_growth_code", "cs_exp_reindex_code",
                    "cs_exp_compact_code", "cs_exp_diff_code", "cs_exp_dist_code", "cs_exp_kth_code", "cs_exp_radius_code",
                    "cs_agent_setter_code", "cs_exp_skeleton"]
ENUM_ALWAYS = False
RULE = ("histories = one continuous space (legacy mesa.space.ContinuousSpace: 2-D; experimental ContinuousSpace: 2-D/3-D, initial "
        "capacity in {0,1,2,3,10,100}), bounds with negative / non-unit origins and axes as thin as 1/16, torus on/off, then <= 30 "
        "operations (a few histories: 104 agents past the default capacity): place/add (also onto another agent, also of an "
        "already placed legacy agent), move (in bounds, wrapping, rejected), remove_agent, agent.remove(), "
        "model.remove_all_agents(), Agent.remove() of a legacy agent, radius / k-nearest / distance / heading / "
        "difference-vector queries incl. the agents=[...] forms (empty list, repeats) and the two agent-side neighbour wrappers, "
        "query-move-query patterns, queries on the empty space, k = 1..n, radius 0 / equal to an exact distance / 1000x the "
        "space, include_center both ways at coincident agents; positions as int / float / NumPy-scalar tuples, lists, float and "
        "integer arrays; per-history variety bits (heterogeneous and falsy agent classes, keyword spelling + repeated queries, "
        "shared argument objects, a second unrelated space in the process).  This stream uses multiples of 1/16 and is also "
        "evaluated by the Gallina model; a second, oracle-only stream uses arbitrary binary64 numbers; a third, oracle-only SCALE "
        "stream has populations crossing 100 / 256 / 1000 / 1001 / 1024 / 2048 / 4096 with bulk add / remove / move, radii up to 40x "
        "an axis, k up to n and float32 / int64 position arrays; a fourth, oracle-only USER-CODE stream makes pos / position a "
        "property or mesa_signals Observable whose handler re-enters the space (queries, moves / removals / placements of other "
        "agents) or raises to veto, on ContinuousSpaceAgent subclasses overriding position / remove and on user subclasses of "
        "both spaces (user code is an input the Coq model does not have: implementation + oracle only).  non-trivial = >= 3 "
        "executed operations of which one is a query with a non-empty answer; distinct = by SHA1 of the history")
TRUSTED_BASE = [
    "Coq 8.16.1 kernel (coqc); vm_compute used for the Examples, the finite facts and for evaluating the model in the correspondence",
    "no axioms: Print Assumptions reports 'Closed under the global context' for each of the 59 theorems of Properties/C10.v "
    "(55 C10_*, 4 C18_continuous_*)",
    "harness/tables/continuous_code.py + harness/pyexpr.py (code-level T1): 17 functions / expressions of the two classes and of "
    "the position setter translated to Gallina on every run (per-axis reading of the NumPy expressions, sqrt read as the squared "
    "quantity, int(round(0.2 n)) as (2n+5)/10), 2 statement skeletons for the glue compared modulo local names, message texts, "
    "docstrings and formatting; 15 bridge lemmas model function = translated function in Proofs/ContBridge.v",
    "harness/props/C10.py drivers, observers and the Gallina literal printer (T2, differential testing, not a proof)",
    "Model/ContLegacy.v and Model/ContExp.v are hand transcriptions of mesa/space.py:ContinuousSpace and of "
    "mesa/experimental/continuous_space/{continuous_space,continuous_space_agents}.py (as repaired); dict = insertion-ordered "
    "association list, ndarray = list of rows, uninitialised rows = a placeholder that is never read (theorem), model._agents "
    "= a list of ids",
    "binary64 arithmetic in the model-checked stream only on dyadic inputs (multiples of 1/16, |x| < 2^12) where + - * abs min % "
    "are exact and sqrt is monotone and correctly rounded; NumPy argpartition as a legality-checked outcome, scipy cdist as "
    "exact Euclidean arithmetic on those inputs",
    "Uint63 primitive hash only in scratch Cases files, never under a theorem",
]
ASSUMPTIONS = [
    "model-checked stream: coordinates, radii, bounds are multiples of 1/16 of modest size; arbitrary binary64 inputs are covered "
    "by the oracle-only stream (bit-exact positions, 1e-9 relative distances, radius answers away from |d - r| <= 1e-6), not "
    "by theorems",
    "query points on a torus lie inside the closed bounds or (queries against agents) at most min(half a unit, half the thinnest "
    "axis) outside; get_distance / get_heading on a torus are asked for points of the space only (the code's min(d, size - d) "
    "is the toroidal distance only up to 1.5 periods apart)",
    "positions have the dimension of the space; every axis has positive extent; radii >= 0 for the agent-side wrapper "
    "(get_neighbors_in_radius(r < 0) raises IndexError on its empty mask: outside the quantifier, not issued)",
    "k-nearest answers are compared as sets: which agents argpartition returns among ties is an input to the model, checked for "
    "legality; get_nearest_neighbors may return k+1 agents when >= k+1 others sit exactly on the asker (C10_nearest_neighbors_boundary)",
    "'agents placed and not removed' is read as removed FROM THE SPACE: Agent.remove() of a plain agent leaves its legacy-space "
    "entry in place (C10_legacy_agent_remove_leaves_space_entry); callers mutating a position array after handing it to the "
    "legacy space (which stores the object itself) are outside the statement",
    "not modelled: AgentSet itself, cdist keyword arguments (non-Euclidean metrics), the experimental _index_to_agent (written, never read)",
]
E_OOB, E_NOTIN, E_INDEX = 1, 2, 3
SEP = -9
BAD = -999999


# ------------------------------------------------------------------ the statement's geometry (scaled ints)
def _axis_dist(torus, size, a, b):
    """the statement's distance along one axis: on a torus the shortest way round"""
    d = abs(a - b)
    if torus:
        d %= size
        d = min(d, size - d)
    return d


def _dist2(torus, bounds, p, q):
    return sum(_axis_dist(torus, hi - lo, x, y) ** 2 for (lo, hi), x, y in zip(bounds, p, q))


def _inside_half(bounds, p):
    return all(lo <= x < hi for (lo, hi), x in zip(bounds, p))


def _inside_closed(bounds, p):
    return all(lo <= x <= hi for (lo, hi), x in zip(bounds, p))


def _position_ok(torus, bounds, want, got):
    """is `got` the assigned position `want`, wrapped into bounds if need be (statement)"""
    if len(got) != len(want):
        return False
    for (lo, hi), w, g in zip(bounds, want, got):
        if not (lo <= g <= hi):
            return False
        if lo <= w < hi or not torus:
            if g != w:
                return False
        elif (g - w) % (hi - lo) != 0:
            return False
    return True


# ------------------------------------------------------------------ generation
def _bounds(rng, nd):
    bs = []
    for _ in range(nd):
        lo = rng.choice([0, 0, 16, -16, -48, 8, -40, 32, -5, 3])
        size = rng.choice([16, 32, 48, 64, 80, 40, 24, 100, 128, 16, 1, 2])      # 1, 2: a 1/16- or 1/8-wide axis
        bs.append([lo, lo + size])
    return bs


def _coord(rng, lo, hi, style):
    if style == "grid":      # whole units -> int positions possible, exact 3-4-5 distances
        c = [v for v in range(lo - lo % 16, hi + 1, 16) if lo <= v <= hi]
        return rng.choice(c) if c else lo
    if style == "edge":
        return rng.choice([lo, hi, hi - 1, lo + 1])
    return rng.randint(lo, hi)


def _point(rng, bounds, style=None, outside=False):
    style = style or rng.choice(["grid", "grid", "any", "any", "any", "edge"])
    p = [_coord(rng, lo, hi, style) for lo, hi in bounds]
    if outside:
        i = rng.randrange(len(bounds))
        lo, hi = bounds[i]
        size = hi - lo
        p[i] = rng.choice([hi + rng.randint(1, size), lo - rng.randint(1, size), hi + size + rng.randint(0, size),
                           lo - size - rng.randint(1, size), hi])
    return p


def _form(rng, space, p):
    if space == "legacy":
        f = rng.choice(["i", "i", "f", "f", "a", "n", "ai", "l"])
    else:
        f = rng.choice(["i", "l", "l", "t", "a", "n", "ai"])
    if f == "i" and any(v % 16 for v in p):
        f = "f" if space == "legacy" else "l"
    return f


def _radius(rng, bounds, torus, pts, q):
    """mostly a random radius; sometimes exactly the distance to an agent when that is a dyadic number"""
    if pts and rng.random() < 0.4:
        d2 = _dist2(torus, bounds, rng.choice(pts), q)
        r = int(round(d2 ** 0.5))
        if r * r == d2:
            return max(0, r + rng.choice([0, 0, 0, 1, -1]))
        return r + rng.choice([0, 1])
    m = max(hi - lo for lo, hi in bounds)
    return rng.choice([0, 8, 16, 24, 32, m // 2, m, rng.randint(0, m), rng.randint(0, m), 10 * m, 1000 * m])


def _gen_history(rng, space, nd, torus, bounds, cap, nops, maxagents=9):
    """a mostly valid history; tracks a rough picture of who is placed where (only to steer generation)"""
    ops = []
    placed = {}          # label -> point (as assigned, not wrapped: only used to aim queries)
    nxt = 1
    removed = []

    def qpoint(outside_ok=True):
        if placed and rng.random() < 0.45:
            base = list(rng.choice(list(placed.values())))
            if rng.random() < 0.6:
                i = rng.randrange(nd)
                base[i] += rng.choice([0, 16, -16, 48, -48, 64, 5, -7, 80])
                j = rng.randrange(nd)
                if j != i:
                    base[j] += rng.choice([0, 64, -64, 48, 0])
            q = base
        else:
            q = _point(rng, bounds)
        if torus:
            # inside the closed bounds; now and then up to half a unit outside (still nearer than 1.5 periods)
            # (only for queries with ONE free point: agents are inside, so |d| <= size + 8 <= 1.5 size)
            m = min(8, min(hi - lo for lo, hi in bounds) // 2) if outside_ok and rng.random() < 0.2 else 0
            q = [min(max(x, lo - m), hi + m) for (lo, hi), x in zip(bounds, q)]
        elif rng.random() < 0.8:
            q = [min(max(x, lo - 16), hi + 16) for (lo, hi), x in zip(bounds, q)]
        return q

    def newpos():
        if placed and rng.random() < 0.18:
            return list(rng.choice(list(placed.values())))     # exactly onto another agent (coincident agents)
        out = rng.random() < (0.3 if torus else 0.12)
        return _point(rng, bounds, outside=out)

    while len(ops) < nops:
        r = rng.random()
        n = len(placed)
        if space == "exp" and n and rng.random() < 0.012:
            ops.append(["clear"])                               # model.remove_all_agents()
            removed += list(placed)
            placed.clear()
            continue
        if space == "legacy" and n and rng.random() < 0.05:
            a = rng.choice(list(placed))
            if rng.random() < 0.5:
                ops.append(["agent_remove", a])          # leaves the model, stays in the space
            else:
                p = newpos()                             # place_agent of an agent that is already placed (warns, moves)
                ops.append(["place", a, p, _form(rng, space, p)])
                if torus or _inside_half(bounds, p):
                    placed[a] = p
            continue
        if n >= 2 and rng.random() < 0.05:
            # coincidence probes: a query centred exactly on an agent, radius 0 / tiny, centre in and out
            a = rng.choice(list(placed))
            if space == "legacy":
                ops.append(["nbrs", list(placed[a]) if _inside_closed(bounds, placed[a]) or not torus else _point(rng, bounds),
                            rng.choice([0, 0, 1, 16]), rng.random() < 0.5])
            else:
                ops.append(rng.choice([["nbr_near", a, rng.randint(1, n - 1)], ["nbr_radius", a, rng.choice([0, 0, 1, 16])],
                                       ["knear", list(placed[a]) if _inside_closed(bounds, placed[a]) or not torus else _point(rng, bounds), rng.randint(1, n)]]))
            continue
        if r < 0.24 or (n == 0 and r < 0.6 and len(ops) > 0) or (n == 0 and len(ops) == 0 and r < 0.8):
            if n >= maxagents:
                continue
            if removed and space == "legacy" and rng.random() < 0.3:
                a = removed.pop(rng.randrange(len(removed)))     # the same agent placed again after removal
            else:
                a = nxt
                nxt += 1
            p = newpos()
            if space == "exp" and not torus and not _inside_closed(bounds, p):
                p = _point(rng, bounds)
            ops.append(["place" if space == "legacy" else "add", a, p, _form(rng, space, p)])
            if torus or (_inside_half(bounds, p) if space == "legacy" else _inside_closed(bounds, p)):
                placed[a] = p
            elif space == "legacy":
                removed.append(a)
        elif r < 0.46 and n:
            a = rng.choice(list(placed))
            p = newpos()
            ops.append(["move" if space == "legacy" else "set", a, p, _form(rng, space, p)])
            if torus or (_inside_half(bounds, p) if space == "legacy" else _inside_closed(bounds, p)):
                placed[a] = p
            if ops and rng.random() < 0.5:
                # query - move - query: re-issue the last query if there was one
                last = next((o for o in reversed(ops[:-1]) if o[0] in ("nbrs", "radius", "knear", "dists")), None)
                if last is not None and not (last[0] == "knear" and last[2] > len(placed)):
                    ops.append(list(last))
        elif r < 0.56 and n:
            a = rng.choice(list(placed))
            ops.append(["remove", a])
            del placed[a]
            removed.append(a)
            if space == "exp" and rng.random() < 0.2:
                ops.append(["remove", a])          # agent.remove() a second time: a no-op
        elif r < 0.58:
            # an operation on an agent that is not there (no-op / rejected, must not disturb anything)
            a = rng.choice(removed) if removed and rng.random() < 0.7 else nxt + 3
            ops.append(rng.choice([["remove", a], ["move" if space == "legacy" else "set", a, _point(rng, bounds), "f" if space == "legacy" else "l"]]))
        else:
            q = qpoint()
            pts = list(placed.values())
            if space == "legacy":
                k = rng.random()
                if k < 0.7:
                    ops.append(["nbrs", q, _radius(rng, bounds, torus, pts, q), rng.random() < 0.7])
                elif k < 0.85:
                    ops.append(["dist", qpoint(False), qpoint(False)])
                else:
                    ops.append(["heading", qpoint(False), qpoint(False), rng.choice(["t", "a"])])
            else:
                k = rng.random()
                if k < 0.35:
                    ops.append(["radius", q, _radius(rng, bounds, torus, pts, q)])
                elif k < 0.55 and n:
                    ops.append(["knear", q, rng.choice([1, n, n, rng.randint(1, n), max(1, n - 1)])])
                elif k < 0.62:
                    ops.append(["dists", q])
                elif k < 0.72:
                    ops.append(["diffs", q])
                elif k < 0.82 and n:
                    a = rng.choice(list(placed))
                    ops.append(["nbr_radius", a, _radius(rng, bounds, torus, pts, placed[a])])
                elif k < 0.93 and n >= 2:
                    ops.append(["nbr_near", rng.choice(list(placed)), rng.choice([1, n - 1, n - 1, rng.randint(1, n - 1)])])
                elif k < 0.965 and n >= 2:
                    a, b = rng.sample(list(placed), 2)
                    ops.append(["pair", a, b])
                elif n:
                    sub = [rng.choice(list(placed)) for _ in range(rng.randint(0, min(4, n + 1)))]   # [] and repeats too
                    ops.append([rng.choice(["dists_of", "diffs_of"]), q, sub])
                else:
                    ops.append(["radius", q, _radius(rng, bounds, torus, pts, q)])
    return ops[:nops]


def _mk(rng, space, nops=None, maxagents=9):
    nd = 2 if space == "legacy" else rng.choice([2, 2, 3])
    torus = rng.random() < 0.5
    bounds = _bounds(rng, nd)
    case = {"space": space, "bounds": bounds, "torus": torus, "mix": rng.choice([0, 0, rng.randrange(16), 15])}
    cap = 0
    if space == "exp":
        cap = rng.choice([0, 1, 2, 3, 3, 10, 100])
        case["cap"] = cap
    nops = nops or rng.randint(6, 30)
    ops = _gen_history(rng, space, nd, torus, bounds, cap, nops, maxagents)
    if rng.random() < 0.25:
        # queries on the space before the first agent
        q = _point(rng, bounds)
        first = ["nbrs", q, 32, True] if space == "legacy" else rng.choice([["radius", q, 32], ["dists", q], ["diffs", q]])
        ops = [first] + ops[:-1]
    case["ops"] = ops
    return case


def _big_growth_case(rng):
    """initial capacity 100 (the default): fill it, go past it (growth by round(0.2 n) rows), compact, refill"""
    nd = rng.choice([2, 3])
    torus = rng.random() < 0.5
    bounds = _bounds(rng, nd)
    ops = []
    n = rng.randint(101, 104)
    for a in range(1, n + 1):
        p = _point(rng, bounds, outside=torus and rng.random() < 0.2)
        ops.append(["add", a, p, "l"])
    live = list(range(1, n + 1))
    for _ in range(rng.randint(3, 8)):
        r = rng.random()
        if r < 0.4:
            a = rng.choice(live)
            live.remove(a)
            ops.append(["remove", a])
        elif r < 0.7:
            ops.append(["set", rng.choice(live), _point(rng, bounds), "l"])
        elif r < 0.85:
            ops.append(["radius", _point(rng, bounds), rng.choice([8, 16, 24])])
        else:
            ops.append(["knear", _point(rng, bounds), rng.choice([1, 3, len(live)])])
    a = n + 1
    ops.append(["add", a, _point(rng, bounds), "t"])
    ops.append(["radius", _point(rng, bounds), 16])
    return {"space": "exp", "bounds": bounds, "torus": torus, "cap": 100, "ops": ops}


def gen_cases(rng, tier):
    n = 460 if tier == "quick" else 9000
    cases = []
    for i in range(n):
        space = "legacy" if i % 5 < 2 else "exp"
        cases.append(_mk(rng, space))
    # growth-heavy experimental histories: many adds from a tiny capacity, removals in between
    for i in range(30 if tier == "quick" else 400):
        c = _mk(rng, "exp", nops=30, maxagents=14)
        c["cap"] = rng.choice([0, 1, 2, 3])
        cases.append(c)
    for i in range(2 if tier == "quick" else 12):
        cases.append(_big_growth_case(rng))
    # oracle-only stream with arbitrary (non-dyadic) binary64 numbers: not evaluated by the Z-scaled model
    for i in range(220 if tier == "quick" else 5000):
        cases.append(_mk_float(rng, "legacy" if i % 5 < 2 else "exp"))
    # SCALE stream (oracle only): populations crossing 100 / 256 / 1000 / 1001 / 1024 / 2048 / 4096, bulk add / remove / move,
    # radii from tiny to larger than the space, k crossing thresholds up to n, rare position types
    # USER-CODE stream (oracle only): pos / position as property or Observable whose handler re-enters the space or vetoes,
    # agent subclasses overriding position / remove, user subclasses of the spaces
    for i in range(70 if tier == "quick" else 1500):
        cases.append(_mk_user(rng, "legacy" if i % 2 == 0 else "exp"))
    for i in range(12 if tier == "quick" else 120):
        cases.append(_mk_scale(rng, "legacy" if i % 3 == 2 else "exp", big=(i % 3 == 0)))
    return cases


def _user_sweep(n_cases):
    import random

    rng = random.Random(20261001)
    for i in range(n_cases):
        yield _mk_user(rng, "legacy" if i % 2 == 0 else "exp")


def _scale_sweep(n_cases):
    import random

    rng = random.Random(20260930)
    for i in range(n_cases):
        yield _mk_scale(rng, "legacy" if i % 3 == 2 else "exp", big=(i % 3 == 0))


def enumerate_cases(tier, broken=False):
    if broken or tier == "thorough":
        yield from _scale_sweep(40 if tier == "quick" else 80)
        yield from _user_sweep(400 if tier == "quick" else 1200)
    yield from _enumerate_small(tier, broken)


def _enumerate_small(tier, broken=False):
    """targeted exhaustive sweep: every history of length <= L over a small alphabet, for every small capacity /
    torus flag.  legacy: place-next (int), move-first (to a non-integer point), remove-first, two range queries;
    experimental: add-next, move-first, remove-first, remove-last, radius query covering everything, k-nearest(k=n)."""
    lim = 5 if tier == "thorough" else 4
    bounds = [[-16, 48], [0, 64]]
    pts = [[0, 16], [16, 16], [32, 48], [-16, 0], [16, 32], [0, 0]]
    for torus in (False, True):
        alpha = ["P", "M", "R", "Q1", "Q2"]
        for ln in range(1, lim + 1):
            for word in itertools.product(alpha, repeat=ln):
                ops = []
                nxt = 1
                live = []
                for w in word:
                    if w == "P":
                        ops.append(["place", nxt, pts[(nxt - 1) % len(pts)], "i"])
                        live.append(nxt)
                        nxt += 1
                    elif w == "M":
                        ops.append(["move", live[0] if live else 1, [12, 28], "f"])
                    elif w == "R":
                        ops.append(["remove", live.pop(0) if live else 1])
                    elif w == "Q1":
                        ops.append(["nbrs", [12, 28], 12, True])
                    else:
                        ops.append(["nbrs", [0, 16], 16, False])
                yield {"space": "legacy", "bounds": bounds, "torus": torus, "ops": ops}
        alpha = ["A", "M", "R0", "R1", "Q", "K"]
        for cap in (0, 1, 2, 3):
            for ln in range(1, lim + 1):
                for word in itertools.product(alpha, repeat=ln):
                    ops = []
                    nxt = 1
                    live = []
                    for w in word:
                        if w == "A":
                            ops.append(["add", nxt, pts[(nxt - 1) % len(pts)], "l"])
                            live.append(nxt)
                            nxt += 1
                        elif w == "M":
                            ops.append(["set", live[0] if live else 1, [12, 28], "l"])
                        elif w == "R0":
                            ops.append(["remove", live.pop(0) if live else 1])
                        elif w == "R1":
                            ops.append(["remove", live.pop() if live else 1])
                        elif w == "Q":
                            ops.append(["radius", [12, 28], 200 if not torus else 48])
                        else:
                            ops.append(["knear", [12, 28], max(1, len(live))])
                    yield {"space": "exp", "bounds": bounds, "torus": torus, "cap": cap, "ops": ops}
    # coincident agents: m agents on one point, e others elsewhere; every agent asks for every k, radius 0 queries
    for torus in (False, True):
        for m in range(1, 5):
            for e in range(0, 3):
                n = m + e
                adds = [["add", i + 1, [0, 16], "l"] for i in range(m)] + [["add", m + j + 1, pts[2 + j], "l"] for j in range(e)]
                ops = list(adds)
                for a in range(1, n + 1):
                    for k in range(1, n):
                        ops.append(["nbr_near", a, k])
                    ops.append(["nbr_radius", a, 0])
                ops += [["radius", [0, 16], 0], ["knear", [0, 16], min(n, m)], ["remove", 1], ["clear"], ["radius", [0, 16], 0]]
                yield {"space": "exp", "bounds": bounds, "torus": torus, "cap": 2, "ops": ops}
                lops = [["place", i + 1, [0, 16], "i"] for i in range(m)] + [["place", m + j + 1, pts[2 + j], "f"] for j in range(e)]
                for ic in (True, False):
                    lops += [["nbrs", [0, 16], 0, ic], ["nbrs", [0, 16], 16, ic], ["nbrs", [32, 48], 0, ic]]
                lops += [["move", 1, [32, 48], "f"], ["nbrs", [32, 48], 0, False], ["nbrs", [0, 16], 0, True]]
                yield {"space": "legacy", "bounds": bounds, "torus": torus, "ops": lops}


# ------------------------------------------------------------------ implementation side
class _Fail(list):
    def add(self, key, op, what):
        self.append({"key": key, "op": op, "what": what})


def _sc(v, bad):
    f = float(v) * 16.0
    r = round(f)
    if f != r:
        bad.append(float(v))
    return int(r)


def _sc2(d, bad):
    """squared, scaled distance from a float distance (exact for dyadic inputs up to the rounding of sqrt)"""
    f = (float(d) * 16.0) ** 2
    r = round(f)
    if abs(f - r) > 1e-6 * max(1.0, f):
        bad.append(float(d))
    return int(r)


def _rows(rows):
    out = []
    for r in sorted(rows, key=lambda r: r[0]):
        out += r
    return out


def _rows_in_order(rows):
    out = []
    for r in rows:
        out += r
    return out


def _to_py(p, form):
    import numpy as np

    if form == "i":
        if any(v % 16 for v in p):      # not whole numbers: hand over floats instead
            return tuple(v / 16.0 for v in p)
        return tuple(int(v // 16) for v in p)
    if form == "f":
        return tuple(v / 16.0 for v in p)
    if form == "t":
        return tuple(v / 16.0 for v in p)
    if form == "a":
        return np.array([v / 16.0 for v in p])
    if form == "l":
        return [v / 16.0 for v in p]
    if form == "n":                      # a tuple of NumPy scalars
        return tuple(np.float64(v / 16.0) for v in p)
    if form == "ai":                     # an integer ndarray (whole numbers only, else a float one)
        if any(v % 16 for v in p):
            return np.array([v / 16.0 for v in p])
        return np.array([v // 16 for v in p], dtype=np.int64)
    raise ValueError(form)


class _Variety:
    """round-5 audit: population, argument and call-spelling variety of one history, switched by case['mix'] (bits):
       1 heterogeneous / falsy agent classes (base, __bool__ False, subclass of subclass with a mixin after the base, __len__ 0)
       2 keyword spelling of the query calls, NumPy-scalar / int radii and k, every query issued a second time
       4 the SAME argument object handed in again for equal positions (shared between agents / calls)
       8 a second, unrelated space + model alive in the same process and mutated in between; bounds as nested lists
       (whatever the bits: no argument object handed in may be mutated by the call)"""

    def __init__(self, case, fails, prefix):
        self.mix = int(case.get("mix", 0))
        self.fails, self.prefix = fails, prefix
        self.memo, self.snap, self._cls = {}, [], None

    def classes(self, base):
        if self._cls is None:
            class Mixin:                      # noqa: N801
                tag = "mixin"

            class Falsy(base):
                def __bool__(self):
                    return False

            class Deep(Falsy, Mixin):         # subclass of a subclass, mixin AFTER the framework base in the MRO
                pass

            class Sized(base):
                def __len__(self):
                    return 0
            self._cls = [base, Falsy, Deep, Sized]
        return self._cls

    def cls(self, base, label):
        return self.classes(base)[label % 4] if self.mix & 1 else base

    def arg(self, p, form):
        import copy

        key = (tuple(p), form)
        if self.mix & 4 and key in self.memo:
            o = self.memo[key]
        else:
            o = _to_py(p, form)
            self.memo[key] = o
        self.snap.append((o, copy.deepcopy(o)))
        return o

    def check_args(self, i, state):
        import numpy as np

        for o, was in self.snap:
            same = np.array_equal(np.asarray(o), np.asarray(was)) and type(o) is type(was)
            if not same and not state["dead"]:
                self.fails.add(f"{self.prefix}/argument-mutated", i, f"an argument handed in as {was!r} was changed by the call to {o!r}")
                state["dead"] = True
        self.snap = []

    def radius(self, r, i):
        import numpy as np

        if not self.mix & 2:
            return r / 16.0
        if r % 16 == 0 and i % 3 == 0:
            return int(r // 16)
        return np.float64(r / 16.0) if i % 3 == 1 else r / 16.0

    def k(self, k, i):
        import numpy as np

        return np.int64(k) if self.mix & 2 and i % 2 else k

    def kw(self):
        return bool(self.mix & 2)


def run_impl(case):
    import warnings

    with warnings.catch_warnings():
        warnings.simplefilter("ignore")
        if case.get("user"):
            return _run_user(case)
        if case.get("scale"):
            return _run_scale(case)
        if case.get("float"):
            return _run_float(case)
        if case["space"] == "legacy":
            return _run_legacy(case)
        return _run_exp(case)


def _run_legacy(case):
    import mesa
    import numpy as np
    from mesa.space import ContinuousSpace

    bounds = [tuple(b) for b in case["bounds"]]
    torus = case["torus"]
    (x0, x1), (y0, y1) = bounds
    fl = lambda v: v // 16 if v % 16 == 0 else v / 16.0  # noqa: E731
    space = ContinuousSpace(fl(x1), fl(y1), torus, fl(x0), fl(y0))
    model = mesa.Model(seed=1)
    objs = {}
    fails = _Fail()
    V = _Variety(case, fails, "C10/legacy")
    decoy = None
    if V.mix & 8:       # an unrelated second space + model in the same process, mutated in between
        dm = mesa.Model(seed=2)
        decoy = (ContinuousSpace(7, 9, True, -3, -2), [mesa.Agent(dm), mesa.Agent(dm)])
        for j, o in enumerate(decoy[1]):
            o.pos = None
            decoy[0].place_agent(o, (j + 0.25, j - 0.5))
        decoy[0].get_neighbors((0, 0), 3)
    obs = []
    shadow = {}     # the statement: label -> last assigned position (wrapped), for agents placed and not removed
    state = {"dead": False}

    def obj(a):
        if a not in objs:
            o = V.cls(mesa.Agent, a)(model)
            o.pos = None
            o._label = a
            objs[a] = o
        return objs[a]

    def view(i, check=True):
        bad = []
        members = list(space.agents)
        rows = []
        for o in members:
            if o.pos is None:
                rows.append([o._label, BAD])
            else:
                rows.append([o._label] + [_sc(v, bad) for v in o.pos])
        haspos = sorted(a for a, o in objs.items() if o.pos is not None)
        gone = sorted(a for a, o in objs.items() if o not in model.agents)      # Agent.remove() was called on them
        v = [len(members)] + _rows_in_order(rows) + [SEP] + haspos + [SEP] + gone   # space.agents in ITS order
        if check and not state["dead"]:
            labels = [o._label for o in members]
            if sorted(labels) != sorted(shadow):
                fails.add("C10/legacy/agents/wrong-set", i, f"space.agents holds {sorted(labels)} but the agents placed and not removed are {sorted(shadow)}")
            elif labels != list(shadow):
                fails.add("C10/legacy/agents/order", i, f"space.agents lists {labels}; the order of placement (of _agent_to_index) is {list(shadow)}")
            else:
                for o in members:
                    got = None if o.pos is None else [_sc(v_, []) for v_ in o.pos]
                    if got is None or not _position_ok(torus, bounds, shadow[o._label], got) or bad:
                        fails.add("C10/legacy/pos/wrong-position", i, f"agent {o._label} reports pos {None if o.pos is None else tuple(float(x) for x in o.pos)} (x16: {got}); last assigned (x16) {shadow[o._label]} on bounds(x16) {bounds} torus={torus}")
                        break
                    shadow[o._label] = got
                for a, o in objs.items():
                    if a not in shadow and o.pos is not None:
                        fails.add("C10/legacy/pos/removed-agent-keeps-pos", i, f"agent {a} is not in the space but has pos {o.pos}")
                        break
            if fails:
                state["dead"] = True
        return v

    def assigned(p):
        """the statement: where an agent assigned p is (None = the assignment is rejected)"""
        if _inside_half(bounds, p):
            return list(p)
        if not torus:
            return None
        return [lo + (x - lo) % (hi - lo) for (lo, hi), x in zip(bounds, p)]

    for i, op in enumerate(case["ops"]):
        kind = op[0]
        before = None
        V.check_args(i, state)
        if decoy is not None and i in (3, 7):
            decoy[0].move_agent(decoy[1][0], (i * 0.5, 1.0))
            decoy[0].remove_agent(decoy[1][1])
            decoy[0].place_agent(decoy[1][1], (6.5 - i, -1.5))
            decoy[0].get_neighbors((1, 1), 2)
        try:
            if kind in ("place", "move"):
                _, a, p, form = op
                o = obj(a)
                member = o in space._agent_to_index
                if len(p) != 2 or (kind == "move" and not member):
                    obs.append([-2])
                    continue
                before = view(i, check=False)
                want = assigned(p)
                try:
                    (space.place_agent if kind == "place" else space.move_agent)(o, V.arg(p, form))
                except Exception as e:  # noqa: BLE001
                    if want is None and type(e) is Exception:      # the kind of error, never its message
                        after = view(i, check=False)
                        if after != before and not state["dead"]:
                            fails.add(f"C10/legacy/{kind}_agent/rejected-call-changed-state", i, f"{kind}_agent(agent {a}, x16 {p}) on the bounded space raised '{e}' but changed the space: before {before}, after {after}")
                            fails.add(f"C18/continuous/legacy-{kind}", i, f"legacy ContinuousSpace.{kind}_agent out of bounds raised but changed state: before {before}, after {after}")
                            state["dead"] = True
                        obs.append([-1, E_OOB, SEP] + view(i))
                        continue
                    raise
                if want is None:
                    if not state["dead"]:
                        fails.add(f"C10/legacy/{kind}_agent/out-of-bounds-accepted", i, f"{kind}_agent(agent {a}, x16 {p}) outside bounds(x16) {bounds} of a bounded space was accepted")
                        state["dead"] = True
                else:
                    shadow[a] = want
                obs.append([SEP] + view(i))
            elif kind == "remove":
                a = op[1]
                o = obj(a)
                before = view(i, check=False)
                try:
                    space.remove_agent(o)
                except Exception as e:  # noqa: BLE001
                    if a not in shadow and type(e) is Exception:
                        obs.append([-1, E_NOTIN, SEP] + view(i))
                        continue
                    raise
                if a not in shadow and not state["dead"]:
                    fails.add("C10/legacy/remove_agent/absent-agent-accepted", i, f"remove_agent(agent {a}) did not raise although the agent is not in the space")
                    state["dead"] = True
                shadow.pop(a, None)
                obs.append([SEP] + view(i))
            elif kind == "agent_remove":
                # Agent.remove() of a plain mesa.Agent: leaves the model, NOT the legacy space (documented boundary:
                # the statement's "removed" is removal from the space) - the shadow does not change
                obj(op[1]).remove()
                obs.append([SEP] + view(i))
            elif kind == "nbrs":
                _, q, r, ic = op
                if len(q) != 2:
                    obs.append([-2])
                    continue
                qa = V.arg(q, "f")
                res = space.get_neighbors(qa, V.radius(r, i), ic)
                got = [o._label for o in res]
                if V.kw():      # the same question again, spelled with keywords: the same answer
                    again = [o._label for o in space.get_neighbors(pos=V.arg(q, "a"), radius=r / 16.0, include_center=ic)]
                    if sorted(again) != sorted(got) and not state["dead"]:
                        fails.add("C10/legacy/get_neighbors/second-call-differs", i, f"get_neighbors(x16 {q}, {r}, {ic}) answered {sorted(got)}, then - with keyword arguments and no change in between - {sorted(again)}")
                        state["dead"] = True
                if not state["dead"]:
                    exp = sorted(a for a, p in shadow.items()
                                 if _dist2(torus, bounds, p, q) <= r * r and (ic or _dist2(torus, bounds, p, q) > 0))
                    if sorted(got) != exp:
                        fails.add("C10/legacy/get_neighbors/wrong-agents", i, f"get_neighbors(x16 {q}, radius x16 {r}, include_center={ic}) returned agents {sorted(got)}; the agents within the radius are {exp} (positions x16 {shadow}, bounds x16 {bounds}, torus={torus})")
                obs.append([1 if len(set(got)) != len(got) else 0] + sorted(got) + [SEP] + view(i))
            elif kind == "dist":
                _, p, q = op
                bad = []
                d = _sc2(space.get_distance(_to_py(p, "f"), _to_py(q, "f")), bad)
                d_rev = _sc2(space.get_distance(_to_py(q, "f"), _to_py(p, "f")), bad)
                if not state["dead"]:
                    if d != d_rev:
                        fails.add("C10/legacy/get_distance/asymmetric", i, f"get_distance(x16 {p}, {q})^2*256 = {d} but reversed = {d_rev}")
                    if d != _dist2(torus, bounds, p, q) or bad:
                        fails.add("C10/legacy/get_distance/wrong", i, f"get_distance(x16 {p}, {q})^2*256 = {d}, the (toroidal) Euclidean distance gives {_dist2(torus, bounds, p, q)}")
                obs.append([d, SEP] + view(i))
            elif kind == "heading":
                _, p, q, form = op
                bad = []
                h = space.get_heading(_to_py(p, form), _to_py(q, form))
                hv = [_sc(v, bad) for v in h]
                if not state["dead"]:
                    if sum(v * v for v in hv) != _dist2(torus, bounds, p, q) or bad or len(hv) != 2:
                        fails.add("C10/legacy/get_heading/length", i, f"get_heading(x16 {p}, {q}) = x16 {hv}: squared length {sum(v * v for v in hv)}, squared distance {_dist2(torus, bounds, p, q)}")
                obs.append(hv + [SEP] + view(i))
            else:
                raise ValueError(kind)
        except Exception as e:  # noqa: BLE001
            key = f"C10/legacy/{_site(kind)}/raises"
            if kind == "nbrs" and not shadow:
                key = "C10/legacy/get_neighbors/empty-space"
            if not state["dead"]:
                fails.add(key, i, f"{op} raised {type(e).__name__}: {e}  (agents in the space: {sorted(shadow)})")
            state["dead"] = True
            try:
                obs.append([-1, 99, SEP] + view(i, check=False))
            except Exception:  # noqa: BLE001
                obs.append([-1, 99])
    V.check_args(len(case["ops"]), state)
    if decoy is not None and not state["dead"]:
        dpos = [tuple(o.pos) for o in decoy[1]]
        n_ops = len(case["ops"])
        want = [(3.5, 1.0), (-0.5, -1.5)] if n_ops > 7 else ([(1.5, 1.0), (3.5, -1.5)] if n_ops > 3 else [(0.25, -0.5), (1.25, 0.5)])
        if dpos != want or len(decoy[0].agents) != 2:
            fails.add("C10/legacy/decoy/cross-talk", len(case["ops"]) - 1, f"an unrelated second space reports {dpos}, expected {want}")
    return {"obs": obs, "failures": list(fails)}


def _site(kind):
    return {"place": "place_agent", "move": "move_agent", "remove": "remove_agent", "nbrs": "get_neighbors",
            "dist": "get_distance", "heading": "get_heading", "add": "add", "set": "position",
            "dists": "calculate_distances", "radius": "get_agents_in_radius", "knear": "get_k_nearest_agents",
            "diffs": "calculate_difference_vector", "nbr_radius": "get_neighbors_in_radius",
            "nbr_near": "get_nearest_neighbors", "pair": "calculate_distances",
            "dists_of": "calculate_distances", "diffs_of": "calculate_difference_vector",
            "clear": "remove_all_agents", "agent_remove": "Agent.remove"}.get(kind, kind)


def _run_exp(case):
    import mesa
    import numpy as np
    from mesa.experimental.continuous_space import ContinuousSpace, ContinuousSpaceAgent

    bounds = [tuple(b) for b in case["bounds"]]
    nd = len(bounds)
    torus = case["torus"]
    model = mesa.Model(seed=1)
    fails = _Fail()
    V = _Variety(case, fails, "C10/exp")
    dims = np.array([[lo / 16.0, hi / 16.0] for lo, hi in bounds])
    if V.mix & 8:
        if all(v % 16 == 0 for b in bounds for v in b):
            dims = np.array([[lo // 16, hi // 16] for lo, hi in bounds], dtype=np.int64)      # an integer array
        else:
            dims = [[lo / 16.0, hi / 16.0] for lo, hi in bounds]                              # nested lists
    dims_was = np.array(dims, dtype=float).copy()
    space = ContinuousSpace(dims, torus=torus, random=model.random, n_agents=case["cap"])
    decoy = None
    if V.mix & 8:
        dm = mesa.Model(seed=2)
        dsp = ContinuousSpace(dims, torus=True, random=dm.random, n_agents=1)       # the SAME bounds object, another space
        decoy = (dsp, [ContinuousSpaceAgent(dsp, dm) for _ in range(3)])
        for j, o in enumerate(decoy[1]):
            o.position = [float(dims_was[0][0]), float(dims_was[1][0])] + [float(d[0]) for d in dims_was[2:]]
    live = {}        # label -> agent object currently in the space (driver's own bookkeeping of what it created)
    gone_objs = {}   # label -> the last agent object with that label that was removed
    obs = []
    ops_for_model = []
    shadow = {}
    state = {"dead": False}

    def pos_of(o, bad):
        try:
            return [_sc(v, bad) for v in o.position]
        except Exception:  # noqa: BLE001
            return None

    def view(i, check=True):
        bad = []
        members = list(space.agents)
        rows = []
        got = {}
        for o in members:
            p = pos_of(o, bad)
            got[o._label] = p
            rows.append([o._label] + (p if p is not None else [BAD]))
        try:
            nrows = int(space.agent_positions.shape[0])
        except Exception:  # noqa: BLE001
            nrows = BAD
        in_model = [o._label for o in model.agents]
        v = [len(members), nrows] + _rows_in_order(rows) + [SEP] + in_model   # space.agents, model.agents in THEIR order
        if check and not state["dead"]:
            labels = [o._label for o in members]
            if sorted(labels) != sorted(shadow):
                fails.add("C10/exp/agents/wrong-set", i, f"space.agents holds {sorted(labels)} but the agents added and not removed are {sorted(shadow)}")
            elif labels != list(shadow):
                fails.add("C10/exp/agents/order", i, f"space.agents lists {labels}; the order of creation (of active_agents) is {list(shadow)}")
            elif sorted(in_model) != sorted(shadow):
                fails.add("C10/exp/remove/model-and-space-disagree", i, f"model.agents holds {sorted(in_model)} but the space holds {sorted(shadow)}: an agent removed from the model must leave the space and vice versa")
            else:
                for a in labels:
                    if got[a] is None or bad or not _position_ok(torus, bounds, shadow[a], got[a]):
                        fails.add("C10/exp/position/wrong-position", i, f"agent {a} reports position x16 {got[a]}; last assigned x16 {shadow[a]} (bounds x16 {bounds}, torus={torus}, initial capacity {case['cap']}, {len(labels)} agents)")
                        break
                    shadow[a] = got[a]
            if fails:
                state["dead"] = True
        return v

    def assigned(p):
        if _inside_closed(bounds, p):
            return list(p)
        if not torus:
            return None
        return [lo + (x - lo) % (hi - lo) for (lo, hi), x in zip(bounds, p)]

    def check_pairs(i, site, q, agents, dists, bad, want_set=None, k=None):
        """agents/dists as returned; every distance must be the agent's distance; optionally the exact set"""
        labels = [o._label for o in agents]
        d2 = [_sc2(d, bad) for d in dists]
        if state["dead"]:
            return labels, d2
        if len(d2) != len(labels):
            fails.add(f"C10/exp/{site}/distances-misaligned", i, f"{site}: {len(labels)} agents but {len(d2)} distances")
            return labels, d2[:len(labels)] + [BAD] * (len(labels) - len(d2))
        if len(set(labels)) != len(labels):
            fails.add(f"C10/exp/{site}/duplicate-agents", i, f"{site} around x16 {q} returned {labels}")
        for a, d in zip(labels, d2):
            if a not in shadow or d != _dist2(torus, bounds, shadow[a], q) or bad:
                fails.add(f"C10/exp/{site}/wrong-distance", i, f"{site} around x16 {q}: agent {a} reported with squared distance x256 {d}, its position x16 is {shadow.get(a)} -> {_dist2(torus, bounds, shadow[a], q) if a in shadow else None}")
                break
        if want_set is not None and sorted(labels) != sorted(want_set):
            fails.add(f"C10/exp/{site}/wrong-agents", i, f"{site} around x16 {q} returned agents {sorted(labels)}; exactly {sorted(want_set)} qualify (positions x16 {shadow}, bounds x16 {bounds}, torus={torus})")
        if k is not None:
            if len(labels) != k:
                fails.add(f"C10/exp/{site}/wrong-count", i, f"{site}(k={k}) returned {len(labels)} agents with {len(shadow)} in the space")
            else:
                far = max([_dist2(torus, bounds, shadow[a], q) for a in labels if a in shadow], default=0)
                for b, p in shadow.items():
                    if b not in labels and _dist2(torus, bounds, p, q) < far:
                        fails.add(f"C10/exp/{site}/not-nearest", i, f"{site}(k={k}) around x16 {q} returned {labels} but agent {b} left out is nearer (positions x16 {shadow})")
                        break
        return labels, d2

    for i, op in enumerate(case["ops"]):
        kind = op[0]
        mop = list(op)
        V.check_args(i, state)
        if decoy is not None and i in (3, 7) and len(decoy[1]) > 1:
            decoy[1].pop(0).remove()
            decoy[0].get_agents_in_radius(decoy[1][0].position, 1)
        try:
            if kind in ("add", "set"):
                _, a, p, form = op
                want = assigned(p)
                if len(p) != nd or (kind == "add" and (a in live or want is None)) or (kind == "set" and a not in live):
                    obs.append([-2])
                    ops_for_model.append(mop)
                    continue
                if kind == "add":
                    o = V.cls(ContinuousSpaceAgent, a)(space, model)
                    o._label = a
                    live[a] = o
                    shadow[a] = want
                    o.position = V.arg(p, form)
                else:
                    before = view(i, check=False)
                    try:
                        live[a].position = V.arg(p, form)
                    except ValueError as e:
                        if want is None:
                            after = view(i, check=False)
                            if after != before and not state["dead"]:
                                fails.add("C10/exp/position/rejected-call-changed-state", i, f"agent {a}.position = x16 {p} raised but changed the space: before {before}, after {after}")
                                fails.add("C18/continuous/exp-position", i, f"ContinuousSpaceAgent.position out of bounds raised but changed state: before {before}, after {after}")
                                state["dead"] = True
                            obs.append([-1, E_OOB, SEP] + view(i))
                            ops_for_model.append(mop)
                            continue
                        raise
                    if want is None:
                        if not state["dead"]:
                            fails.add("C10/exp/position/out-of-bounds-accepted", i, f"agent {a}.position = x16 {p} outside bounds x16 {bounds} of a bounded space was accepted")
                            state["dead"] = True
                    else:
                        shadow[a] = want
                obs.append([SEP] + view(i))
            elif kind == "remove":
                a = op[1]
                if a not in live:
                    if a in gone_objs:
                        # a SECOND remove() of an agent that has left the space: a no-op (fix C02-2), no exception, nothing
                        # changes; the model does not issue it (observation [-2])
                        before = view(i, check=False)
                        try:
                            gone_objs[a].remove()
                        except Exception as e:  # noqa: BLE001
                            if not state["dead"]:
                                fails.add("C10/exp/remove/second-remove-raises", i, f"agent {a}.remove() a second time raised {type(e).__name__}: {e}")
                            state["dead"] = True
                        if view(i, check=False) != before and not state["dead"]:
                            fails.add("C10/exp/remove/second-remove-changed-state", i, f"agent {a}.remove() a second time changed the space: before {before}, after {view(i, check=False)}")
                            state["dead"] = True
                    obs.append([-2])
                    ops_for_model.append(mop)
                    continue
                o = live.pop(a)
                gone_objs[a] = o
                shadow.pop(a, None)
                o.remove()
                if not state["dead"] and (o.space is not None or o in model.agents):
                    fails.add("C10/exp/remove/agent-keeps-space", i, f"after agent {a}.remove() the agent still refers to its space / is still registered with the model")
                    state["dead"] = True
                obs.append([SEP] + view(i))
            elif kind in ("dists", "radius", "diffs"):
                q = op[1]
                if len(q) != nd:
                    obs.append([-2])
                    ops_for_model.append(mop)
                    continue
                bad = []
                if kind == "dists":
                    dists, agents = space.calculate_distances(_to_py(q, "a"))
                    labels, d2 = check_pairs(i, "calculate_distances", q, list(agents), list(dists), bad, want_set=list(shadow))
                    res = _rows([[a, d] for a, d in zip(labels, d2)])
                elif kind == "radius":
                    r = op[2]
                    agents, dists = space.get_agents_in_radius(V.arg(q, "a"), V.radius(r, i))
                    if V.kw():
                        ag2, ds2 = space.get_agents_in_radius(point=V.arg(q, "l"), radius=r / 16.0)
                        if ([o._label for o in ag2], [float(d) for d in ds2]) != ([o._label for o in agents], [float(d) for d in dists]) and not state["dead"]:
                            fails.add("C10/exp/get_agents_in_radius/second-call-differs", i, f"get_agents_in_radius(x16 {q}, {r}) answered differently when asked again with keyword arguments and nothing changed in between")
                            state["dead"] = True
                    want = [a for a, p in shadow.items() if r >= 0 and _dist2(torus, bounds, p, q) <= r * r]
                    labels, d2 = check_pairs(i, "get_agents_in_radius", q, list(agents), list(dists), bad, want_set=want)
                    res = _rows([[a, d] for a, d in zip(labels, d2)])
                else:
                    delta = space.calculate_difference_vector(_to_py(q, "a"))
                    members = list(space.active_agents)
                    rows = []
                    if len(delta) != len(members) and not state["dead"]:
                        fails.add("C10/exp/calculate_difference_vector/misaligned", i, f"{len(delta)} rows for {len(members)} agents")
                    for o, row in zip(members, delta):
                        v = [_sc(x, bad) for x in row]
                        rows.append([o._label] + v)
                        if not state["dead"] and o._label in shadow:
                            if sum(x * x for x in v) != _dist2(torus, bounds, shadow[o._label], q) or bad:
                                fails.add("C10/exp/calculate_difference_vector/length", i, f"difference vector from x16 {q} to agent {o._label} at x16 {shadow[o._label]} is x16 {v}: squared length {sum(x * x for x in v)}, squared distance {_dist2(torus, bounds, shadow[o._label], q)}")
                    res = _rows(rows)
                obs.append(res + [SEP] + view(i))
            elif kind == "knear":
                _, q, k = op[:3]
                n = len(space.active_agents)
                if len(q) != nd or k == 0 or k > n:
                    obs.append([-2])
                    mop = [kind, q, k, []]
                    ops_for_model.append(mop)
                    continue
                bad = []
                agents, dists = space.get_k_nearest_agents(V.arg(q, "a"), V.k(k, i))
                if V.kw():
                    ag2, ds2 = space.get_k_nearest_agents(point=V.arg(q, "t"), k=k)
                    if sorted(float(d) for d in ds2) != sorted(float(d) for d in dists) and not state["dead"]:
                        fails.add("C10/exp/get_k_nearest_agents/second-call-differs", i, f"get_k_nearest_agents(x16 {q}, {k}) returned other distances when asked again with keyword arguments and nothing changed in between")
                        state["dead"] = True
                labels, d2 = check_pairs(i, "get_k_nearest_agents", q, list(agents), list(dists), bad, k=k)
                mop = [kind, q, k, labels]
                obs.append(_rows([[a, d] for a, d in zip(labels, d2)]) + [SEP] + view(i))
            elif kind == "nbr_radius":
                _, a, r = op
                if a not in live or r < 0:     # r < 0: empty answer, the wrapper's mask indexing raises - outside the quantifier
                    obs.append([-2])
                    ops_for_model.append(mop)
                    continue
                bad = []
                me = pos_of(live[a], bad)
                agents, dists = live[a].get_neighbors_in_radius(r / 16.0)
                want = [b for b, p in shadow.items() if b != a and r >= 0 and _dist2(torus, bounds, p, shadow[a]) <= r * r]
                labels, d2 = check_pairs(i, "get_neighbors_in_radius", shadow.get(a, me), list(agents), list(dists), bad, want_set=want)
                obs.append(_rows([[b, d] for b, d in zip(labels, d2)]) + [SEP] + view(i))
            elif kind == "nbr_near":
                _, a, k = op[:3]
                n = len(space.active_agents)
                bad = []
                me = pos_of(live[a], bad) if a in live else None
                if a not in live or me is None or k == 0 or n < k + 1:
                    obs.append([-2])
                    ops_for_model.append([kind, a, k, []])
                    continue
                # record what get_k_nearest_agents(k + 1) chose (argpartition outcome = input of the model)
                raw = []
                orig = space.get_k_nearest_agents

                def spy(point, k=1, _orig=orig, _raw=raw):
                    ag, ds = _orig(point, k=k)
                    _raw.append([o._label for o in ag])
                    return ag, ds
                space.get_k_nearest_agents = spy
                try:
                    agents, dists = live[a].get_nearest_neighbors(k)
                finally:
                    del space.get_k_nearest_agents
                raw = raw[0] if len(raw) == 1 else []
                labels, d2 = check_pairs(i, "get_nearest_neighbors", shadow.get(a, me), list(agents), list(dists), bad)
                if not state["dead"]:
                    # the statement: k distinct OTHER agents, none farther than one left out; with c other agents exactly
                    # on the asking agent and c >= k + 1 the code may also return k + 1 of those (documented boundary)
                    on_me = [b for b, p in shadow.items() if b != a and _dist2(torus, bounds, p, shadow[a]) == 0]
                    if a in labels:
                        fails.add("C10/exp/get_nearest_neighbors/returns-self", i, f"agent {a}.get_nearest_neighbors({k}) returned itself: {labels}")
                    elif len(labels) != k and not (len(labels) == k + 1 and len(on_me) >= k + 1 and all(b in on_me for b in labels)):
                        fails.add("C10/exp/get_nearest_neighbors/wrong-count", i, f"agent {a}.get_nearest_neighbors({k}) returned {len(labels)} agents ({labels}) with {n} in the space, {len(on_me)} of them exactly on agent {a}")
                    else:
                        far = max([_dist2(torus, bounds, shadow[b], shadow[a]) for b in labels if b in shadow], default=0)
                        for b, p in shadow.items():
                            if b != a and b not in labels and _dist2(torus, bounds, p, shadow[a]) < far:
                                fails.add("C10/exp/get_nearest_neighbors/not-nearest", i, f"agent {a}.get_nearest_neighbors({k}) returned {labels} but agent {b} left out is nearer (positions x16 {shadow})")
                                break
                mop = [kind, a, k, raw]
                obs.append(_rows([[b, d] for b, d in zip(labels, d2)]) + [SEP] + view(i))
            elif kind == "clear":
                model.remove_all_agents()
                gone = list(live.values())
                gone_objs.update(live)
                live.clear()
                shadow.clear()
                if not state["dead"] and any(o.space is not None for o in gone):
                    fails.add("C10/exp/remove/agent-keeps-space", i, "after model.remove_all_agents() a removed agent still refers to its space")
                    state["dead"] = True
                obs.append([SEP] + view(i))
            elif kind == "pair":
                _, a, b = op
                if a not in live or b not in live:
                    obs.append([-2])
                    ops_for_model.append(mop)
                    continue
                bad = []
                d_ab, _ag = space.calculate_distances(live[a].position, [live[b]])
                d_ba, _ag = space.calculate_distances(live[b].position, [live[a]])
                d1, d2_ = _sc2(d_ab[0], bad), _sc2(d_ba[0], bad)
                if not state["dead"]:
                    if d1 != d2_:
                        fails.add("C10/exp/calculate_distances/asymmetric", i, f"distance from agent {a} to {b} squared x256 = {d1}, from {b} to {a} = {d2_}")
                    elif d1 != _dist2(torus, bounds, shadow[a], shadow[b]) or bad or len(d_ab) != 1:
                        fails.add("C10/exp/calculate_distances/wrong-distance", i, f"distance between agents {a} at x16 {shadow[a]} and {b} at x16 {shadow[b]} reported squared x256 {d1}, is {_dist2(torus, bounds, shadow[a], shadow[b])}")
                obs.append([d1, d2_, SEP] + view(i))
            elif kind in ("dists_of", "diffs_of"):
                _, q, sub = op
                if len(q) != nd or any(a not in live for a in sub):
                    obs.append([-2])
                    ops_for_model.append(mop)
                    continue
                bad = []
                objs = [live[a] for a in sub]
                res = []
                if kind == "dists_of":
                    dists, agents = space.calculate_distances(_to_py(q, "a"), agents=objs)
                    labels = [o._label for o in agents]
                    d2 = [_sc2(d, bad) for d in dists]
                    if not state["dead"]:
                        want = [_dist2(torus, bounds, shadow[a], q) for a in sub]
                        if labels != sub or d2 != want or bad:
                            fails.add("C10/exp/calculate_distances/agents-subset-wrong", i, f"calculate_distances(x16 {q}, agents={sub}) returned agents {labels} with squared distances x256 {d2}; their positions x16 {[shadow[a] for a in sub]} give {want}")
                    for a, d in zip(labels, d2):
                        res += [a, d]
                else:
                    delta = space.calculate_difference_vector(_to_py(q, "a"), agents=objs)
                    if len(delta) != len(sub) and not state["dead"]:
                        fails.add("C10/exp/calculate_difference_vector/misaligned", i, f"{len(delta)} rows for {len(sub)} agents")
                    for a, row in zip(sub, delta):
                        v = [_sc(x, bad) for x in row]
                        res += [a] + v
                        if not state["dead"] and (sum(x * x for x in v) != _dist2(torus, bounds, shadow[a], q) or bad):
                            fails.add("C10/exp/calculate_difference_vector/length", i, f"difference vector from x16 {q} to agent {a} at x16 {shadow[a]} (agents= form) is x16 {v}: squared length {sum(x * x for x in v)}, squared distance {_dist2(torus, bounds, shadow[a], q)}")
                obs.append(res + [SEP] + view(i))
            else:
                raise ValueError(kind)
            ops_for_model.append(mop)
        except Exception as e:  # noqa: BLE001
            key = f"C10/exp/{_site(kind)}/raises"
            if kind in ("dists", "radius", "diffs") and not shadow:
                key = f"C10/exp/{_site(kind)}/empty-space"
            elif kind == "knear" and op[2] == len(shadow):
                key = "C10/exp/get_k_nearest_agents/k-equals-n"
            elif kind == "nbr_near" and op[2] == len(shadow) - 1:
                key = "C10/exp/get_nearest_neighbors/k-equals-n-1"
            elif kind == "add" and isinstance(e, IndexError):
                key = "C10/exp/add/array-not-grown"
            if not state["dead"]:
                fails.add(key, i, f"{op} raised {type(e).__name__}: {e}  (agents in the space: {sorted(shadow)}, initial capacity {case['cap']})")
            state["dead"] = True
            if kind in ("knear", "nbr_near"):
                mop = [kind, op[1], op[2], []]
            ops_for_model.append(mop)
            try:
                obs.append([-1, 99, SEP] + view(i, check=False))
            except Exception:  # noqa: BLE001
                obs.append([-1, 99])
    V.check_args(len(case["ops"]), state)
    if not state["dead"]:
        if not np.array_equal(np.array(dims, dtype=float), dims_was):
            fails.add("C10/exp/argument-mutated", len(case["ops"]) - 1, f"the bounds handed to the constructor were changed: {dims!r}")
        elif decoy is not None:
            want_n = 3 - sum(1 for j in (3, 7) if len(case["ops"]) > j)
            lo_pt = [float(d[0]) for d in dims_was]
            if len(decoy[0].agents) != max(want_n, 1) or any([float(v) for v in o.position] != lo_pt for o in decoy[1]):
                fails.add("C10/exp/decoy/cross-talk", len(case["ops"]) - 1, f"an unrelated second space sharing the bounds object holds {len(decoy[0].agents)} agents at {[list(o.position) for o in decoy[1]]}")
    return {"obs": obs, "failures": list(fails), "ops_for_model": ops_for_model}


# ------------------------------------------------------------------ arbitrary binary64 stream (oracle only)
# Histories whose bounds, coordinates, radii and query points are arbitrary doubles (non-dyadic origins and sizes,
# magnitudes up to 1e4).  There is no Gallina side (run_impl returns "model": False); the statement is checked on the
# implementation alone:
#   * an agent reports, BIT FOR BIT, the last position assigned to it; on a torus an out-of-bounds assignment reports
#     lo + ((x - lo) % (hi - lo)) evaluated once in binary64 (an axis that was inside may also be reported unchanged);
#   * no operation on other agents, no growth / compaction / cache rebuild changes a single bit of it;
#   * space.agents is exactly the agents placed and not removed; rejected assignments change nothing;
#   * radius answers are checked for every agent with |d - r| > FT_TIE, distances to 1e-9 relative, k-nearest legality
#     with the margin FT_TIE, symmetry of the distance, |heading| = distance to 1e-9 relative.
# Exact distances are computed with fractions.Fraction from the doubles themselves.
FT_TIE = 1e-6
FT_REL = 1e-9


def _f_bounds(rng, nd):
    bs = []
    for _ in range(nd):
        mag = rng.choice([1.0, 1.0, 10.0, 100.0, 1000.0, 10000.0])
        lo = rng.uniform(-mag, mag) if rng.random() < 0.85 else 0.0
        size = rng.choice([rng.uniform(0.3, 3.0), rng.uniform(1.0, 60.0), rng.uniform(1.0, 60.0), 0.1 * rng.randint(3, 90),
                           rng.uniform(100.0, 2000.0)])
        hi = lo + size
        bs.append([lo, hi])
    return bs


def _f_inside(rng, bounds):
    p = []
    for lo, hi in bounds:
        r = rng.random()
        if r < 0.04:
            x = lo
        elif r < 0.07:
            x = hi
        else:
            # NOT of the form fl(lo + t): low-order bits unrelated to the origin, so that x - lo + lo, a second
            # modulo, a float32 detour ... do not happen to reproduce x
            x = lo + (hi - lo) * rng.random()
            x = x * (1.0 + rng.uniform(-1e-9, 1e-9)) + rng.uniform(-1e-9, 1e-9)
            x = min(max(x, lo), hi)
        p.append(x)
    return p


def _f_outside(rng, bounds):
    p = _f_inside(rng, bounds)
    i = rng.randrange(len(bounds))
    lo, hi = bounds[i]
    size = hi - lo
    import math

    p[i] = rng.choice([hi + size * rng.uniform(0.001, 2.5), lo - size * rng.uniform(0.001, 2.5), hi + 1e-9 * max(1.0, abs(hi)),
                       lo - 1e-9 * max(1.0, abs(lo)), hi + size, lo - size,
                       # one ulp outside: (x - lo) % size rounds to size itself when |lo| is small against size, so the
                       # wrapped coordinate is hi and a second wrap would send it to lo
                       math.nextafter(lo, -math.inf), math.nextafter(hi, math.inf), lo - 1e-20 if lo == 0.0 else lo - size * 3])
    return p


def _f_true_axis(torus, lo, hi, a, b):
    from fractions import Fraction as F

    d = abs(F(a) - F(b))
    if torus:
        size = F(hi) - F(lo)
        d = d % size
        d = min(d, size - d)
    return d


def _f_dist(torus, bounds, p, q):
    """the (toroidal) Euclidean distance of two points given as doubles, exact up to the final sqrt"""
    import math
    from fractions import Fraction as F

    d2 = sum((_f_true_axis(torus, lo, hi, a, b) ** 2 for (lo, hi), a, b in zip(bounds, p, q)), F(0))
    n, d = d2.numerator, d2.denominator
    # sqrt of an exact rational: scale to keep ~60 significant bits
    return math.sqrt(n / d) if n.bit_length() < 900 and d.bit_length() < 900 else math.sqrt(float(d2))


def _mk_float(rng, space):
    nd = 2 if space == "legacy" else rng.choice([2, 2, 3])
    torus = rng.random() < 0.55
    bounds = _f_bounds(rng, nd)
    case = {"space": space, "float": True, "bounds": bounds, "torus": torus, "mix": rng.choice([0, 1])}
    if space == "exp":
        case["cap"] = rng.choice([0, 1, 2, 3, 3, 10, 100])
    half = space == "legacy"

    def wrapped(p):
        inb = all((lo <= x < hi) if half else (lo <= x <= hi) for (lo, hi), x in zip(bounds, p))
        if inb:
            return list(p)
        if not torus:
            return None
        return [lo + ((x - lo) % (hi - lo)) for (lo, hi), x in zip(bounds, p)]

    ops = []
    placed = {}
    removed = []
    nxt = 1
    nops = rng.randint(6, 28)

    def newpos():
        return _f_outside(rng, bounds) if rng.random() < (0.35 if torus else 0.12) else _f_inside(rng, bounds)

    def qpoint():
        if placed and rng.random() < 0.35:
            return list(rng.choice(list(placed.values())))      # exactly on an agent
        q = _f_inside(rng, bounds)
        if not torus and rng.random() < 0.2:
            q = [x + rng.uniform(-1.0, 1.0) * (hi - lo) * 0.3 for (lo, hi), x in zip(bounds, q)]
        return q

    def radius(q):
        m = max(hi - lo for lo, hi in bounds)
        if placed and rng.random() < 0.6:
            d = _f_dist(torus, bounds, rng.choice(list(placed.values())), q)
            # just outside the tie margin on either side, or well away, or (rarely) inside it (then unchecked)
            return max(0.0, d + rng.choice([2e-6, -2e-6, 3e-6, -3e-6, 1e-5, -1e-5, 1e-3, -1e-3, 1e-8, 0.0]))
        return rng.choice([0.0, m * rng.random(), m * rng.random() * 0.5, m])

    while len(ops) < nops:
        r = rng.random()
        n = len(placed)
        if r < 0.25 or (n == 0 and r < 0.8):
            if n >= 9:
                continue
            if removed and space == "legacy" and rng.random() < 0.3:
                a = removed.pop(rng.randrange(len(removed)))
            else:
                a = nxt
                nxt += 1
            p = newpos()
            if space == "exp" and wrapped(p) is None:
                p = _f_inside(rng, bounds)
            form = rng.choice(["t", "t", "a"]) if space == "legacy" else rng.choice(["l", "t", "a"])
            ops.append(["place" if space == "legacy" else "add", a, p, form])
            w = wrapped(p)
            if w is not None:
                placed[a] = w
            elif space == "legacy":
                removed.append(a)
        elif r < 0.50 and n:
            a = rng.choice(list(placed))
            if rng.random() < 0.15:
                # a move by a tiny non-representable step (sum rounds): still exactly what is assigned
                p = [x + rng.uniform(-1e-7, 1e-7) for x in placed[a]]
                p = [min(max(x, lo), hi if space == "exp" else x) for (lo, hi), x in zip(bounds, p)]
                if wrapped(p) is None:
                    p = list(placed[a])
            else:
                p = newpos()
            form = rng.choice(["t", "t", "a"]) if space == "legacy" else rng.choice(["l", "t", "a"])
            ops.append(["move" if space == "legacy" else "set", a, p, form])
            w = wrapped(p)
            if w is not None:
                placed[a] = w
            if rng.random() < 0.4:
                last = next((o for o in reversed(ops[:-1]) if o[0] in ("nbrs", "radius", "dists")), None)
                if last is not None:
                    ops.append(list(last))
        elif r < 0.60 and n:
            a = rng.choice(list(placed))
            ops.append(["remove", a])
            del placed[a]
            removed.append(a)
        else:
            q = qpoint()
            k = rng.random()
            if space == "legacy":
                if k < 0.7:
                    ops.append(["nbrs", q, radius(q), rng.random() < 0.7])
                elif k < 0.85:
                    ops.append(["dist", _f_inside(rng, bounds) if torus else q, _f_inside(rng, bounds)])
                else:
                    ops.append(["heading", _f_inside(rng, bounds), _f_inside(rng, bounds), rng.choice(["t", "a"])])
            else:
                if k < 0.4:
                    ops.append(["radius", q, radius(q)])
                elif k < 0.58 and n:
                    ops.append(["knear", q, rng.choice([1, n, rng.randint(1, n)])])
                elif k < 0.68:
                    ops.append(["dists", q])
                elif k < 0.78:
                    ops.append(["diffs", q])
                elif k < 0.86 and n:
                    a = rng.choice(list(placed))
                    ops.append(["nbr_radius", a, radius(placed[a])])
                elif k < 0.93 and n >= 2:
                    ops.append(["nbr_near", rng.choice(list(placed)), rng.randint(1, n - 1)])
                elif n >= 2:
                    a, b = rng.sample(list(placed), 2)
                    ops.append(["pair", a, b])
                elif n:
                    ops.append(["dists_of", q, [rng.choice(list(placed)) for _ in range(2)]])
                else:
                    ops.append(["radius", q, radius(q)])
    if rng.random() < 0.2:
        q = _f_inside(rng, bounds)
        ops = [["nbrs", q, 1.5, True] if space == "legacy" else ["radius", q, 1.5]] + ops[:-1]
    case["ops"] = ops[:nops]
    return case


def _f_py(p, form):
    import numpy as np

    if form == "a":
        return np.array([float(v) for v in p], dtype=float)
    if form == "l":
        return [float(v) for v in p]
    return tuple(float(v) for v in p)


def _run_float(case):
    """oracle-only run of one arbitrary-binary64 history on either space (see the header of this section)"""
    import math

    import mesa
    import numpy as np

    sp = case["space"]
    legacy = sp == "legacy"
    bounds = [(float(lo), float(hi)) for lo, hi in case["bounds"]]
    nd = len(bounds)
    torus = case["torus"]
    model = mesa.Model(seed=1)
    if legacy:
        from mesa.space import ContinuousSpace

        (x0, x1), (y0, y1) = bounds
        space = ContinuousSpace(x1, y1, torus, x0, y0)
    else:
        from mesa.experimental.continuous_space import ContinuousSpace, ContinuousSpaceAgent

        space = ContinuousSpace(np.array([[lo, hi] for lo, hi in bounds]), torus=torus, random=model.random,
                                n_agents=case["cap"])
    K = f"C10/float/{sp}"
    fails = _Fail()
    V = _Variety(case, fails, K)
    obs = []
    objs = {}        # legacy: label -> agent object (kept across removal); exp: label -> live agent
    shadow = {}      # label -> list of acceptable bit-exact values per axis (list of tuples)
    exact = {}       # label -> the position as last reported (used for the distance checks)
    state = {"dead": False}

    def fail(key, i, what):
        if not state["dead"]:
            fails.add(key, i, what)
        state["dead"] = True

    def inb(p):
        return all((lo <= x < hi) if legacy else (lo <= x <= hi) for (lo, hi), x in zip(bounds, p))

    def acceptable(p):
        """None = rejected; else per axis the set of doubles the statement allows the agent to report"""
        if inb(p):
            return [(float(x),) for x in p]
        if not torus:
            return None
        out = []
        for (lo, hi), x in zip(bounds, p):
            w = lo + ((x - lo) % (hi - lo))
            out.append((w, float(x)) if (lo <= x < hi) or (not legacy and x == hi) else (w,))
        return out

    def members():
        return list(space.agents)

    def report(o):
        p = o.pos if legacy else o.position
        return None if p is None else [float(v) for v in p]

    def snapshot():
        return sorted((o._label, tuple(report(o) or ())) for o in members())

    def check_state(i, touched=None):
        if state["dead"]:
            return
        ms = members()
        labels = sorted(o._label for o in ms)
        if labels != sorted(shadow):
            fail(f"{K}/agents/wrong-set", i, f"space.agents holds {labels} but the agents placed and not removed are {sorted(shadow)}")
            return
        for o in ms:
            a = o._label
            try:
                got = report(o)
            except Exception as e:  # noqa: BLE001
                fail(f"{K}/position/raises", i, f"reading the position of agent {a} raised {type(e).__name__}: {e}")
                return
            ok = got is not None and len(got) == nd and all(g in acc for g, acc in zip(got, shadow[a]))
            if not ok:
                which = "not-bit-exact" if a == touched else "other-agent-changed"
                fail(f"{K}/position/{which}", i,
                     f"agent {a} reports {got!r} ({[float(g).hex() for g in got] if got else None}); last assigned, as the statement allows it: {shadow[a]!r}"
                     + ("" if a == touched else f" (operation {case['ops'][i]} does not name agent {a})"))
                return
            shadow[a] = [(g,) for g in got]
            exact[a] = got
        if legacy:
            for a, o in objs.items():
                if a not in shadow and o.pos is not None:
                    fail(f"{K}/position/removed-agent-keeps-pos", i, f"agent {a} is not in the space but has pos {o.pos}")
                    return

    def close(got, want):
        return abs(got - want) <= FT_REL * max(1.0, abs(want))

    def check_answer(i, site, q, labels, dists, r=None, k=None, exclude=None, centre=True):
        """labels (+ distances or None) returned by a range / nearest query around q"""
        if state["dead"]:
            return
        if len(set(labels)) != len(labels):
            fail(f"{K}/{site}/duplicate-agents", i, f"{site} around {q} returned {labels}")
            return
        true = {a: _f_dist(torus, bounds, p, q) for a, p in exact.items() if a != exclude}
        for a in labels:
            if a not in true:
                fail(f"{K}/{site}/wrong-agents", i, f"{site} around {q} returned agent {a} which is not a candidate ({sorted(true)})")
                return
        if dists is not None:
            if len(dists) != len(labels):
                fail(f"{K}/{site}/distances-misaligned", i, f"{len(labels)} agents, {len(dists)} distances")
                return
            for a, d in zip(labels, dists):
                if not close(float(d), true[a]):
                    fail(f"{K}/{site}/distance-inexact", i, f"{site} around {q}: agent {a} at {exact[a]} reported at distance {float(d)!r}, its distance is {true[a]!r}")
                    return
        if r is not None:
            for a, d in true.items():
                if abs(d - r) <= FT_TIE:
                    continue
                inside = d < r
                if not centre:
                    if exact[a] == [float(x) for x in q]:
                        inside = False
                    elif d <= FT_TIE:
                        continue
                if inside != (a in labels):
                    fail(f"{K}/{site}/wrong-agents", i, f"{site} around {q} radius {r!r} returned {sorted(labels)}; agent {a} at {exact[a]} is at distance {d!r} and must {'' if inside else 'not '}be returned")
                    return
        if k is not None:
            if len(labels) != k:
                fail(f"{K}/{site}/wrong-count", i, f"{site}(k={k}) returned {len(labels)} agents of {len(true)}")
                return
            far = max((true[a] for a in labels), default=0.0)
            for b, d in true.items():
                if b not in labels and d < far - FT_TIE:
                    fail(f"{K}/{site}/not-nearest", i, f"{site}(k={k}) around {q} returned {labels} (farthest at {far!r}) but agent {b} left out is at {d!r}")
                    return

    for i, op in enumerate(case["ops"]):
        kind = op[0]
        try:
            if kind in ("place", "move", "add", "set"):
                _, a, p, form = op
                p = [float(v) for v in p]
                acc = acceptable(p)
                if legacy:
                    if a not in objs:
                        o = V.cls(mesa.Agent, a)(model)
                        o.pos = None
                        o._label = a
                        objs[a] = o
                    o = objs[a]
                    member = o in space._agent_to_index
                    if len(p) != nd or (kind == "place" and (member or o.pos is not None)) or (kind == "move" and not member):
                        obs.append([-2])
                        continue
                    call = (lambda: space.place_agent(o, _f_py(p, form))) if kind == "place" else (lambda: space.move_agent(o, _f_py(p, form)))
                else:
                    if len(p) != nd or (kind == "add" and (a in objs or acc is None)) or (kind == "set" and a not in objs):
                        obs.append([-2])
                        continue
                    if kind == "add":
                        o = V.cls(ContinuousSpaceAgent, a)(space, model)
                        o._label = a
                        objs[a] = o
                        shadow[a] = acc
                    o = objs[a]

                    def call(o=o, p=p, form=form):
                        o.position = _f_py(p, form)
                before = snapshot() if acc is None else None
                try:
                    call()
                except Exception as e:  # noqa: BLE001
                    if acc is None and type(e) in (Exception, ValueError):
                        if snapshot() != before:
                            fail(f"{K}/rejected-call-changed-state", i, f"{op} was rejected ('{e}') but changed the space: before {before}, after {snapshot()}")
                            fails.add(f"C18/continuous/{'legacy-' + kind if legacy else 'exp-position'}", i, f"rejected {op} changed state")
                        check_state(i)
                        obs.append([-1, len(shadow)])
                        continue
                    raise
                if acc is None:
                    fail(f"{K}/out-of-bounds-accepted", i, f"{op} lies outside the bounds {bounds} of a bounded space and was accepted")
                else:
                    shadow[a] = acc
                check_state(i, touched=a)
                obs.append([0, len(shadow)])
            elif kind == "remove":
                a = op[1]
                if legacy:
                    if a not in objs:
                        o = V.cls(mesa.Agent, a)(model)
                        o.pos = None
                        o._label = a
                        objs[a] = o
                    try:
                        space.remove_agent(objs[a])
                    except Exception as e:  # noqa: BLE001
                        if a not in shadow and type(e) is Exception:
                            check_state(i)
                            obs.append([-1, len(shadow)])
                            continue
                        raise
                    if a not in shadow:
                        fail(f"{K}/remove_agent/absent-agent-accepted", i, f"remove_agent(agent {a}) did not raise")
                else:
                    if a not in objs:
                        obs.append([-2])
                        continue
                    objs.pop(a).remove()
                shadow.pop(a, None)
                exact.pop(a, None)
                check_state(i)
                obs.append([0, len(shadow)])
            elif kind == "nbrs":
                _, q, r, ic = op
                res = space.get_neighbors(tuple(q), r, ic)
                labels = [o._label for o in res]
                check_answer(i, "get_neighbors", q, labels, None, r=r, centre=ic)
                check_state(i)
                obs.append([0, len(labels)])
            elif kind == "dist":
                _, p, q = op
                d1 = float(space.get_distance(tuple(p), tuple(q)))
                d2 = float(space.get_distance(tuple(q), tuple(p)))
                want = _f_dist(torus, bounds, p, q)
                if not close(d1, d2):
                    fail(f"{K}/get_distance/asymmetric", i, f"get_distance({p}, {q}) = {d1!r}, reversed = {d2!r}")
                elif not close(d1, want):
                    fail(f"{K}/get_distance/inexact", i, f"get_distance({p}, {q}) = {d1!r}, the distance is {want!r}")
                check_state(i)
                obs.append([0, 1])
            elif kind == "heading":
                _, p, q, form = op
                h = space.get_heading(_f_py(p, form), _f_py(q, form))
                ln = math.sqrt(sum(float(v) ** 2 for v in h))
                want = _f_dist(torus, bounds, p, q)
                if len(h) != 2 or not close(ln, want):
                    fail(f"{K}/get_heading/length", i, f"get_heading({p}, {q}) = {[float(v) for v in h]} of length {ln!r}; the distance is {want!r}")
                check_state(i)
                obs.append([0, 1])
            elif kind in ("radius", "dists", "knear"):
                q = op[1]
                if len(q) != nd:
                    obs.append([-2])
                    continue
                qa = np.array(q, dtype=float)
                if kind == "radius":
                    agents, dists = space.get_agents_in_radius(qa, op[2])
                    labels = [o._label for o in agents]
                    check_answer(i, "get_agents_in_radius", q, labels, list(dists), r=op[2])
                elif kind == "dists":
                    dists, agents = space.calculate_distances(qa)
                    labels = [o._label for o in agents]
                    if sorted(labels) != sorted(shadow):
                        fail(f"{K}/calculate_distances/wrong-agents", i, f"returned {labels}, the space holds {sorted(shadow)}")
                    check_answer(i, "calculate_distances", q, labels, list(dists))
                else:
                    k = op[2]
                    if k == 0 or k > len(space.active_agents):
                        obs.append([-2])
                        continue
                    agents, dists = space.get_k_nearest_agents(qa, k)
                    labels = [o._label for o in agents]
                    check_answer(i, "get_k_nearest_agents", q, labels, list(dists), k=k)
                check_state(i)
                obs.append([0, len(labels)])
            elif kind == "diffs":
                q = op[1]
                delta = space.calculate_difference_vector(np.array(q, dtype=float))
                ms = list(space.active_agents)
                if len(delta) != len(ms):
                    fail(f"{K}/calculate_difference_vector/misaligned", i, f"{len(delta)} rows for {len(ms)} agents")
                for o, row in zip(ms, delta):
                    ln = math.sqrt(sum(float(v) ** 2 for v in row))
                    if o._label in exact and not close(ln, _f_dist(torus, bounds, exact[o._label], q)):
                        fail(f"{K}/calculate_difference_vector/length", i, f"difference vector from {q} to agent {o._label} at {exact[o._label]} has length {ln!r}; the distance is {_f_dist(torus, bounds, exact[o._label], q)!r}")
                check_state(i)
                obs.append([0, len(ms)])
            elif kind in ("nbr_radius", "nbr_near"):
                a = op[1]
                if a not in objs or a not in exact:
                    obs.append([-2])
                    continue
                me = exact[a]
                if kind == "nbr_radius":
                    agents, dists = objs[a].get_neighbors_in_radius(op[2])
                    labels = [o._label for o in agents]
                    check_answer(i, "get_neighbors_in_radius", me, labels, list(dists), r=op[2], exclude=a)
                else:
                    k = op[2]
                    near = any(b != a and _f_dist(torus, bounds, p, me) <= FT_TIE for b, p in exact.items())
                    if k == 0 or len(space.active_agents) < k + 1 or near:
                        obs.append([-2])
                        continue
                    agents, dists = objs[a].get_nearest_neighbors(k)
                    labels = [o._label for o in agents]
                    check_answer(i, "get_nearest_neighbors", me, labels, list(dists), k=k, exclude=a)
                check_state(i)
                obs.append([0, len(labels)])
            elif kind == "pair":
                _, a, b = op
                if a not in objs or b not in objs:
                    obs.append([-2])
                    continue
                d_ab, _x = space.calculate_distances(objs[a].position, [objs[b]])
                d_ba, _x = space.calculate_distances(objs[b].position, [objs[a]])
                want = _f_dist(torus, bounds, exact[a], exact[b])
                if not close(float(d_ab[0]), float(d_ba[0])):
                    fail(f"{K}/calculate_distances/asymmetric", i, f"{a}->{b}: {float(d_ab[0])!r}, {b}->{a}: {float(d_ba[0])!r}")
                elif not close(float(d_ab[0]), want):
                    fail(f"{K}/calculate_distances/distance-inexact", i, f"distance between agents {a} and {b}: {float(d_ab[0])!r}, is {want!r}")
                check_state(i)
                obs.append([0, 1])
            elif kind == "dists_of":
                _, q, sub = op
                if any(a not in objs for a in sub):
                    obs.append([-2])
                    continue
                dists, agents = space.calculate_distances(np.array(q, dtype=float), agents=[objs[a] for a in sub])
                labels = [o._label for o in agents]
                if labels != sub or len(dists) != len(sub) or any(not close(float(d), _f_dist(torus, bounds, exact[a], q)) for a, d in zip(sub, dists)):
                    fail(f"{K}/calculate_distances/agents-subset-wrong", i, f"calculate_distances({q}, agents={sub}) returned {labels} with {[float(d) for d in dists]}")
                check_state(i)
                obs.append([0, len(sub)])
            else:
                raise ValueError(kind)
        except Exception as e:  # noqa: BLE001
            fail(f"{K}/{_site(kind)}/raises", i, f"{op} raised {type(e).__name__}: {e}  (agents in the space: {sorted(shadow)})")
            obs.append([-1, 99])
    return {"obs": obs, "failures": list(fails), "model": False}


# ------------------------------------------------------------------ SCALE stream (oracle only)
# Wave-9 lesson: a defect written as an optimisation hides behind a population threshold or a rare value type.  Histories
# here are compact (bulk operations carry their own seed) but big on the implementation side: populations cross
# 100 / 128 / 256 / 1000 / 1001 / 1024 / 2048 / 4096 (experimental array growth from small capacities, legacy cache
# rebuilds, index maps after many removals), queries follow bulk add / bulk remove / bulk move, radii go from 0 to several
# times the space (on elongated spaces: >= half of one axis but not of the other), k crosses the same thresholds up to n,
# positions arrive as tuples, lists, float64 / float32 / int64 arrays.  The oracle is the statement, vectorised in float64
# with its own formula (bit-exact positions; answers away from |d - r| <= 1e-6; distances to 1e-9 relative).
SCALE_SIZES = [100, 101, 128, 129, 255, 256, 257, 512, 1000, 1001, 1024, 1025, 2048, 2049]
SCALE_BIG = [1001, 1025, 2049, 4096]


def _mk_scale(rng, space, big=False):
    nd = 2 if space == "legacy" else rng.choice([2, 2, 3])
    torus = rng.random() < 0.6
    bounds = []
    for ax in range(nd):
        lo = rng.choice([0.0, -3.0, 10.5, rng.uniform(-50, 50)])
        size = rng.choice([1.0, 4.0, 10.0, 25.0, 100.0, rng.uniform(2, 60)])
        bounds.append([lo, lo + size])
    if rng.random() < 0.5:      # elongated: one axis much shorter than another
        ax = rng.randrange(nd)
        bounds[ax][1] = bounds[ax][0] + (bounds[ax][1] - bounds[ax][0]) / rng.choice([4.0, 8.0, 16.0])
    n1 = rng.choice(SCALE_BIG if big else SCALE_SIZES)
    case = {"space": space, "scale": True, "bounds": bounds, "torus": torus}
    if space == "exp":
        case["cap"] = rng.choice([0, 1, 2, 100, 100, 1000, 1024])
    sd = lambda: rng.randrange(1 << 30)  # noqa: E731
    ops = [["bulk_add", n1, sd()]]
    n = n1

    def queries(k_):
        out = []
        for _ in range(k_):
            ax = rng.randrange(nd)
            size = bounds[ax][1] - bounds[ax][0]
            r = size * rng.choice([0.0, 1e-3, 0.05, 0.2, 0.49, 0.5, 0.51, 0.6, 0.7, 0.99, 1.0, 1.5, 3.0, 40.0])
            kind = rng.random()
            if space == "legacy":
                out.append(["nbrs", sd(), r, rng.random() < 0.7])
            elif kind < 0.5:
                out.append(["radius", sd(), r])
            elif kind < 0.65:
                out.append(["nbr_radius", sd(), r])
            elif kind < 0.9:
                out.append(["knear", sd(), rng.choice([1, 2, 7, 8, 9, 100, 255, 256, 257, 999, 1000, 1001, 1024, "n-1", "n", "n"])])
            else:
                out.append(["nbr_near", sd(), rng.choice([1, 8, 255, 256, 1000, "n-1"])])
        return out

    ops += queries(rng.randint(2, 4))
    for _ in range(rng.randint(2, 4)):
        r = rng.random()
        if r < 0.3:
            cnt = rng.choice([1, 5, 50, min(300, n // 3)])
            ops.append(["bulk_remove", cnt, rng.choice(["first", "last", "random", "stride"]), sd()])
        elif r < 0.6:
            ops.append(["bulk_move", rng.choice([1, 10, 200, n]), sd()])
        else:
            # cross the next threshold from below
            nxt = [t for t in (101, 129, 257, 1001, 1025, 2049) if t > n]
            cnt = (nxt[0] - n) if nxt and nxt[0] - n <= 1100 and rng.random() < 0.7 else rng.choice([1, 30, 120])
            ops.append(["bulk_add", cnt, sd()])
            n += cnt
        ops += queries(rng.randint(1, 3))
    case["ops"] = ops
    return case


def _run_scale(case):
    import random

    import mesa
    import numpy as np

    sp = case["space"]
    legacy = sp == "legacy"
    bounds = [(float(lo), float(hi)) for lo, hi in case["bounds"]]
    nd = len(bounds)
    torus = case["torus"]
    lo_v = np.array([b[0] for b in bounds])
    hi_v = np.array([b[1] for b in bounds])
    size_v = hi_v - lo_v
    model = mesa.Model(seed=1)
    if legacy:
        from mesa.space import ContinuousSpace

        space = ContinuousSpace(bounds[0][1], bounds[1][1], torus, bounds[0][0], bounds[1][0])
    else:
        from mesa.experimental.continuous_space import ContinuousSpace, ContinuousSpaceAgent

        space = ContinuousSpace(np.array([[lo, hi] for lo, hi in bounds]), torus=torus, random=model.random, n_agents=case["cap"])
    K = f"C10/scale/{sp}"
    fails = _Fail()
    obs = []
    order = []          # labels in insertion order (the statement's space.agents)
    pos = {}            # label -> tuple of doubles: the position the agent must report, bit for bit
    objs = {}
    state = {"dead": False, "next": 1}

    def fail(key, i, what):
        if not state["dead"]:
            fails.add(key, i, what)
        state["dead"] = True

    def draw(rg):
        """a position in the half-open bounds and the object handed to Mesa; returns (expected doubles, object)"""
        form = rg.choice(["t", "l", "a64", "a32", "ai", "t"])
        vals = [lo + (hi - lo) * rg.random() * 0.999 for lo, hi in bounds]
        if form == "a32":
            arr = np.array(vals, dtype=np.float32)
            exp = [float(v) for v in arr]
            if not all(lo <= x < hi for (lo, hi), x in zip(bounds, exp)):
                arr = np.array(vals, dtype=np.float64)
                exp = vals
            return exp, arr
        if form == "ai":
            iv = [int(np.floor(v)) for v in vals]
            if all(lo <= x < hi for (lo, hi), x in zip(bounds, iv)):
                return [float(v) for v in iv], np.array(iv, dtype=np.int64)
            form = "a64"
        if form == "a64":
            return vals, np.array(vals, dtype=np.float64)
        return vals, (tuple(vals) if form == "t" else list(vals))

    def report(o):
        p = o.pos if legacy else o.position
        return None if p is None else tuple(float(v) for v in p)

    def check_state(i):
        if state["dead"]:
            return
        ms = list(space.agents)
        labels = [o._label for o in ms]
        if labels != order:
            if sorted(labels) != sorted(order):
                fail(f"{K}/agents/wrong-set", i, f"space.agents holds {len(labels)} agents, {len(order)} were placed and not removed; differing labels: {sorted(set(labels) ^ set(order))[:10]}")
            else:
                fail(f"{K}/agents/order", i, "space.agents is not in insertion order")
            return
        for o in ms:
            got = report(o)
            if got != pos[o._label]:
                fail(f"{K}/position/not-bit-exact", i, f"agent {o._label} of {len(ms)} reports {got!r}; last assigned {pos[o._label]!r}")
                return

    def truth(q):
        """distances of all agents (in `order`) from q: the statement's metric, own float64 formula"""
        P = np.array([pos[a] for a in order], dtype=np.float64).reshape(len(order), nd)
        d = np.abs(P - np.asarray(q, dtype=np.float64))
        if torus:
            d = np.mod(d, size_v)
            d = np.minimum(d, size_v - d)
        return np.sqrt((d * d).sum(axis=1))

    def check_radius(i, site, q, r, labels, dists, exclude=None, centre=True):
        if state["dead"]:
            return
        D = truth(q)
        idx = {a: j for j, a in enumerate(order)}
        got = set(labels)
        if len(got) != len(labels):
            fail(f"{K}/{site}/duplicate-agents", i, f"{site}: {len(labels) - len(got)} agents returned twice")
            return
        for j, a in enumerate(order):
            if a == exclude:
                continue
            d = D[j]
            if abs(d - r) <= FT_TIE:
                continue
            inside = d < r
            if not centre:
                if d == 0.0:
                    inside = False
                elif d <= FT_TIE:
                    continue
            if inside != (a in got):
                missing = sum(1 for jj, b in enumerate(order) if b != exclude and D[jj] < r - FT_TIE and b not in got)
                fail(f"{K}/{site}/wrong-agents", i, f"{site} around {list(q)} radius {r!r} with {len(order)} agents (torus={torus}, bounds {bounds}): agent {a} at distance {float(d)!r} must {'' if inside else 'not '}be returned; {len(got)} returned, {missing} within the radius missing")
                return
        if dists is not None:
            for a, dd in zip(labels, dists):
                if a in idx and abs(float(dd) - D[idx[a]]) > FT_REL * max(1.0, D[idx[a]]):
                    fail(f"{K}/{site}/distance-inexact", i, f"{site}: agent {a} reported at {float(dd)!r}, is at {float(D[idx[a]])!r}")
                    return

    def check_knear(i, site, q, k, labels, dists, exclude=None):
        if state["dead"]:
            return
        D = truth(q)
        idx = {a: j for j, a in enumerate(order)}
        if len(labels) != k or len(set(labels)) != k or any(a not in idx or a == exclude for a in labels):
            fail(f"{K}/{site}/wrong-count", i, f"{site}(k={k}) with {len(order)} agents returned {len(labels)} agents ({len(set(labels))} distinct)")
            return
        chosen = np.zeros(len(order), dtype=bool)
        chosen[[idx[a] for a in labels]] = True
        if exclude is not None:
            chosen[idx[exclude]] = True
        far = D[[idx[a] for a in labels]].max() if labels else 0.0
        rest = D[~chosen]
        if rest.size and rest.min() < far - FT_TIE:
            fail(f"{K}/{site}/not-nearest", i, f"{site}(k={k}) with {len(order)} agents: farthest returned at {float(far)!r}, an agent left out at {float(rest.min())!r}")
            return
        for a, dd in zip(labels, dists):
            if abs(float(dd) - D[idx[a]]) > FT_REL * max(1.0, D[idx[a]]):
                fail(f"{K}/{site}/distance-inexact", i, f"{site}: agent {a} reported at {float(dd)!r}, is at {float(D[idx[a]])!r}")
                return

    def qpoint(rg):
        if order and rg.random() < 0.3:
            return list(pos[rg.choice(order)])
        return [lo + (hi - lo) * rg.random() for lo, hi in bounds]

    for i, op in enumerate(case["ops"]):
        kind = op[0]
        try:
            if kind == "bulk_add":
                rg = random.Random(op[2])
                for _ in range(op[1]):
                    a = state["next"]
                    state["next"] += 1
                    exp, arg = draw(rg)
                    if legacy:
                        o = mesa.Agent(model)
                        o.pos = None
                        o._label = a
                        space.place_agent(o, arg)
                    else:
                        o = ContinuousSpaceAgent(space, model)
                        o._label = a
                        o.position = arg
                    objs[a] = o
                    order.append(a)
                    pos[a] = tuple(exp)
                check_state(i)
                obs.append([0, len(order)])
            elif kind == "bulk_remove":
                rg = random.Random(op[3])
                cnt = min(op[1], len(order))
                if op[2] == "first":
                    victims = order[:cnt]
                elif op[2] == "last":
                    victims = order[-cnt:] if cnt else []
                elif op[2] == "stride":
                    victims = order[::max(1, len(order) // max(cnt, 1))][:cnt]
                else:
                    victims = rg.sample(order, cnt)
                for a in victims:
                    if legacy:
                        space.remove_agent(objs[a])
                    else:
                        objs[a].remove()
                    del objs[a], pos[a]
                gone = set(victims)
                order[:] = [a for a in order if a not in gone]
                check_state(i)
                obs.append([0, len(order)])
            elif kind == "bulk_move":
                rg = random.Random(op[2])
                for a in (rg.sample(order, min(op[1], len(order))) if order else []):
                    exp, arg = draw(rg)
                    if legacy:
                        space.move_agent(objs[a], arg)
                    else:
                        objs[a].position = arg
                    pos[a] = tuple(exp)
                check_state(i)
                obs.append([0, len(order)])
            elif kind == "nbrs":
                rg = random.Random(op[1])
                q = qpoint(rg)
                res = space.get_neighbors(tuple(q), op[2], op[3])
                check_radius(i, "get_neighbors", q, op[2], [o._label for o in res], None, centre=op[3])
                obs.append([0, len(res)])
            elif kind == "radius":
                rg = random.Random(op[1])
                q = qpoint(rg)
                agents, dists = space.get_agents_in_radius(np.array(q), op[2])
                check_radius(i, "get_agents_in_radius", q, op[2], [o._label for o in agents], list(dists))
                obs.append([0, len(agents)])
            elif kind == "nbr_radius":
                rg = random.Random(op[1])
                if not order:
                    obs.append([-2])
                    continue
                a = rg.choice(order)
                agents, dists = objs[a].get_neighbors_in_radius(op[2])
                check_radius(i, "get_neighbors_in_radius", pos[a], op[2], [o._label for o in agents], list(dists), exclude=a)
                obs.append([0, len(agents)])
            elif kind in ("knear", "nbr_near"):
                rg = random.Random(op[1])
                n = len(order)
                k = {"n": n, "n-1": n - 1}.get(op[2], op[2])
                if kind == "knear":
                    if n == 0 or k < 1 or k > n:
                        obs.append([-2])
                        continue
                    q = qpoint(rg)
                    agents, dists = space.get_k_nearest_agents(np.array(q), k)
                    check_knear(i, "get_k_nearest_agents", q, k, [o._label for o in agents], list(dists))
                else:
                    if n < 2 or k < 1 or k > n - 1:
                        obs.append([-2])
                        continue
                    a = rg.choice(order)
                    D = truth(pos[a])
                    if (D <= FT_TIE).sum() > 1:       # another agent (nearly) on the asker: the documented k+1 boundary
                        obs.append([-2])
                        continue
                    agents, dists = objs[a].get_nearest_neighbors(k)
                    check_knear(i, "get_nearest_neighbors", pos[a], k, [o._label for o in agents], list(dists), exclude=a)
                obs.append([0, len(agents)])
            else:
                raise ValueError(kind)
        except Exception as e:  # noqa: BLE001
            fail(f"{K}/{_site(kind) if not kind.startswith('bulk') else kind}/raises", i, f"{op} with {len(order)} agents raised {type(e).__name__}: {e}")
            obs.append([-1, 99])
    return {"obs": obs, "failures": list(fails), "model": False}


# ------------------------------------------------------------------ USER-CODE stream (oracle only)
# Wave-10 lesson: user code runs in the middle of a library operation.  Both spaces ASSIGN an attribute of the agent
# (legacy: agent.pos; experimental: the position property), so a user may make it a property, a mesa_signals Observable,
# or override position / remove in a ContinuousSpaceAgent subclass - and that code may re-enter the space (a range query,
# a move / removal / placement of ANOTHER agent) or raise to veto the change (the caller catches it and carries on).
# Histories: dyadic numbers; an operation may carry a hook  [when, action...]  that the agent's user code executes once:
#   when = "pre" (before the new value is stored) | "post" (after);  action = ["query", q, r] | ["move", b, p] |
#   ["remove", b] | ["place", b, p] | ["raise", <exception name>] (pre only, moves / sets / remove() overrides only).
# The spaces themselves are user subclasses (extra constructor argument, overridden public methods calling super()).
# Oracle = the statement on what happens NEXT: space.agents and every reported position after every top-level operation,
# nested and top-level range queries against the positions the agents report at that moment, a final sweep of range
# queries around every agent.  Only what HEAD does is demanded: no veto inside place_agent / remove_agent of the legacy space
# (HEAD leaves the agent half registered - reported as a finding, see reports/g10.md), no range query from a post-store
# hook of a legacy move (HEAD patches its cache after the assignment), no range query from a pre-store hook of a placement.
USER_EXC = ["ValueError", "KeyError", "IndexError", "StopIteration", "AttributeError", "TypeError", "RuntimeError"]


def _mk_user(rng, space):
    nd = 2 if space == "legacy" else rng.choice([2, 2, 3])
    torus = rng.random() < 0.5
    bounds = _bounds(rng, nd)
    bounds = [[lo, hi if hi - lo >= 16 else lo + 16] for lo, hi in bounds]
    case = {"space": space, "user": True, "bounds": bounds, "torus": torus, "subspace": rng.random() < 0.7}
    if space == "exp":
        case["cap"] = rng.choice([0, 1, 2, 3, 10])
    kinds = {}
    ops = []
    placed = {}
    nxt = 1

    def inside():
        return _point(rng, bounds, style=rng.choice(["grid", "any"]))

    def target():
        p = _point(rng, bounds, outside=torus and rng.random() < 0.3)
        if not torus and space == "legacy":
            p = [min(x, hi - 1) for (lo, hi), x in zip(bounds, p)]
        return p

    def wrapped(p):
        if space == "legacy":
            return p if _inside_half(bounds, p) else [lo + (x - lo) % (hi - lo) for (lo, hi), x in zip(bounds, p)]
        return p if _inside_closed(bounds, p) else [lo + (x - lo) % (hi - lo) for (lo, hi), x in zip(bounds, p)]

    def hook(kind, a):
        """a hook for a top-level operation `kind` on agent a (None = no user action this time)"""
        if kinds.get(a, "plain") == "plain" or rng.random() < 0.3:
            return None
        others = [b for b in placed if b != a]
        when = rng.choice(["pre", "post"])
        if kinds[a] == "obs":
            when = "pre"                      # an Observable notifies before it stores
        acts = []
        if kind in ("move", "set", "remove") and when == "pre":
            acts += [["raise", rng.choice(USER_EXC)]] * 2 if not (space == "legacy" and kind == "remove") else []
        q = list(placed[a]) if a in placed and rng.random() < 0.6 else inside()
        can_query = not (space == "legacy" and ((kind == "move" and when == "post") or (kind == "place" and when == "pre")))
        if can_query:
            acts += [["query", q, rng.choice([8, 16, 24, 48])]] * 3
        if others and not (space == "legacy" and kind == "place" and when == "pre"):
            b = rng.choice(others)
            acts.append(["move", b, target()])
            acts.append(["remove", b])
        if not (space == "legacy" and kind == "place" and when == "pre"):
            acts.append(["place", "new", target()])
        if not acts:
            return None
        return [when] + rng.choice(acts)

    def apply_hook(h):
        nonlocal nxt
        if h is None:
            return
        act = h[1]
        if act == "move":
            placed[h[2]] = wrapped(h[3])
        elif act == "remove":
            placed.pop(h[2], None)
        elif act == "place":
            h[2] = nxt
            kinds[nxt] = "plain"
            placed[nxt] = wrapped(h[3])
            nxt += 1

    nops = rng.randint(5, 16)
    while len(ops) < nops:
        r = rng.random()
        n = len(placed)
        if r < 0.25 or n == 0:
            if n >= 8:
                continue
            a = nxt
            nxt += 1
            kinds[a] = rng.choice(["plain", "prop", "prop", "obs"] if space == "legacy" else ["plain", "sub", "sub"])
            p = target()
            h = hook("place" if space == "legacy" else "add", a)
            if h and (h[1] == "raise" or (space == "exp" and h[0] == "pre")):
                h = None      # creation is never vetoed; before its first assignment an experimental agent has no position yet
            ops.append(["place" if space == "legacy" else "add", a, p, h])
            placed[a] = wrapped(p)
            apply_hook(h)
        elif r < 0.6:
            a = rng.choice(list(placed))
            p = target()
            h = hook("move" if space == "legacy" else "set", a)
            ops.append(["move" if space == "legacy" else "set", a, p, h])
            if not (h and h[1] == "raise"):
                placed[a] = wrapped(p)
            apply_hook(h)
            if h and h[1] == "remove" and h[2] == a:
                placed.pop(a, None)
        elif r < 0.7:
            a = rng.choice(list(placed))
            h = hook("remove", a)
            if h and h[1] in ("move", "remove") and h[2] == a:
                h = None
            ops.append(["remove", a, h])
            if not (h and h[1] == "raise"):
                placed.pop(a, None)
            apply_hook(h)
        else:
            q = list(rng.choice(list(placed.values()))) if placed and rng.random() < 0.6 else inside()
            q = [min(max(x, lo), hi) for (lo, hi), x in zip(bounds, q)]
            ops.append(["nbrs" if space == "legacy" else "radius", q, rng.choice([0, 8, 16, 32, 64])])
    case["kinds"] = {str(k): v for k, v in kinds.items()}
    case["ops"] = ops
    return case


def _run_user(case):
    import builtins

    import mesa
    import numpy as np
    from mesa.experimental.mesa_signals import HasObservables, Observable

    sp = case["space"]
    legacy = sp == "legacy"
    bounds = [tuple(b) for b in case["bounds"]]
    nd = len(bounds)
    torus = case["torus"]
    kinds = {int(k): v for k, v in case.get("kinds", {}).items()}
    K = f"C10/user/{sp}"
    fails = _Fail()
    obs = []
    state = {"dead": False, "busy": False, "i": 0}
    shadow = {}          # label -> scaled position the agent must report (insertion ordered)
    objs = {}
    model = mesa.Model(seed=1)

    def fail(key, what):
        if not state["dead"]:
            fails.add(key, state["i"], what)
        state["dead"] = True

    def F(p):
        return tuple(v / 16.0 for v in p)

    def norm(p):
        """the statement: where an agent assigned p is; None = rejected"""
        if (_inside_half if legacy else _inside_closed)(bounds, p):
            return list(p)
        if not torus:
            return None
        return [lo + (x - lo) % (hi - lo) for (lo, hi), x in zip(bounds, p)]

    # ---- user subclasses of the spaces
    if legacy:
        from mesa.space import ContinuousSpace as Base

        class UserSpace(Base):
            """a user subclass: extra constructor argument, public methods overridden with super() calls"""

            def __init__(self, *a, tag="mine", **kw):
                super().__init__(*a, **kw)
                self.tag, self.calls = tag, 0

            def move_agent(self, agent, pos):
                self.calls += 1
                return super().move_agent(agent, pos)

            def place_agent(self, agent, pos):
                self.calls += 1
                return super().place_agent(agent, pos)

            def get_neighbors(self, pos, radius, include_center=True):
                return list(super().get_neighbors(pos, radius, include_center))
        (x0, x1), (y0, y1) = bounds
        cls = UserSpace if case.get("subspace") else Base
        space = cls(x1 / 16.0, y1 / 16.0, torus, x0 / 16.0, y0 / 16.0)
    else:
        from mesa.experimental.continuous_space import ContinuousSpace as Base
        from mesa.experimental.continuous_space import ContinuousSpaceAgent

        class UserSpace(Base):
            """a user subclass: extra constructor argument, a public method overridden with a super() call"""

            def __init__(self, dimensions, tag="mine", **kw):
                super().__init__(dimensions, **kw)
                self.tag = tag

            def get_agents_in_radius(self, point, radius=1):
                agents, dists = super().get_agents_in_radius(point, radius)
                return list(agents), dists
        cls = UserSpace if case.get("subspace") else Base
        space = cls(np.array([[lo / 16.0, hi / 16.0] for lo, hi in bounds]), torus=torus, random=model.random, n_agents=case["cap"])

    # ---- what the user code does when it runs
    def reported():
        out = {}
        for o in space.agents:
            p = o.pos if legacy else o.position
            out[o._label] = None if p is None else [_sc(v, []) for v in p]
        return out

    def range_query(q, r):
        if legacy:
            return sorted(o._label for o in space.get_neighbors(F(q), r / 16.0))
        return sorted(o._label for o in space.get_agents_in_radius(np.array(F(q)), r / 16.0)[0])

    def check_query(q, r, where):
        got = range_query(q, r)
        rep_ = reported()
        want = sorted(a for a, p in rep_.items() if p is not None and _dist2(torus, bounds, p, q) <= r * r)
        if got != want:
            fail(f"{K}/range-query/wrong-agents", f"{where}: range query around x16 {q} radius x16 {r} returned {got}; the agents whose REPORTED position is within the radius are {want} (reported x16 {rep_})")

    def new_agent(a):
        kind = kinds.get(a, "plain")
        if legacy:
            o = {"plain": mesa.Agent, "prop": PropAgent, "obs": ObsAgent}[kind](model)
            if kind == "plain":
                o.pos = None
        else:
            o = {"plain": ContinuousSpaceAgent, "sub": SubAgent}[kind](space, model)
        o._label = a
        o._hook = None
        objs[a] = o
        return o

    def run_hook(o, when):
        h = getattr(o, "_hook", None)
        if h is None or h[0] != when or state["busy"]:
            return
        o._hook = None
        state["busy"] = True        # hooks do not nest
        try:
            act = h[1]
            if act == "raise":
                raise getattr(builtins, h[2])("vetoed by the user's code")
            if act == "query":
                check_query(h[2], h[3], f"inside the {when}-store hook of agent {o._label}")
            elif act == "move" and h[2] in shadow and h[2] in objs:
                w = norm(h[3])
                if w is not None:
                    if legacy:
                        space.move_agent(objs[h[2]], F(h[3]))
                    else:
                        objs[h[2]].position = list(F(h[3]))
                    shadow[h[2]] = w
            elif act == "remove" and h[2] in shadow and h[2] in objs:
                if legacy:
                    space.remove_agent(objs[h[2]])
                else:
                    objs[h[2]].remove()
                shadow.pop(h[2], None)
            elif act == "place" and h[2] not in objs:
                w = norm(h[3])
                if w is not None:
                    b = new_agent(h[2])
                    if legacy:
                        space.place_agent(b, F(h[3]))
                    else:
                        b.position = list(F(h[3]))
                    shadow[h[2]] = w
        finally:
            state["busy"] = False

    if legacy:
        class PropAgent(mesa.Agent):
            """pos is a user property: the setter tells others before / after it stores"""

            @property
            def pos(self):
                return getattr(self, "_pos", None)

            @pos.setter
            def pos(self, value):
                run_hook(self, "pre")
                self._pos = value
                run_hook(self, "post")

        class ObsAgent(mesa.Agent, HasObservables):
            """pos is a mesa_signals Observable; the handler runs before the new value is stored"""

            pos = Observable()

            def __init__(self, m):
                super().__init__(m)
                self.observe("pos", "change", self._on_pos)

            def _on_pos(self, signal):
                run_hook(self, "pre")
    else:
        class SubAgent(ContinuousSpaceAgent):
            """a ContinuousSpaceAgent subclass overriding position and remove with super() calls"""

            @property
            def position(self):
                return ContinuousSpaceAgent.position.fget(self)

            @position.setter
            def position(self, value):
                run_hook(self, "pre")
                ContinuousSpaceAgent.position.fset(self, value)
                run_hook(self, "post")

            def remove(self):
                run_hook(self, "pre")
                super().remove()
                run_hook(self, "post")

    def check_state(where):
        if state["dead"]:
            return
        rep_ = reported()
        if list(rep_) != list(shadow):
            fail(f"{K}/agents/wrong-set" if sorted(rep_) != sorted(shadow) else f"{K}/agents/order",
                 f"{where}: space.agents lists {list(rep_)}, placed and not removed (in order): {list(shadow)}")
            return
        for a, p in rep_.items():
            if p is None or not _position_ok(torus, bounds, shadow[a], p):
                fail(f"{K}/position/wrong-position", f"{where}: agent {a} reports x16 {p}, last accepted assignment x16 {shadow[a]}")
                return
            shadow[a] = p

    for i, op in enumerate(case["ops"]):
        state["i"] = i
        kind = op[0]
        try:
            if kind in ("place", "add"):
                _, a, p, h = op
                w = norm(p)
                if a in objs or w is None or len(p) != nd:
                    obs.append([-2])
                    continue
                o = new_agent(a)
                o._hook = h
                shadow[a] = w          # (registered before the user code runs: the hook may look at it)
                if legacy:
                    space.place_agent(o, F(p))
                else:
                    o.position = list(F(p))
                o._hook = None
                check_state(f"after {op}")
                obs.append([0, len(shadow)])
            elif kind in ("move", "set"):
                _, a, p, h = op
                w = norm(p)
                if a not in shadow or a not in objs or len(p) != nd:
                    obs.append([-2])
                    continue
                o = objs[a]
                o._hook = h if kinds.get(a, "plain") != "plain" else None
                veto = o._hook is not None and o._hook[1] == "raise"
                try:
                    if legacy:
                        space.move_agent(o, F(p))
                    else:
                        o.position = list(F(p))
                except Exception as e:  # noqa: BLE001
                    o._hook = None
                    if veto and type(e).__name__ == h[2] or (w is None and type(e) in (Exception, ValueError)):
                        check_state(f"after the rejected {op} ({type(e).__name__})")     # nothing may have changed
                        obs.append([-1, len(shadow)])
                        continue
                    raise
                o._hook = None
                if w is None:
                    fail(f"{K}/out-of-bounds-accepted", f"{op} was accepted")
                elif veto and w is not None and (legacy and not _inside_half(bounds, p) and not torus):
                    pass
                else:
                    if a in shadow:
                        shadow[a] = w
                check_state(f"after {op}")
                obs.append([0, len(shadow)])
            elif kind == "remove":
                _, a, h = op
                if a not in shadow or a not in objs:
                    obs.append([-2])
                    continue
                o = objs[a]
                o._hook = h if kinds.get(a, "plain") != "plain" else None
                veto = o._hook is not None and o._hook[1] == "raise"
                try:
                    if legacy:
                        space.remove_agent(o)
                    else:
                        o.remove()
                except Exception as e:  # noqa: BLE001
                    o._hook = None
                    if veto and type(e).__name__ == h[2]:
                        check_state(f"after the vetoed {op}")
                        obs.append([-1, len(shadow)])
                        continue
                    raise
                o._hook = None
                shadow.pop(a, None)
                objs.pop(a, None)
                check_state(f"after {op}")
                obs.append([0, len(shadow)])
            elif kind in ("nbrs", "radius"):
                check_query(op[1], op[2], f"{op}")
                check_state(f"after {op}")
                obs.append([0, len(shadow)])
            else:
                raise ValueError(kind)
        except Exception as e:  # noqa: BLE001
            fail(f"{K}/{kind}/raises", f"{op} raised {type(e).__name__}: {e}  (agents: {list(shadow)})")
            obs.append([-1, 99])
    # final sweep: every agent's neighbourhood at three radii, from the reported positions
    state["i"] = len(case["ops"]) - 1
    try:
        if not state["dead"]:
            for a, p in list(shadow.items()):
                q = [min(max(x, lo), hi) for (lo, hi), x in zip(bounds, p)]
                for r in (0, 16, 40):
                    if not state["dead"]:
                        check_query(q, r, "final sweep")
    except Exception as e:  # noqa: BLE001
        fail(f"{K}/final-sweep/raises", f"range query raised {type(e).__name__}: {e}")
    return {"obs": obs, "failures": list(fails), "model": False}


# ------------------------------------------------------------------ model side
def _pt(p):
    return L.zlist(p)


def _bs(bounds):
    return L.lst([L.zpair(b) for b in bounds])


def coq_case(case):
    ops = []
    if case.get("float") or case.get("scale") or case.get("user"):   # oracle-only streams: nothing for the scaled-integer model to evaluate
        return "(CLegacy {| lc_bounds := []; lc_torus := false |} [])"
    if case["space"] == "legacy":
        for op in case["ops"]:
            k = op[0]
            if k == "place":
                ops.append(f"LPlace {L.z(op[1])} {_pt(op[2])}")
            elif k == "move":
                ops.append(f"LMove {L.z(op[1])} {_pt(op[2])}")
            elif k == "remove":
                ops.append(f"LRemove {L.z(op[1])}")
            elif k == "nbrs":
                ops.append(f"LNeighbors {_pt(op[1])} {L.z(op[2])} {L.b(op[3])}")
            elif k == "dist":
                ops.append(f"LDistance {_pt(op[1])} {_pt(op[2])}")
            elif k == "heading":
                ops.append(f"LHeading {_pt(op[1])} {_pt(op[2])}")
            elif k == "agent_remove":
                ops.append(f"LAgentRemove {L.z(op[1])}")
            else:
                raise ValueError(k)
        cfg = f"{{| lc_bounds := {_bs(case['bounds'])}; lc_torus := {L.b(case['torus'])} |}}"
        return f"(CLegacy {cfg} {L.lst(ops)})"
    src = case.get("_ops_for_model") or case["ops"]
    for op in src:
        k = op[0]
        if k == "add":
            ops.append(f"EAdd {L.z(op[1])} {_pt(op[2])}")
        elif k == "set":
            ops.append(f"ESet {L.z(op[1])} {_pt(op[2])}")
        elif k == "remove":
            ops.append(f"ERemove {L.z(op[1])}")
        elif k == "dists":
            ops.append(f"EDistances {_pt(op[1])}")
        elif k == "radius":
            ops.append(f"ERadius {_pt(op[1])} {L.z(op[2])}")
        elif k == "knear":
            out = op[3] if len(op) > 3 else []
            ops.append(f"EKNearest {_pt(op[1])} {int(op[2])}%nat {L.zlist(out)}")
        elif k == "diffs":
            ops.append(f"EDiffs {_pt(op[1])}")
        elif k == "nbr_radius":
            ops.append(f"ENbrRadius {L.z(op[1])} {L.z(op[2])}")
        elif k == "nbr_near":
            out = op[3] if len(op) > 3 else []
            ops.append(f"ENearestNbrs {L.z(op[1])} {int(op[2])}%nat {L.zlist(out)}")
        elif k == "pair":
            ops.append(f"EPair {L.z(op[1])} {L.z(op[2])}")
        elif k == "clear":
            ops.append("EClear")
        elif k == "dists_of":
            ops.append(f"EDistancesOf {_pt(op[1])} {L.zlist(op[2])}")
        elif k == "diffs_of":
            ops.append(f"EDiffsOf {_pt(op[1])} {L.zlist(op[2])}")
        else:
            raise ValueError(k)
    cfg = f"{{| ec_bounds := {_bs(case['bounds'])}; ec_torus := {L.b(case['torus'])}; ec_cap := {int(case['cap'])}%nat |}}"
    return f"(CExp {cfg} {L.lst(ops)})"


def op_kinds(case):
    tag = case["space"] + ("-user" if case.get("user") else "-scale" if case.get("scale") else "-float" if case.get("float") else "")
    return [f"{tag}/{op[0]}" for op in case["ops"]]


def nontrivial(case):
    obs = case.get("_obs", [])
    done = [o for o in obs if o and o[0] != -2]
    if case.get("float") or case.get("scale") or case.get("user"):
        return len(done) >= 3 and any(len(o) > 1 and o[1] > 0 for o in done)
    queries = {"nbrs", "radius", "knear", "dists", "diffs", "nbr_radius", "nbr_near", "dist", "heading", "pair",
               "dists_of", "diffs_of"}
    hit = any(op[0] in queries and o and o[0] not in (-1, -2, SEP) and len(o) > 3
              for op, o in zip(case["ops"], obs))
    return len(done) >= 3 and hit


LEVEL_TEXT = ("Machine-checked Coq theorems (59, closed under the global context, with 12 Examples of non-vacuity) over Gallina transcriptions "
              "of both continuous spaces: for every bounds vector with positive extents, every dimension, torus flag, initial "
              "capacity and every history of create / place / move / remove / agent.remove() / remove_all_agents() and queries, "
              "the concrete models (growable row store with capacity, index dictionary, compaction and re-indexing on removal, "
              "model registry; legacy lazily built and patched point cache) produce exactly the observations of an abstract "
              "insertion-ordered map agent -> last assigned (wrapped) position (C10_exp_refines, C10_legacy_refines, "
              "C10_run_case_refines); invariants hold in every reachable state and the IndexError / KeyError paths are "
              "unreachable; positions depend only on the operations naming the agent and not on capacity or growth steps "
              "inserted anywhere; space.agents / model.agents have the order of insertion; removal from the model leaves the "
              "space; radius answers (incl. include_center, radius 0, coincident agents, the agents= forms) are exact end to "
              "end; every legal k-nearest outcome is sound and one always exists; the k+1 boundary of get_nearest_neighbors is "
              "stated; distance is symmetric and the quotient metric, heading / difference vectors have its length, wrapped "
              "positions are in bounds, rejected calls leave the whole state unchanged (C18_continuous_*).  Code-level T1: 17 "
              "source functions / expressions are re-translated to Gallina on every run and proved equal to the model's "
              "functions (15 bridge lemmas), 2 statement skeletons cover the glue, and the headline results are restated about "
              "the translated code (C10_legacy_radius_exact_of_source, C10_heading_norm_of_source, ...).  T2 evaluates the "
              "model against the implementation on ~520 (quick) / ~9 400 (thorough) dyadic histories; an independent oracle "
              "states the property on the implementation, additionally on arbitrary binary64 histories (bit-exact positions), "
              "and supplies the failing input.  Six defects of the unchanged tree (DESIGN rows 9-14) were found and are fixed "
              "in /repo; none is left as a known finding.")
LEVEL_NOTE = ("Theorems are about the models and about exact arithmetic on scaled integers; binary64 behaviour on non-dyadic "
              "numbers, heterogeneous / falsy agent classes, keyword spellings, repeated queries, shared and unmutated argument "
              "objects and a second space in the same process are covered by the oracle on the implementation only. Trusted: Coq "
              "kernel, the pyexpr translator and its per-axis reading, the drivers / observers, NumPy / SciPy primitives as "
              "modelled. No axioms.")
TECHNIQUE = ("Coq proof (invariants + refinement to an abstract map, closed under the global context) + code-level T1 (source "
             "functions translated on every run, bridge lemmas) + vm_compute correspondence + implementation-side oracle "
             "(dyadic and arbitrary-binary64 streams)")
DESIGN_REF = "DESIGN.md section 4, C10 (and the continuous-space sites of C18)"
