"""C20 - visualization data shows each agent once, where it is, as portrayed; property layers in
the grid's orientation; _check_model_params accepts exactly the keyword-callable parameter sets;
split_model_params loses nothing.   Model: coq/Model/Viz.v

One history = one space (any of the 12 drawable classes) + a portrayal table + optionally one
property layer + a list of operations: place / move / remove / change kind of agents, write the
layer, and read the drawing data back (collect_agent_data, draw_space -> ax.collections,
Altair _draw_grid -> chart.data.values, draw_property_layers -> image / hexagon colours),
interleaved with stateless _check_model_params / split_model_params calls."""
import itertools
import math
from fractions import Fraction

import coqlit as L

ID = "C20"
COQ_PROPERTY_FILE = "Properties/C20.v"
COQ_DEPS = ["Common/ListX.v", "Common/ObsHash.v", "Common/VizTypes.v", "Generated/Tables.v", "Model/Viz.v", "Proofs/VizProofs.v",
            "Proofs/VizBridge.v"]
COQ_IMPORTS = "From Mesa Require Import Model.Viz."
COQ_CASE_TYPE = "case"
COQ_RUN = "run_case"
TABLE_CONSTRUCTS = ["viz_collect_defaults", "viz_size_base",
                    "viz_check_code", "viz_fixed_code", "viz_split_code", "viz_hex_center_code", "viz_mesh_code",
                    "viz_layers_code", "viz_collect_code", "viz_scatter_code", "viz_altair_code", "viz_altair_enc_code"]
RULE = ("histories = one space (SingleGrid, MultiGrid, HexSingleGrid, HexMultiGrid, OrthogonalMooreGrid (also capacity=1), "
        "OrthogonalVonNeumannGrid, HexGrid, NetworkGrid, Network, legacy and experimental ContinuousSpace, VoronoiGrid; w,h <= 5, "
        "8 % 1x12 / 12x1 / 9x2 / 2x11 / 7x7; 8 % with an agent in every cell) + a portrayal table over size/color/marker/zorder "
        "(each optional per agent kind; sizes and z-orders multiples of 1/4 passed as int or float) + optional property layer "
        "(int / float / bool dtype, 20 % constant) + 6..22 operations from: place/move/remove/kind, layer write, collect, "
        "draw_space, make_space_component (mpl / altair, with and without agent_portrayal), altair _draw_grid data and "
        "encodings, layer draw (colormap / color mode, optional vmin/vmax incl. vmin == vmax, alpha, colorbar; redraws with the "
        "SAME portrayal dict after range-changing writes), _check_model_params and the real keyword call on generated "
        "signatures, split_model_params and ModelCreator on dicts over 13 value forms; variants per history: shared portrayal "
        "dicts (20 %), colours as hex / RGB / RGBA / mixed (30 %), numpy scalars (20 %), agents with a False truth value (25 %), "
        "every draw preceded by a draw aborted in the portrayal (15 %); plus all signatures with <= 1 (quick) / <= 2 (thorough) "
        "parameters x 16 parameter subsets; variants also: portrayal returning a dict subclass / read-only Mapping / OrderedDict, portrayal "
        "given as bound method / partial / callable object, legacy agents with pos behind a property, every drawing entry point with "
        "and without ax; IMPLEMENTATION + ORACLE ONLY streams (not model-evaluated): SCALE (6 histories with 255..5000 agents and 1-3 "
        "agents returning a key) and USER CODE (70 histories whose portrayal moves the portrayed agent, moves another agent, or raises "
        "one of 7 exception types inside collect / draw_space / the component, each followed by ordinary draws); 30 % of the histories continue on a copy.deepcopy / pickle round trip of (model, space) and then place / remove / move and draw with both back ends; every history starts from the EMPTY space; non-trivial = at least one "
        "drawing/check observation that is not a no-op and at least 3 operations; distinct = by SHA1 of the history")
TRUSTED_BASE = [
    "Coq 8.16.1 kernel (coqc); vm_compute for the Examples, the refutation witnesses and the evaluation of the model in the correspondence",
    "no axioms: Print Assumptions reports 'Closed under the global context' for all 43 C20 theorems",
    "harness/tables/viz.py (T1 constants: defaults of collect_agent_data, the 180 of s_default) and harness/tables/viz_code.py "
    "(code-level T1: translates _check_model_params, check_param_is_fixed, split_model_params, the collect loop body, _scatter, "
    "the hex centre formulas, _get_hexmesh, the orientation expressions of draw_property_layers, the Altair x/y extraction and "
    "the source dict of the Altair encodings into Gallina, modulo local names / message texts / docstrings) + harness/pyexpr.py",
    "harness/props/C20.py driver+observer (reads ax.collections / ax.images / colour bars / chart.data.values / chart.encoding / "
    "the reactive model_parameters back and decodes offsets, sizes, colours, marker paths to integers) and the Gallina printer (T2, differential testing, not a proof)",
    "Model/Viz.v + Common/VizTypes.v: hand transcription tied to the translated source by the bridge lemmas of Proofs/VizBridge.v; "
    "numpy mask indexing = list select, dict = association list, cell lists in arrival order, Python keyword binding as Viz.bindable "
    "(compared with the real call by the Bind operations)",
    "Matplotlib / Altair / NumPy / Solara / inspect.signature themselves (only the data handed to them is in scope)",
    "Uint63 primitive hash only in scratch Cases files, never under a theorem",
]
ASSUMPTIONS = [
    "coordinates are ints (continuous positions: multiples of 1/4); colours and markers come from fixed palettes (colours in any spelling, one tuple marker); "
    "sizes and z-orders are multiples of 1/4 (int, float or numpy scalar); layer values are small ints (as int, float or bool arrays)",
    "portrayals return the four keys of the statement only (alpha/edgecolors/linewidths are outside the statement and not generated)",
    "constructor signatures: the first parameter is named self and model_params has no key 'self' (the code skips that name literally)",
    "vmin <= vmax (vmin > vmax is not generated); the value map of the layers (normalisation, clipping, alpha) is modelled and proved monotone / NaN-free, Matplotlib's colormap itself is not",
    "network spaces are drawn with an integer layout (layout_alg argument); the default spring layout is checked by the oracle only (floats); a one-node network / coinciding layout (extent 0) is not generated",
    "order of markers / chart rows is not part of the statement: compared as sorted rows; the Altair encodings are compared as flags (which keys are encoded), not Vega-Lite's rendering of missing values",
]

COLORS = ["tab:blue", "tab:orange", "tab:green", "red", "black", "#123456"]
MARKERS = ["o", "s", "^", "v", "D", "*", (5, 1)]     # the last one: a tuple marker (numsides, style)
NAMES = ["self", "a", "b", "c", "d", "kwargs", "options", "kw", "args", "rest", "n", "seed"]
KINDS = ["PosOnly", "PosOrKw", "VarPos", "KwOnly", "VarKw"]
E_NOT_IMPLEMENTED, E_VARARGS, E_MISSING, E_INVALID, E_POSONLY, E_NOLOC = 1, 1, 2, 3, 4, 5

CLASSES = {
    # name: (family, single, legacy, altair, has_layer)
    "SingleGrid": ("Orth", True, True, 2, True),
    "MultiGrid": ("Orth", False, True, 2, True),
    "HexSingleGrid": ("Hex", True, True, 2, True),
    "HexMultiGrid": ("Hex", False, True, 2, True),
    "OrthogonalMooreGrid": ("Orth", False, False, 1, True),
    "OrthogonalVonNeumannGrid": ("Orth", False, False, 1, True),
    "OrthogonalMooreGrid1": ("Orth", True, False, 1, True),   # capacity=1
    "HexGrid": ("Hex", False, False, 1, True),
    "NetworkGrid": ("Net", False, True, 0, False),
    "Network": ("Net", False, False, 0, False),
    "ContinuousSpace": ("Cont", False, True, 3, False),
    "ContinuousSpaceExp": ("Cont", False, False, 0, False),
    "VoronoiGrid": ("Voro", False, False, 0, False),
}
VORO_SETS = [
    [[0, 0], [4, 0], [0, 4], [4, 4], [2, 2]],
    [[0, 0], [6, 1], [1, 5], [5, 6], [3, 3], [2, 1]],
    [[1, 0], [5, 2], [0, 3], [4, 5], [2, 2], [6, 6], [3, 0]],
    [[0, 0], [3, 0], [0, 2], [3, 3]],
    [[0, 0], [8, 1], [2, 3], [6, 4], [4, 2]],            # wider than high
    [[0, 0], [2, 7], [1, 3], [3, 5], [2, 1], [0, 6]],    # higher than wide
    [[1, 1], [7, 0], [4, 3], [0, 2], [6, 2]],
]


# ------------------------------------------------------------------ generation
def _gen_space(rng, cls=None):
    cls = cls or rng.choice(list(CLASSES))
    fam = CLASSES[cls][0]
    sp = {"cls": cls, "draw_grid": rng.random() < 0.6}
    if fam in ("Orth", "Hex"):
        sp["w"], sp["h"] = rng.randint(1, 5), rng.randint(1, 5)
        if rng.random() < 0.08:
            sp["w"], sp["h"] = rng.choice([(1, 12), (12, 1), (9, 2), (2, 11), (7, 7)])     # 1xN and larger shapes
    elif fam == "Net":
        n = rng.randint(2, 6)
        pts = rng.sample([(x, y) for x in range(5) for y in range(4)], n)
        sp["points"] = [list(p) for p in pts]
        sp["edges"] = [[i, j] for i in range(n) for j in range(i + 1, n) if rng.random() < 0.4]
    elif fam == "Cont":
        sp["x0"], sp["y0"] = rng.randint(-2, 2), rng.randint(-2, 2)
        sp["w"], sp["h"] = rng.randint(1, 6), rng.randint(1, 6)
    else:
        sp["points"] = [list(p) for p in rng.choice(VORO_SETS)]
    return sp


def _addresses(sp):
    fam = CLASSES[sp["cls"]][0]
    if fam in ("Orth", "Hex"):
        return [(x, y) for x in range(sp["w"]) for y in range(sp["h"])]
    if fam in ("Net", "Voro"):
        return [(i, 0) for i in range(len(sp["points"]))]
    return None


def _rand_addr(rng, sp):
    fam = CLASSES[sp["cls"]][0]
    if fam == "Cont":
        return (rng.randrange(4 * sp["x0"], 4 * (sp["x0"] + sp["w"])), rng.randrange(4 * sp["y0"], 4 * (sp["y0"] + sp["h"])))
    return rng.choice(_addresses(sp))


def _gen_size(rng):
    """marker size in QUARTER units: mostly whole numbers, a third fractional (7 = 1.75)"""
    return 4 * rng.randint(1, 60) if rng.random() < 0.65 else rng.randint(1, 240)


def _gen_zorder(rng):
    """z-order in QUARTER units: whole layers -1..3 and in-between ones (6 = 1.5, 2 = 0.5, -2 = -0.5)"""
    return 4 * rng.randint(-1, 3) if rng.random() < 0.6 else rng.choice([-2, 1, 2, 3, 5, 6, 7, 9, 10, 11])


def _q(v):
    """quarter units -> the Python number handed to Mesa: int when whole, float otherwise"""
    return v // 4 if v % 4 == 0 else v / 4


def _gen_portrayal(rng):
    style = rng.random()
    nk = rng.randint(1, 3)
    tab = []
    for _ in range(nk):
        if style < 0.15:
            tab.append([None, None, None, None])
        elif style < 0.3:
            tab.append([_gen_size(rng), rng.randrange(6), rng.randrange(7), _gen_zorder(rng)])
        else:
            tab.append([_gen_size(rng) if rng.random() < 0.5 else None,
                        rng.randrange(6) if rng.random() < 0.6 else None,
                        rng.choice([0, 1, 2, 3, 6]) if rng.random() < 0.5 else None,
                        _gen_zorder(rng) if rng.random() < 0.5 else None])
    return tab


def _gen_sig(rng):
    """a valid Python signature after self: [[name, kind, has_default], ...]"""
    pool = NAMES[1:]
    rng.shuffle(pool := list(pool))
    sig = []
    it = iter(pool)
    npo = rng.choice([0, 0, 0, 1, 2])
    npk = rng.choice([0, 1, 1, 2, 3])
    nko = rng.choice([0, 0, 1, 2])
    seen_default = False
    for _ in range(npo):
        d = seen_default or rng.random() < 0.4
        seen_default = d
        sig.append([next(it), "PosOnly", d])
    for _ in range(npk):
        d = seen_default or rng.random() < 0.4
        seen_default = d
        sig.append([next(it), "PosOrKw", d])
    if rng.random() < 0.12:
        sig.append([next(it), "VarPos", False])
    for _ in range(nko):
        sig.append([next(it), "KwOnly", rng.random() < 0.5])
    if rng.random() < 0.35:
        # **kwargs under any name; make the classic names likely
        free = [n for n in pool if n not in [s[0] for s in sig]]
        pref = [n for n in ("kwargs", "options", "kw") if n in free]
        sig.append([rng.choice(pref) if pref and rng.random() < 0.8 else rng.choice(free), "VarKw", False])
    return sig


def _gen_check(rng):
    sig = _gen_sig(rng)
    names = [s[0] for s in sig]
    ps = []
    mode = rng.random()
    for n, k, d in sig:
        if k in ("VarPos",):
            continue
        p = {"PosOnly": 0.35, "PosOrKw": 0.8 if not d else 0.4, "KwOnly": 0.8 if not d else 0.4, "VarKw": 0.15}[k]
        if mode < 0.25:
            p = 1.0 if (k in ("PosOrKw", "KwOnly") and not d) else p * 0.5   # exactly the required ones, mostly
        if rng.random() < p:
            ps.append(n)
    if rng.random() < 0.35:
        extra = [n for n in NAMES[1:] if n not in names]
        if extra:
            ps.append(rng.choice(extra))
    rng.shuffle(ps)
    return ["check", sig, ps]


def _gen_split(rng):
    names = rng.sample(NAMES[1:], rng.randint(0, 6))
    return ["split", [[n, rng.choice([0, 0, 1, 2, 2, 3, 4, 5, 6, 7, 8, 9, 10, 11, 12]), rng.randint(0, 50)] for n in names]]


def _gen_creator(rng):
    """ModelCreator: a signature + a dict mixing fixed values, Sliders and option dicts"""
    _, sig, ps = _gen_check(rng)
    return ["creator", sig, [[n, rng.choice([0, 0, 1, 2, 3, 4, 5, 6, 7, 8, 9, 10, 11, 12]), rng.randint(0, 50)] for n in ps]]


def _gen_layer_op(rng):
    vmin = vmax = None
    if rng.random() < 0.5:
        vmin = rng.randint(-1, 4)
        vmax = vmin + rng.randint(1, 8)
    elif rng.random() < 0.2:
        vmax = rng.randint(9, 12)
    elif rng.random() < 0.25:
        vmin = vmax = rng.randint(0, 8)          # degenerate scale given explicitly
    return ["layer", rng.random() < 0.5, vmin, vmax, rng.choice([4, 4, 2, 1, 3]), rng.random() < 0.3]


def _gen_case(rng, cls=None, nops=None):
    sp = _gen_space(rng, cls)
    cls = sp["cls"]
    fam, single, legacy, altair, has_layer = CLASSES[cls]
    layer = None
    if has_layer and rng.random() < 0.6:
        layer = [[rng.randint(0, 8) for _ in range(sp["h"])] for _ in range(sp["w"])]
        if rng.random() < 0.2:
            c0 = rng.randint(0, 8)         # a constant layer (the usual initial state): the default scale is degenerate
            layer = [[c0] * sp["h"] for _ in range(sp["w"])]
    pt = _gen_portrayal(rng)
    nk = len(pt)
    ops = []
    n_ids = rng.randint(1, 7)
    cells = _addresses(sp)
    fill = cells is not None and len(cells) <= 12 and rng.random() < 0.08      # an agent in every cell / node
    nops = nops or rng.randint(6, 22)
    # the empty space is drawn first in some histories (candidate #30)
    if rng.random() < 0.25:
        ops.append([rng.choice(["mpl", "altair", "collect"])])
    if fill:
        n_ids = len(cells)
        for i, (x, y) in enumerate(cells, 1):
            ops.append(["place", i, rng.randrange(nk + 1), x, y])
        nops = (nops or 0) + len(cells)
    for i in range(1, 1 + (0 if fill else rng.randint(0, n_ids))):
        x, y = _rand_addr(rng, sp)
        ops.append(["place", i, rng.randrange(nk + 1), x, y])
    while len(ops) < nops:
        r = rng.random()
        if r < 0.12:
            x, y = _rand_addr(rng, sp)
            ops.append(["place", rng.randint(1, n_ids), rng.randrange(nk + 1), x, y])
        elif r < 0.24:
            x, y = _rand_addr(rng, sp)
            if rng.random() < 0.05:
                x += 50
            ops.append(["move", rng.randint(1, n_ids), x, y])
        elif r < 0.30:
            ops.append(["remove", rng.randint(1, n_ids)])
        elif r < 0.36:
            ops.append(["kind", rng.randint(1, n_ids), rng.randrange(nk + 1)])
        elif r < 0.42 and layer is not None:
            ops.append(["setlayer", rng.randrange(sp["w"]), rng.randrange(sp["h"]), rng.randint(0, 8)])
        elif r < 0.56:
            ops.append(["mpl"])
        elif r < 0.62:
            ops.append(["mplc", rng.random() < 0.25])
        elif r < 0.68:
            ops.append(["altair"])
        elif r < 0.71:
            ops.append(["altairc", rng.random() < 0.25])
        elif r < 0.74:
            ops.append(["altairenc"])
        elif r < 0.78:
            ops.append(["collect"])
        elif r < 0.80 and layer is not None:
            ops.append(["inflayer", rng.random() < 0.6, rng.random() < 0.5, rng.random() < 0.4])
        elif r < 0.88 and layer is not None:
            prev = [o for o in ops if o[0] == "layer"]
            if prev and rng.random() < 0.5:
                # a layer write that can change the range, then a redraw with the SAME settings (same portrayal dict)
                ops.append(["setlayer", rng.randrange(sp["w"]), rng.randrange(sp["h"]), rng.choice([0, 8, 9, 12, -2, rng.randint(0, 8)])])
                ops.append(list(rng.choice(prev)))
            else:
                ops.append(_gen_layer_op(rng))
        elif r < 0.94:
            ops.append(_gen_check(rng))
        elif r < 0.97:
            ops.append(_gen_creator(rng))
        else:
            ops.append(_gen_split(rng))
    if rng.random() < 0.3:
        # continue on a deepcopy / pickle round trip of the model, then add / remove / move and draw with both back ends
        k = rng.randint(1, max(1, len(ops) // 2))
        x, y = _rand_addr(rng, sp)
        x2, y2 = _rand_addr(rng, sp)
        ops[k:k] = [["copy", rng.randrange(2)], ["place", n_ids + 1, rng.randrange(nk + 1), x, y], ["mpl"], ["altair"],
                    ["remove", rng.randint(1, n_ids)], ["mpl"], ["move", rng.randint(1, n_ids + 1), x2, y2], ["mpl"], ["altair"]]
    c = {"space": sp, "portrayal": pt, "layer": layer, "ops": ops}
    if rng.random() < 0.2:
        c["shared_dict"] = True      # the portrayal function returns one cached dict per agent kind
    # value-domain / population variants (none of them changes what the model sees)
    v = {}
    if rng.random() < 0.3:
        v["color_form"] = rng.choice([1, 2, 3, 4])    # colours as '#rrggbb' / (r, g, b) / (r, g, b, a) instead of names; 4: mixed
    if rng.random() < 0.2:
        v["np_scalars"] = True                        # sizes and z-orders as numpy scalars
    if rng.random() < 0.25:
        v["falsy"] = True                             # agents whose truth value is False (__len__ == 0 / __bool__ False)
    if rng.random() < 0.15:
        v["raise_first"] = True                       # every draw is preceded by a draw aborted by an exception in the portrayal
    if rng.random() < 0.25:
        v["dict_kind"] = rng.choice([1, 2, 3])       # the portrayal returns a dict subclass / read-only Mapping / OrderedDict
    if rng.random() < 0.25:
        v["callable_kind"] = rng.choice([1, 2, 3])   # the portrayal is a bound method / functools.partial / callable object
    if rng.random() < 0.2:
        v["prop_agents"] = True                       # legacy agents keep pos behind a property
    if rng.random() < 0.5:
        v["entry"] = rng.randint(1, 1000)            # rotate through draw_space / the per-space drawers, with and without ax
    if layer is not None and rng.random() < 0.35:
        v["layer_dtype"] = rng.choice(["float", "bool"])
        if v["layer_dtype"] == "bool":
            c["layer"] = [[x % 2 for x in col] for col in layer]
            for o in ops:
                if o[0] == "setlayer":
                    o[3] = o[3] % 2
    if v:
        c["variant"] = v
    return c


def _gen_pure_case(rng, n):
    """signatures / parameter dicts only (cheap: no drawing)"""
    ops = []
    for _ in range(n):
        r = rng.random()
        ops.append(_gen_check(rng) if r < 0.6 else _gen_creator(rng) if r < 0.85 else _gen_split(rng))
        if ops[-1][0] == "check" and rng.random() < 0.7:
            ops.append(["bind", ops[-1][1], ops[-1][2]])    # the same call made for real
    return {"space": {"cls": "SingleGrid", "w": 1, "h": 1, "draw_grid": False}, "portrayal": [[None] * 4], "layer": None, "ops": ops}


def _warm():
    """import the slow libraries in the parent so that forked workers inherit them"""
    try:
        import matplotlib

        matplotlib.use("Agg")
        import mesa.visualization  # noqa: F401
        import mesa.visualization.components.altair_components  # noqa: F401
        import mesa.visualization.mpl_space_drawing  # noqa: F401
    except Exception:  # noqa: BLE001
        pass


SCALE_SIZES = [255, 256, 257, 512, 999, 1000, 1001, 1024, 1025, 1500, 2048, 2049, 3000, 4096, 5000]


def _gen_scale_case(rng, cls, n):
    """SCALE stream (implementation + oracle only): 255..5000 agents, of which only a few - at the first, last, middle,
    500th, 1000th, 1001st ... position - return a portrayal key at all; every back end must still show each agent as ITS
    portrayal says and the Altair chart must declare the encodings / tooltips those few agents need"""
    fam, single, legacy, altair, has_layer = CLASSES[cls]
    sp = {"cls": cls, "draw_grid": False}
    if fam in ("Orth", "Hex"):
        side = 70 if (single and n > 1600) or rng.random() < 0.3 else 40
        sp["w"], sp["h"] = side, side
        if single:
            n = min(n, side * side)
    elif fam == "Cont":
        sp.update(x0=0, y0=0, w=40, h=40)
    elif fam == "Net":
        nodes = 1100
        sp["points"] = [[i % 40, i // 40] for i in range(nodes)]
        sp["edges"] = [[i, i + 1] for i in range(0, nodes - 1, 97)]
    else:
        sp["points"] = [list(p) for p in VORO_SETS[1]]
    # the few portrayals that return anything: colour only, size only (a numpy scalar in half of the cases), marker + zorder
    pt = [[None, rng.randrange(1, 6), None, None], [4 * rng.randint(1, 60), None, None, None], [None, None, rng.randrange(1, 6), 4 * rng.randint(2, 3)]]
    positions = [0, n - 1, n // 2, 499, 500, 501, 999, 1000, 1001, 1023, 1024, 2047, 2048, 4095]
    positions = [p for p in positions if 0 <= p < n]
    rng.shuffle(positions)
    sparse = [[positions[k], k % 3] for k in range(min(len(positions), rng.choice([1, 2, 3, 3, 3])))]
    ops = [["bulk", n, rng.randint(1, 10 ** 6), sparse], ["collect"], ["mpl"], ["altair"], ["altairenc"],
           ["mplc", False], ["altairc", False], ["remove", rng.randint(1, n)], ["altairenc"], ["mpl"]]
    c = {"space": sp, "portrayal": pt, "layer": None, "ops": ops, "scale": True}
    v = {}
    if rng.random() < 0.5:
        v["np_scalars"] = True
    if rng.random() < 0.3:
        v["color_form"] = rng.choice([1, 2, 3])
    if rng.random() < 0.3:
        v["entry"] = rng.randint(1, 1000)
    if v:
        c["variant"] = v
    return c


def _gen_usercode_case(rng):
    """USER-CODE stream (implementation + oracle only): portrayals with side effects inside ordinary histories"""
    c = _gen_case(rng)
    sp = c["space"]
    ops = c["ops"]
    ids = sorted({o[1] for o in ops if o[0] == "place"}) or [1]
    out = []
    for o in ops:
        out.append(o)
        if o[0] in ("place", "move", "mpl", "collect") and rng.random() < 0.45:
            r = rng.random()
            x, y = _rand_addr(rng, sp)
            if r < 0.5:
                out.append(["ucmove", rng.randrange(3), rng.choice(ids), x, y])
            elif r < 0.75:
                out.append(["ucother", rng.randrange(3), rng.choice(ids), rng.choice(ids), x, y])
            else:
                out.append(["ucraise", rng.randrange(3), rng.choice(ids), rng.randrange(7)])
            out.append([rng.choice(["mpl", "collect", "altair"])])      # what happens NEXT must be exact
    c["ops"] = out
    c["usercode"] = True
    return c


SCALE_CLASSES = ["MultiGrid", "SingleGrid", "OrthogonalMooreGrid", "HexGrid", "HexMultiGrid", "ContinuousSpace", "NetworkGrid", "Network",
                 "OrthogonalMooreGrid1", "ContinuousSpaceExp", "VoronoiGrid"]


def gen_cases(rng, tier):
    _warm()
    cases = []
    # SCALE stream: a handful per quick run, crossing 256 / 512 / 1000 / 1024 / 2048 / 4096 agents
    for k in range(6 if tier == "quick" else 60):
        cases.append(_gen_scale_case(rng, SCALE_CLASSES[(k + rng.randrange(11)) % 11 if k >= 3 else k],
                                     rng.choice([1000, 1001, 1500, 2049]) if k < 3 else rng.choice(SCALE_SIZES)))
    classes = list(CLASSES)
    n = 1700 if tier == "quick" else 20000
    for i in range(n):
        cases.append(_gen_case(rng, classes[i % len(classes)] if i < 4 * len(classes) else None))
    for _ in range(70 if tier == "quick" else 1500):
        cases.append(_gen_usercode_case(rng))
    for _ in range(400 if tier == "quick" else 4000):
        cases.append(_gen_pure_case(rng, 12))
    # exhaustive small signatures x parameter subsets, checked AND really called (model-evaluated)
    keys = ["a", "kwargs", "options", "b"]
    subsets = [list(x) for r in range(len(keys) + 1) for x in itertools.combinations(keys, r)]
    uni = [[k, sg, ps] for sg in _sig_universe(1 if tier == "quick" else 2) for ps in subsets for k in ("check", "bind")]
    for i in range(0, len(uni), 40):
        c = _gen_pure_case(rng, 0)
        c["ops"] = uni[i:i + 40]
        cases.append(c)
    # default spring layout: oracle only
    for _ in range(20 if tier == "quick" else 200):
        c = _gen_case(rng, rng.choice(["NetworkGrid", "Network"]), 8)
        c["space"]["spring"] = True
        cases.append(c)
    return cases


def _sig_universe(max_params):
    """all valid signatures after self with <= max_params parameters over names a, kwargs, options"""
    names = ["a", "kwargs", "options"]
    out = []
    for k in range(max_params + 1):
        for ns in itertools.permutations(names, k):
            for kinds in itertools.product(KINDS, repeat=k):
                order = [KINDS.index(x) for x in kinds]
                if order != sorted(order) or kinds.count("VarPos") > 1 or kinds.count("VarKw") > 1:
                    continue
                for defs in itertools.product([False, True], repeat=k):
                    ok = True
                    seen = False
                    for kd, d in zip(kinds, defs):
                        if kd in ("VarPos", "VarKw") and d:
                            ok = False
                        if kd in ("PosOnly", "PosOrKw"):
                            if seen and not d:
                                ok = False
                            seen = seen or d
                    if ok:
                        out.append([[n, kd, d] for n, kd, d in zip(ns, kinds, defs)])
    return out


def enumerate_cases(tier, broken=False):
    """targeted sweep: (1) every signature with <= 2 parameters (3 thorough) over the names a / kwargs /
    options x every subset of {a, kwargs, options, b} as parameter dict; (2) every class x sizes <= 3x3
    x occupancy in {empty, one agent, two agents in one cell, agent in every cell} x all three back ends
    x default / full portrayal; (3) every class with a layer x sizes <= 3x3 x both layer modes."""
    _warm()
    import random

    rng = random.Random(20)
    sigs = _sig_universe(3 if tier == "thorough" else 2)
    keys = ["a", "kwargs", "options", "b"]
    subsets = [list(s) for r in range(len(keys) + 1) for s in itertools.combinations(keys, r)]
    ops = [[k, s, ps] for s in sigs for ps in subsets for k in ("check", "bind")]
    for s in _sig_universe(1):
        for ps in subsets[:8]:
            for tag in (0, 1, 2):
                ops.append(["creator", s, [[n, tag, 3] for n in ps]])
    for s in range(0, len(ops), 40):
        c = _gen_pure_case(rng, 0)
        c["ops"] = ops[s:s + 40]
        yield c
    lim = 3
    for cls, (fam, single, legacy, altair, has_layer) in CLASSES.items():
        shapes = [(w, h) for w in range(1, lim + 1) for h in range(1, lim + 1)] if fam in ("Orth", "Hex", "Cont") else [(0, 0), (1, 1)]
        for (w, h) in shapes:
            sp = _gen_space(rng, cls)
            if fam in ("Orth", "Hex", "Cont"):
                sp["w"], sp["h"] = w, h
            for pt in ([[None] * 4], [[7, 3, 2, 2], [None, 1, None, 0]]):
                addrs = _addresses(sp) or [(4 * sp["x0"], 4 * sp["y0"]), (4 * sp["x0"] + 1, 4 * sp["y0"] + 2)]
                draws = [["collect"], ["mpl"], ["altair"], ["mplc", False], ["altairc", False], ["altairenc"]]
                ops = list(draws)
                ops += [["place", 1, 0, *addrs[0]]] + draws
                ops += [["place", 2, 1, *addrs[0]]] + draws
                ops += [["remove", 1], ["remove", 2]]
                for i, a in enumerate(addrs):
                    ops.append(["place", 10 + i, i % 2, *a])
                ops += draws
                layer = None
                if has_layer:
                    layer = [[(3 * x + y) % 9 for y in range(h)] for x in range(w)]
                    ops += [["layer", False, None, None, 4], ["layer", True, None, None, 2],
                            ["setlayer", 0, h - 1, 8], ["layer", False, 1, 6, 4], ["layer", True, 1, 6, 4],
                            ["layer", False, 3, 3, 4, True], ["layer", True, 3, 3, 2, True], ["mplc", True], ["altairc", True]]
                yield {"space": dict(sp), "portrayal": pt, "layer": layer, "ops": ops}


# ------------------------------------------------------------------ implementation side
_STATE = {}


def _libs():
    if "ok" in _STATE:
        return _STATE
    import warnings

    import matplotlib

    matplotlib.use("Agg")
    import numpy as np
    from matplotlib.collections import PathCollection, PolyCollection
    from matplotlib.colors import to_rgba
    from matplotlib.figure import Figure
    from matplotlib.markers import MarkerStyle

    warnings.simplefilter("ignore")
    _STATE.update(np=np, Figure=Figure, PathCollection=PathCollection, PolyCollection=PolyCollection,
                  to_rgba=to_rgba)
    mp = []
    for m in MARKERS:
        ms = MarkerStyle(m)
        mp.append(ms.get_path().transformed(ms.get_transform()).vertices.copy())
    _STATE["marker_paths"] = mp
    _STATE["rgba"] = [to_rgba(c) for c in COLORS]
    _STATE["ok"] = True
    return _STATE


def _build_space(sp, model):
    import networkx as nx

    import mesa
    import mesa.discrete_space as ds
    import mesa.space as ms

    cls = sp["cls"]
    fam = CLASSES[cls][0]
    rnd = model.random
    if cls in ("SingleGrid", "MultiGrid", "HexSingleGrid", "HexMultiGrid"):
        return getattr(ms, cls)(sp["w"], sp["h"], False)
    if cls == "OrthogonalMooreGrid":
        return ds.OrthogonalMooreGrid((sp["w"], sp["h"]), torus=False, random=rnd)
    if cls == "OrthogonalMooreGrid1":
        return ds.OrthogonalMooreGrid((sp["w"], sp["h"]), torus=False, capacity=1, random=rnd)
    if cls == "OrthogonalVonNeumannGrid":
        return ds.OrthogonalVonNeumannGrid((sp["w"], sp["h"]), torus=False, random=rnd)
    if cls == "HexGrid":
        return ds.HexGrid((sp["w"], sp["h"]), torus=False, random=rnd)
    if fam == "Net":
        g = nx.Graph()
        g.add_nodes_from(range(len(sp["points"])))
        g.add_edges_from([tuple(e) for e in sp["edges"]])
        return ms.NetworkGrid(g) if cls == "NetworkGrid" else ds.Network(g, random=rnd)
    if cls == "ContinuousSpace":
        return ms.ContinuousSpace(sp["x0"] + sp["w"], sp["y0"] + sp["h"], False, sp["x0"], sp["y0"])
    if cls == "ContinuousSpaceExp":
        from mesa.experimental.continuous_space import ContinuousSpace as CSE

        return CSE([[sp["x0"], sp["x0"] + sp["w"]], [sp["y0"], sp["y0"] + sp["h"]]], torus=False, random=rnd)
    if cls == "VoronoiGrid":
        return ds.VoronoiGrid([list(p) for p in sp["points"]], random=rnd)
    raise ValueError(cls)


def _valid_addr(sp, x, y):
    fam = CLASSES[sp["cls"]][0]
    if fam in ("Orth", "Hex"):
        return 0 <= x < sp["w"] and 0 <= y < sp["h"]
    if fam in ("Net", "Voro"):
        return 0 <= x < len(sp["points"]) and y == 0
    return 4 * sp["x0"] <= x < 4 * (sp["x0"] + sp["w"]) and 4 * sp["y0"] <= y < 4 * (sp["y0"] + sp["h"])


def _extent(sp):
    fam = CLASSES[sp["cls"]][0]
    if fam in ("Orth", "Hex", "Cont"):
        return max(sp["w"], sp["h"])
    xs = [p[0] for p in sp["points"]]
    ys = [p[1] for p in sp["points"]]
    return max(max(xs) - min(xs), max(ys) - min(ys))


class _Bad(Exception):
    pass


def _near_int(v, what, tol=1e-6):
    r = round(float(v))
    if abs(float(v) - r) > tol:
        raise _Bad(f"{what}: {v!r} is not (close to) an integer in the expected unit")
    return int(r)


def _decode_xy(sp, x, y, raw=False):
    """drawing coordinates -> integers in the family's unit (see Model/Viz.v header)"""
    fam = CLASSES[sp["cls"]][0]
    if fam == "Hex" and not raw:
        return _near_int(x / (math.sqrt(3) / 2), "hex x"), _near_int(y / 0.5, "hex y")
    if fam == "Cont":
        return _near_int(x * 4, "x"), _near_int(y * 4, "y")
    return _near_int(x, "x"), _near_int(y, "y")


def _size_frac(s):
    f = Fraction(float(s)).limit_denominator(5000)
    if abs(float(f) - float(s)) > 1e-7 * max(1.0, abs(float(s))):
        raise _Bad(f"size {s!r} is not a small fraction")
    return f.numerator, f.denominator


def _color_idx(rgba):
    lib = _libs()
    for i, c in enumerate(lib["rgba"]):
        if all(abs(float(a) - float(b)) < 1e-6 for a, b in zip(rgba[:3], c[:3])):
            return i
    return -5


def _color_any(c):
    """palette index of a colour in any spelling (name, '#rrggbb', (r, g, b), (r, g, b, a), numpy row)"""
    if isinstance(c, str) and c in COLORS:
        return COLORS.index(c)
    try:
        return _color_idx(_libs()["to_rgba"](c if isinstance(c, str) else tuple(float(x) for x in c)))
    except Exception:  # noqa: BLE001
        return -5


def _marker_idx(path):
    lib = _libs()
    np = lib["np"]
    v = np.asarray(path.vertices)
    for i, mv in enumerate(lib["marker_paths"]):
        if mv.shape == v.shape and np.allclose(mv, v, atol=1e-9):
            return i
    return -5


def _rows_obs(rows):
    rows = sorted(rows)
    return [0, len(rows)] + [v for r in rows for v in r]


def _read_markers(ax, sp):
    lib = _libs()
    np = lib["np"]
    rows = []
    for coll in ax.collections:
        if type(coll) is not lib["PathCollection"]:
            continue
        offs = np.ma.getdata(coll.get_offsets())
        n = len(offs)
        if n == 0:
            continue
        sizes = np.asarray(coll.get_sizes())
        fcs = np.asarray(coll.get_facecolors())
        mi = _marker_idx(coll.get_paths()[0])
        z = _near_int(coll.get_zorder() * 4, "zorder (quarter units)")
        for i in range(n):
            x, y = _decode_xy(sp, offs[i][0], offs[i][1])
            sn, sd = _size_frac(sizes[i] if len(sizes) == n else sizes[0])
            ci = _color_idx(fcs[i] if len(fcs) == n else fcs[0])
            rows.append([x, y, sn, sd, ci, mi, z])
    return rows


def _read_collect(data, sp):
    lib = _libs()
    np = lib["np"]
    loc = np.asarray(data["loc"])
    n = len(data["s"])
    if not (len(loc) == len(data["c"]) == len(data["marker"]) == len(data["zorder"]) == n):
        raise _Bad("collect_agent_data columns have different lengths")
    rows = []
    fam = CLASSES[sp["cls"]][0]
    for i in range(n):
        if fam == "Net":
            x, y = _near_int(loc[i], "node"), 0
        else:
            x, y = _decode_xy(sp, loc[i][0], loc[i][1], raw=True)
        sn, sd = _size_frac(data["s"][i])
        ci = _color_any(data["c"][i])
        m = data["marker"][i]
        mi = MARKERS.index(m) if m in MARKERS else -5
        rows.append([x, y, sn, sd, ci, mi, _near_int(data["zorder"][i] * 4, "zorder (quarter units)")])
    return rows


def _expected_marks(sp, pt, shadow, drawn):
    """the statement: one row per agent in the space: location (drawing position if drawn), portrayal or default"""
    fam = CLASSES[sp["cls"]][0]
    m = _extent(sp)
    dflt = Fraction(32400, m * m) if m else None
    rows = []
    for aid, (kind, x, y) in shadow.items():
        if fam == "Voro":
            lx, ly = sp["points"][x]
        elif fam == "Net":
            lx, ly = (sp["points"][x] if drawn else (x, 0))
        elif fam == "Hex" and drawn:
            lx, ly = 2 * x + (1 if y % 2 == 0 else 0), 3 * y      # centre of hexagon (col x, row y) of the mesh
        else:
            lx, ly = x, y
        d = pt[kind] if kind < len(pt) else [None] * 4
        s = Fraction(d[0], 4) if d[0] is not None else dflt
        rows.append([lx, ly, s.numerator, s.denominator, d[1] if d[1] is not None else 0,
                     d[2] if d[2] is not None else 0, d[3] if d[3] is not None else 4])
    return sorted(rows)


def _expected_altair(sp, pt, shadow):
    rows = []
    for aid, (kind, x, y) in shadow.items():
        d = pt[kind] if kind < len(pt) else [None] * 4
        r = [x, y]
        for v in d:
            r += [0, 0] if v is None else [1, v]
        rows.append(r)
    return sorted(rows)


def _shown(fam, color_mode, lo, hi, a4, v):
    clip = lambda a, b, t: max(a, min(b, t))  # noqa: E731
    if fam == "Hex":
        return clip(0, hi - lo, v - lo) * a4 if color_mode else clip(lo, hi, v)
    return clip(0, 4 * (hi - lo), (v - lo) * a4) if color_mode else v


def _shown_degenerate(fam, color_mode, lo, v):
    """vmin == vmax: imshow gets the entries / nan, +-inf clipped; a degenerate Normalize maps everything to 0"""
    if fam == "Hex":
        return 0 if color_mode else lo
    if not color_mode:
        return v
    return 0      # as repaired (fixes/C20-11): a degenerate scale maps every cell to 0, like Normalize


def _make_sig_class(sig):
    parts = ["self"]
    last = None
    for n, k, d in sig:
        if last == "PosOnly" and k != "PosOnly":
            parts.append("/")
        if k == "KwOnly" and last not in ("KwOnly", "VarPos"):
            parts.append("*")
        if k == "VarPos":
            parts.append("*" + n)
        elif k == "VarKw":
            parts.append("**" + n)
        else:
            parts.append(n + ("=1" if d else ""))
        last = k
    if last == "PosOnly":
        parts.append("/")
    src = "class M:\n    def __init__(" + ", ".join(parts) + "):\n        self.ok = True\n"
    ns = {}
    exec(src, ns)  # noqa: S102
    return ns["M"], src


_MESSAGES = []


def _check_messages():
    """(literal beginning of the message, error code) of every ValueError of _check_model_params, re-read from the
    source under test by the T1 translator (codes come from WHERE the raise stands): rewording a message changes nothing"""
    if not _MESSAGES:
        import importlib.util
        import os

        path = os.path.join(os.path.dirname(os.path.dirname(os.path.abspath(__file__))), "tables", "viz_code.py")
        spec = importlib.util.spec_from_file_location("tables_viz_code_for_c20", path)
        m = importlib.util.module_from_spec(spec)
        spec.loader.exec_module(m)
        _MESSAGES.extend(m.check_messages() or [("requires the use of keyword arguments", E_VARARGS), ("Missing required model parameter", E_MISSING),
                                                 ("Invalid model parameter", E_INVALID), ("Positional-only model parameter", E_POSONLY)])
    return _MESSAGES


def _check_kind(e):
    s = str(e)
    best = None
    for prefix, code in _check_messages():
        if prefix and s.startswith(prefix) and (best is None or len(prefix) > len(best[0])):
            best = (prefix, code)
    return best[1] if best else 99


def run_impl(case):
    import inspect

    lib = _libs()
    np = lib["np"]
    import mesa
    from mesa.visualization.components.altair_components import _draw_grid
    from mesa.visualization.mpl_space_drawing import _get_hexmesh, collect_agent_data, draw_space
    from mesa.visualization.solara_viz import Slider, _check_model_params, split_model_params

    sp = case["space"]
    pt = case["portrayal"]
    cls = sp["cls"]
    fam, single, legacy, altair, has_layer = CLASSES[cls]
    model = mesa.Model(seed=1)
    space = _build_space(sp, model)
    spring = bool(sp.get("spring"))
    # agents without position: exist in the model, never placed
    from mesa.discrete_space import CellAgent

    for _ in range(2):
        (mesa.Agent if legacy else CellAgent)(model)

    layer = None
    ldata = None
    if case.get("layer") is not None and has_layer:
        ldata = [list(col) for col in case["layer"]]
        ldt = {"float": float, "bool": bool}.get((case.get("variant") or {}).get("layer_dtype"), int)
        if legacy:
            from mesa.space import PropertyLayer

            layer = PropertyLayer("L", sp["w"], sp["h"], ldt(0), dtype=ldt)
            space.add_property_layer(layer)
        else:
            from mesa.discrete_space import PropertyLayer

            layer = PropertyLayer("L", (sp["w"], sp["h"]), default_value=ldt(0), dtype=ldt)
            space.add_property_layer(layer)
        for x in range(sp["w"]):
            for y in range(sp["h"]):
                layer.data[x, y] = ldata[x][y]

    draw_count = [0]
    inf_layer = {}
    occupied_set = set() if any(o[0] == "bulk" for o in case["ops"]) else None
    if (case.get("variant") or {}).get("entry") is not None:
        import matplotlib.pyplot as plt

        plt.close("all")          # nothing left over from an earlier history of this worker
    layer_portrayals = {}     # settings -> the one propertylayer_portrayal dict a user would define once and reuse
    json_key = lambda v: repr(v)  # noqa: E731
    agents = {}      # id -> agent object (in the space)
    shadow = _Shadow()      # id -> (kind, x, y)   address as in the history
    shadow.npt = len(pt)

    shared = bool(case.get("shared_dict"))
    cache = {}       # kind -> the ONE dict object a caching portrayal returns for that kind

    variant = case.get("variant") or {}

    def num(v):
        v = _q(v)
        if variant.get("np_scalars"):
            v = np.float64(v) if isinstance(v, float) else np.int64(v)
        return v

    def colour(idx):
        form = variant.get("color_form", 0)
        if form == 0:
            return COLORS[idx]
        from matplotlib.colors import to_hex

        rgba = lib["rgba"][idx]
        if form == 4:
            form = idx % 4
            if form == 0:
                return COLORS[idx]
        return [None, to_hex(rgba), tuple(float(x) for x in rgba[:3]), tuple(float(x) for x in rgba)][form]

    def fresh_dict(k):
        d = pt[k] if k < len(pt) else [None] * 4
        out = {}
        if d[0] is not None:
            out["size"] = num(d[0])
        if d[1] is not None:
            out["color"] = colour(d[1])
        if d[2] is not None:
            out["marker"] = MARKERS[d[2]]
        if d[3] is not None:
            out["zorder"] = num(d[3])
        return out

    hook = [None]          # user code that runs inside the portrayal (usercode stream)

    def wrap(d):
        """what the portrayal hands back: a plain dict, a dict subclass, a read-only Mapping, an OrderedDict"""
        dk = variant.get("dict_kind", 0)
        if dk == 1:
            class Style(dict):
                pass

            return Style(d)
        if dk == 2:
            import types

            return types.MappingProxyType(d)
        if dk == 3:
            import collections

            return collections.OrderedDict(d)
        return d

    def base_portrayal(agent):
        if hook[0] is not None:
            hook[0](agent)
        if not shared:
            return wrap(fresh_dict(agent._vkind))
        if agent._vkind not in cache:
            cache[agent._vkind] = fresh_dict(agent._vkind)
        return cache[agent._vkind] if not variant.get("dict_kind") else wrap(cache[agent._vkind])

    class _Painter:
        def paint(self, agent):
            return base_portrayal(agent)

        def __call__(self, agent):
            return base_portrayal(agent)

    ck = variant.get("callable_kind", 0)
    if ck == 1:
        portrayal_fn = _Painter().paint                        # a bound method
    elif ck == 2:
        import functools

        portrayal_fn = functools.partial(lambda style, agent: base_portrayal(agent), "unused")
    elif ck == 3:
        portrayal_fn = _Painter()                              # a callable object
    else:
        portrayal_fn = base_portrayal

    def mutated(i, where):
        """a portrayal function may return the same dict object for many agents / calls; the drawing code must not change it"""
        bad = [k for k, d in cache.items() if d != fresh_dict(k)]
        if bad:
            k = bad[0]
            fail(f"C20/{where}/portrayal-dict-mutated", i,
                 f"{case['ops'][i]} on {cls}: the dict returned by agent_portrayal for kind {k} was {fresh_dict(k)} and is now {cache[k]} "
                 "(the caller's dict was modified; later agents / draws of a portrayal that reuses its dicts are shown with other values)")
            for k in bad:
                cache[k] = fresh_dict(k)
            return True
        return False

    def occupied(x, y):
        return any((sx, sy) == (x, y) for (_, sx, sy) in shadow.values())

    def put(agent, x, y, new):
        if cls in ("SingleGrid", "MultiGrid", "HexSingleGrid", "HexMultiGrid"):
            (space.place_agent if new else space.move_agent)(agent, (x, y))
        elif cls == "NetworkGrid":
            (space.place_agent if new else space.move_agent)(agent, x)
        elif cls == "ContinuousSpace":
            (space.place_agent if new else space.move_agent)(agent, (x / 4, y / 4))
        elif cls == "ContinuousSpaceExp":
            agent.position = np.array([x / 4, y / 4])
        elif fam in ("Net", "Voro"):
            agent.cell = space._cells[x]
        else:
            agent.cell = space._cells[(x, y)]

    def new_agent():
        if cls == "ContinuousSpaceExp":
            from mesa.experimental.continuous_space import ContinuousSpaceAgent

            return ContinuousSpaceAgent(space, model)
        base = mesa.Agent if legacy else CellAgent
        if variant.get("prop_agents") and legacy:
            class Tracked(base):
                """user subclass that keeps pos behind a property (the space ASSIGNS agent.pos)"""

                @property
                def pos(self):
                    return self.__dict__.get("_where")

                @pos.setter
                def pos(self, value):
                    self.__dict__["_where"] = value

            base = Tracked
        if variant.get("falsy"):
            # an agent that is a (currently empty) container, or defines its own truth value: `if agent:` is False
            class Household(base):
                def __len__(self):
                    return 0

            class Dormant(base):
                def __bool__(self):
                    return False

            return (Household if len(agents) % 2 == 0 else Dormant)(model)
        return base(model)

    def take_out(agent):
        if legacy:
            space.remove_agent(agent)
        elif cls == "ContinuousSpaceExp":
            agent.remove()
        else:
            agent.cell = None

    layout = None
    if fam == "Net" and not spring:
        layout = {i: (p[0], p[1]) for i, p in enumerate(sp["points"])}
    spring_pos = None

    def draw_kwargs():
        kw = {}
        if fam in ("Orth", "Hex", "Net", "Voro"):
            kw["draw_grid"] = bool(sp.get("draw_grid", True))
        if fam in ("Cont", "Voro"):
            kw = {}
        if layout is not None:
            kw["layout_alg"] = lambda g, **k: dict(layout)
        return kw

    def draw(layer_portrayal=None):
        if variant.get("raise_first") and shadow and hook[0] is None:
            # a draw abandoned half-way (user code raises) must leave nothing behind for the next one
            calls = []

            def broken(agent):
                calls.append(1)
                if len(calls) == len(shadow):
                    raise RuntimeError("portrayal failed")
                return portrayal_fn(agent)

            fig0 = lib["Figure"]()
            try:
                draw_space(space, broken, propertylayer_portrayal=layer_portrayal, ax=fig0.add_subplot(), **draw_kwargs())
            except RuntimeError:
                pass
        # every drawing entry point, with an explicit Axes and without one (pyplot creates the figure); figures stay
        # open until the end of the history, other figures / a current axes that already has artists may exist
        entry = variant.get("entry")
        mode = 0 if entry is None else (entry + draw_count[0]) % 4
        draw_count[0] += 1
        if layer_portrayal is not None:
            mode = mode % 2                      # layers are drawn through draw_space only
        if mode in (1, 3) and (entry + draw_count[0]) % 3 == 0:
            import matplotlib.pyplot as plt

            decoy = plt.figure().add_subplot()    # becomes the current axes and already holds a marker
            decoy.scatter([0.0], [0.0], s=9.0, c="tab:blue", marker="o", zorder=1)
        if mode in (0, 2):
            fig = lib["Figure"]()
            ax_arg = fig.add_subplot()
        else:
            ax_arg = None
        if mode in (0, 1):
            ax = draw_space(space, portrayal_fn, propertylayer_portrayal=layer_portrayal, ax=ax_arg, **draw_kwargs())
        else:
            import mesa.visualization.mpl_space_drawing as msd

            fn = {"Orth": msd.draw_orthogonal_grid, "Hex": msd.draw_hex_grid, "Net": msd.draw_network,
                  "Cont": msd.draw_continuous_space, "Voro": msd.draw_voronoi_grid}[fam]
            ax = fn(space, portrayal_fn, ax=ax_arg, **draw_kwargs())
        if ax is None or (ax_arg is not None and ax is not ax_arg):
            raise _Bad("the drawing function did not return the Axes it drew on")
        return ax

    def component(backend, dflt, i):
        """make_space_component(...)(model) rendered by Solara; returns what is handed to solara.Figure*"""
        import solara

        from mesa.visualization.components import make_space_component

        class _M:
            pass

        holder = _M()
        setattr(holder, "grid" if i % 2 == 0 else "space", space)     # both attribute names the components look up
        kw = draw_kwargs() if backend == "matplotlib" else {}
        comp = make_space_component(None if dflt else portrayal_fn, None, None, backend=backend, **kw)
        got = {}
        attr = "FigureMatplotlib" if backend == "matplotlib" else "FigureAltair"
        orig = getattr(solara, attr)
        setattr(solara, attr, lambda obj, *a, **k: got.setdefault("obj", obj))
        import logging

        logging.disable(logging.CRITICAL)      # Solara logs the traceback of a refusing component before re-raising
        try:
            @solara.component
            def _C():
                comp(holder)

            _, rc = solara.render(_C(), handle_error=False)
            rc.close()
        finally:
            logging.disable(logging.NOTSET)
            setattr(solara, attr, orig)
        return got.get("obj")

    def collect_obs():
        data = collect_agent_data(space, portrayal_fn, size=float((180 / _extent(sp)) ** 2) if _extent(sp) else 25)
        return _read_collect(data, sp)

    obs, failures = [], []

    def fail(key, i, what):
        failures.append({"key": key, "op": i, "what": what})

    def check_collect(i, rows):
        exp = _expected_marks(sp, pt, shadow, drawn=False)
        if mutated(i, "collect"):
            return
        if sorted(rows) != exp:
            fail("C20/collect/falsy-agent-dropped" if variant.get("falsy") and len(rows) < len(exp) else "C20/collect/markers-differ", i,
                 ("(some agents of this history have a False truth value: __len__() == 0 / __bool__() False) " if variant.get("falsy") else "") +
                 f"collect_agent_data on {cls} with agents {shadow} (id: kind, address) and portrayal table {pt} ([size*4, color, marker, zorder*4] per kind): rows "
                 f"[x,y,size_num,size_den,color,marker,zorder*4] {sorted(rows)}, one per agent as portrayed would be {exp}")

    for i, op in enumerate(case["ops"]):
        kind = op[0]
        try:
            if kind == "bulk":
                # SCALE stream: n agents placed at once (addresses from a seed), all of the key-less kind except a few
                _, n, rseed, sparse = op
                import random as _random

                r2 = _random.Random(rseed)
                kinds = dict((int(pos), int(k)) for pos, k in sparse)
                addrs = _addresses(sp)
                if addrs is None:
                    pool = None
                elif single:
                    pool = r2.sample(addrs, min(n, len(addrs)))
                else:
                    hot = addrs[r2.randrange(len(addrs))]          # one cell / node that holds hundreds of agents
                    pool = [hot if j < min(300, n // 3) else addrs[r2.randrange(len(addrs))] for j in range(n)]
                    r2.shuffle(pool)
                placed = 0
                for j in range(n if pool is None else len(pool)):
                    aid = len(shadow) + 1
                    while aid in shadow:
                        aid += 1
                    if pool is None:
                        x, y = r2.randrange(4 * sp["x0"], 4 * (sp["x0"] + sp["w"])), r2.randrange(4 * sp["y0"], 4 * (sp["y0"] + sp["h"]))
                    else:
                        x, y = pool[j]
                    if single and occupied_set is not None and (x, y) in occupied_set:
                        continue
                    a = new_agent()
                    a._vkind = kinds.get(j, len(pt))
                    put(a, x, y, True)
                    agents[aid] = a
                    shadow[aid] = (a._vkind, x, y)
                    if occupied_set is not None:
                        occupied_set.add((x, y))
                    placed += 1
                obs.append([0, placed])
                continue
            if kind in ("place", "move", "remove", "kind"):
                aid = op[1]
                if kind == "place":
                    _, _, k, x, y = op
                    if aid in shadow or not _valid_addr(sp, x, y) or (single and occupied(x, y)):
                        obs.append([-2])
                        continue
                    a = new_agent()
                    a._vkind = k
                    put(a, x, y, True)
                    agents[aid] = a
                    shadow[aid] = (k, x, y)
                elif kind == "move":
                    _, _, x, y = op
                    if aid not in shadow or not _valid_addr(sp, x, y) or (single and occupied(x, y)):
                        obs.append([-2])
                        continue
                    put(agents[aid], x, y, False)
                    shadow[aid] = (shadow[aid][0], x, y)
                elif kind == "remove":
                    if aid not in shadow:
                        obs.append([-2])
                        continue
                    take_out(agents.pop(aid))
                    del shadow[aid]
                else:
                    if aid not in shadow:
                        obs.append([-2])
                        continue
                    agents[aid]._vkind = op[2]
                    shadow[aid] = (op[2], shadow[aid][1], shadow[aid][2])
                rows = collect_obs()
                obs.append(_rows_obs(rows))
                check_collect(i, rows)
            elif kind == "copy":
                # from here on the history continues on a COPY of the model / space (deepcopy or pickle round trip): agents are
                # added, removed and moved on the copy and both back ends must draw exactly the agents currently in it
                import copy
                import pickle

                bundle = (model, space, dict(agents), layer, dict(inf_layer))
                new = None
                if op[1] == 1 and not (variant.get("falsy") or variant.get("prop_agents")):
                    try:
                        new = pickle.loads(pickle.dumps(bundle))
                    except (pickle.PicklingError, AttributeError, TypeError):
                        new = None            # something of the harness itself is not picklable: use deepcopy
                if new is None:
                    new = copy.deepcopy(bundle)
                model, space, a2, layer, i2 = new
                agents.clear()
                agents.update(a2)
                inf_layer.clear()
                inf_layer.update(i2)
                rows = collect_obs()
                obs.append(_rows_obs(rows))
                check_collect(i, rows)
            elif kind == "setlayer":
                _, x, y, v = op
                if layer is None or not (0 <= x < sp["w"] and 0 <= y < sp["h"]):
                    obs.append([-2])
                    continue
                layer.data[x, y] = v
                ldata[x][y] = v
                obs.append([0])
            elif kind == "collect":
                rows = collect_obs()
                obs.append(_rows_obs(rows))
                check_collect(i, rows)
            elif kind == "mpl":
                try:
                    ax = draw()
                except Exception as e:  # noqa: BLE001
                    if fam == "Net" and not sp["edges"] and isinstance(e, AttributeError) and sp.get("draw_grid", True):
                        obs.append([-1, 99])
                        fail("C20/mpl/Net/edgeless-graph-raises", i,
                             f"draw_space({cls} with {len(sp['points'])} nodes and no edges, portrayal) raised {type(e).__name__}: {e}")
                        continue
                    if not shadow:
                        obs.append([-1, 99])
                        fail("C20/mpl/empty-space-raises", i,
                             f"draw_space({cls} {_dims(sp)}, portrayal) with no agents in the space raised {type(e).__name__}: {e}; "
                             "the empty occupancy state requires zero markers")
                        continue
                    raise
                if spring:
                    dirty = mutated(i, "collect")
                    rows = _read_markers_spring(ax, sp, space, shadow, pt, i, (lambda *a: None) if dirty else fail)
                    obs.append(_rows_obs(rows))
                    continue
                rows = _read_markers(ax, sp)
                obs.append(_rows_obs(rows))
                exp = _expected_marks(sp, pt, shadow, drawn=True)
                if mutated(i, "collect"):
                    pass
                elif sorted(rows) != exp:
                    fail("C20/mpl/falsy-agent-dropped" if variant.get("falsy") and len(rows) < len(exp) else f"C20/mpl/{fam}/markers-differ", i,
                         ("(some agents of this history have a False truth value: __len__() == 0 / __bool__() False) " if variant.get("falsy") else "") +
                         f"draw_space on {cls} {_dims(sp)} with agents {shadow} (id: kind, address), portrayal table {pt} ([size*4, color, marker, zorder*4] per kind): markers read back from "
                         f"ax.collections [x,y,size_num,size_den,color,marker,zorder*4] {sorted(rows)}; exactly one per agent at its location as portrayed is {exp}")
                if fam == "Hex":
                    # the drawn mesh: hexagon (row, col) of _get_hexmesh must be centred where the oracle expects it
                    hexes = _get_hexmesh(sp["w"], sp["h"])
                    for idx, verts in enumerate(hexes):
                        row, col = divmod(idx, sp["w"])
                        c = np.asarray(verts).mean(axis=0)
                        got = _decode_xy(sp, c[0], c[1])
                        if got != (2 * col + (1 if row % 2 == 0 else 0), 3 * row):
                            fail("C20/mpl/Hex/mesh-centre", i, f"_get_hexmesh({sp['w']},{sp['h']}) hexagon row {row} col {col} is centred at {got}")
                            break
            elif kind == "altair":
                try:
                    chart = _draw_grid(space, portrayal_fn)
                except NotImplementedError:
                    obs.append([-1, E_NOT_IMPLEMENTED])
                    if altair != 0:
                        fail(f"C20/altair/{fam}/unsupported", i, f"_draw_grid refuses {cls}")
                    continue
                except Exception as e:  # noqa: BLE001
                    if not shadow and altair != 0:
                        obs.append([-1, 99])
                        fail("C20/altair/empty-space-raises", i,
                             f"altair _draw_grid({cls} {_dims(sp)}, portrayal) with no agents in the space raised {type(e).__name__}: {e}; "
                             "the empty occupancy state requires a chart with zero rows")
                        continue
                    raise
                vals = chart.data.values
                rows = []
                for d in vals:
                    x, y = _decode_xy(sp, d["x"], d["y"], raw=True)
                    r = [x, y]
                    r += [1, _near_int(d["size"] * 4, "size (quarter units)")] if "size" in d else [0, 0]
                    r += [1, _color_any(d["color"])] if "color" in d else [0, 0]
                    r += [1, MARKERS.index(d["marker"]) if d["marker"] in MARKERS else -5] if "marker" in d else [0, 0]
                    r += [1, _near_int(d["zorder"] * 4, "zorder (quarter units)")] if "zorder" in d else [0, 0]
                    extra = set(d) - {"x", "y", "size", "color", "marker", "zorder"}
                    if extra:
                        raise _Bad(f"chart row has fields nobody portrayed: {sorted(extra)}")
                    rows.append(r)
                obs.append(_rows_obs(rows))
                exp = _expected_altair(sp, pt, shadow)
                if mutated(i, "altair"):
                    pass
                elif sorted(rows) != exp:
                    fail("C20/altair/falsy-agent-dropped" if variant.get("falsy") and len(rows) < len(exp) else f"C20/altair/{fam}/rows-differ", i,
                         ("(some agents of this history have a False truth value: __len__() == 0 / __bool__() False) " if variant.get("falsy") else "") +
                         f"altair _draw_grid on {cls} {_dims(sp)} with agents {shadow}, portrayal table {pt} ([size*4, color, marker, zorder*4] per kind): chart.data.values rows "
                         f"[x,y,(has,value) for size,color,marker,zorder] {sorted(rows)}; one per agent at its location as portrayed is {exp}")
            elif kind in ("mplc", "altairc"):
                dflt = bool(op[1])
                ept = [] if dflt else pt
                if kind == "mplc":
                    if spring:
                        obs.append([-2])
                        continue
                    fig = component("matplotlib", dflt, i)
                    dirty = mutated(i, "collect")
                    rows = _read_markers(fig.axes[0], sp)
                    obs.append(_rows_obs(rows))
                    exp = _expected_marks(sp, ept, shadow, drawn=True)
                    if not dirty and sorted(rows) != exp:
                        fail("C20/component/mpl/markers-differ", i,
                             f"make_space_component(backend='matplotlib'{', no agent_portrayal' if dflt else ''})(model) on {cls} {_dims(sp)} with agents {shadow}, "
                             f"portrayal table {ept}: markers of the Figure handed to Solara {sorted(rows)}; one per agent as portrayed is {exp}")
                else:
                    try:
                        chart = component("altair", dflt, i)
                    except NotImplementedError:
                        obs.append([-1, E_NOT_IMPLEMENTED])
                        if altair != 0:
                            fail(f"C20/altair/{fam}/unsupported", i, f"SpaceAltair refuses {cls}")
                        continue
                    dirty = mutated(i, "altair")
                    rows = []
                    ids = []
                    for d in chart.data.values:
                        x, y = _decode_xy(sp, d["x"], d["y"], raw=True)
                        r = [x, y]
                        r += [1, _near_int(d["size"] * 4, "size (quarter units)")] if "size" in d else [0, 0]
                        r += [1, _color_any(d["color"])] if "color" in d else [0, 0]
                        r += [1, MARKERS.index(d["marker"]) if d["marker"] in MARKERS else -5] if "marker" in d else [0, 0]
                        r += [1, _near_int(d["zorder"] * 4, "zorder (quarter units)")] if "zorder" in d else [0, 0]
                        extra = set(d) - {"x", "y", "size", "color", "marker", "zorder"} - ({"id"} if dflt else set())
                        if extra:
                            raise _Bad(f"chart row has fields nobody portrayed: {sorted(extra)}")
                        if dflt:
                            ids.append(d.get("id"))
                        rows.append(r)
                    obs.append(_rows_obs(rows))
                    exp = _expected_altair(sp, ept, shadow)
                    if not dirty and (sorted(rows) != exp or len(set(ids)) != len(ids)):
                        fail("C20/altair/falsy-agent-dropped" if (variant.get("falsy") and single and legacy and len(rows) < len(exp)) else "C20/component/altair/rows-differ", i,
                             f"make_space_component(backend='altair'{', no agent_portrayal' if dflt else ''})(model) on {cls} {_dims(sp)} with agents {shadow}, "
                             f"portrayal table {ept}: rows of the Chart handed to Solara {sorted(rows)} (ids {ids}); one per agent is {exp}")
            elif kind == "altairenc":
                import altair as alt

                try:
                    chart = _draw_grid(space, portrayal_fn)
                except NotImplementedError:
                    obs.append([-1, E_NOT_IMPLEMENTED])
                    continue
                mutated(i, "altair")
                enc = chart.encoding
                hc = 0 if enc.color is alt.Undefined else 1
                hs = 0 if enc.size is alt.Undefined else 1
                tips = [t.shorthand for t in (enc.tooltip if enc.tooltip is not alt.Undefined else [])]
                other = set(tips) - {"marker", "zorder"}
                if other:
                    raise _Bad(f"tooltips nobody portrayed: {sorted(other)}")
                msz = getattr(chart.mark, "size", alt.Undefined)
                sn, sd = (0, 1) if msz is alt.Undefined else _size_frac(msz)
                o = [0, hc, hs, int("marker" in tips), int("zorder" in tips), sn, sd]
                obs.append(o)
                # the statement side: every agent shown with the colour / size ITS portrayal returned
                flags = [[int((pt[k] if k < len(pt) else [None] * 4)[j] is not None) for j in (1, 0, 2, 3)] for (k, _, _) in shadow.values()]
                anyc = max([f[0] for f in flags] or [0])
                anys = max([f[1] for f in flags] or [0])
                anyt = [max([f[2] for f in flags] or [0]), max([f[3] for f in flags] or [0])]
                if o[3:5] != anyt and [hc, hs] == [anyc, anys]:
                    fail("C20/altair/encoding/portrayed-keys-not-encoded", i,
                         f"_draw_grid on {cls} with agents {shadow}, portrayal table {pt}: tooltip fields marker / zorder {o[3:5]}, "
                         f"some agent's portrayal returns them: {anyt}")
                flags = [f[:2] for f in flags]
                if [hc, hs] != [anyc, anys]:
                    uniform = all(f == flags[0] for f in flags)
                    key = ("C20/altair/encoding/later-agents-keys-not-encoded" if (not uniform and hc <= anyc and hs <= anys)
                           else "C20/altair/encoding/portrayed-keys-not-encoded")
                    if variant.get("falsy") and single and legacy and len(chart.data.values) < len(shadow):
                        key = "C20/altair/falsy-agent-dropped"       # the agent is missing from the chart altogether
                    fail(key, i,
                         f"_draw_grid on {cls} with agents {shadow} (id: kind, address), portrayal table {pt}: some agent's portrayal returns "
                         f"a colour / size: {[anyc, anys]}, but the chart has colour / size encodings {[hc, hs]} "
                         "(an agent is not shown with the colour / size its portrayal returned)")
                m = min(sp["w"], sp["h"])
                if not hs and (sn, sd) != _size_frac(30000 / m ** 2):
                    fail("C20/altair/encoding/default-mark-size", i, f"default mark size {sn}/{sd} on a {sp['w']}x{sp['h']} space")
            elif kind in ("ucmove", "ucother", "ucraise"):
                # USER CODE inside the portrayal: it moves the portrayed agent / another agent / raises.  The drawing data must
                # describe the space as it is when the call returns (implementation + oracle only)
                how = op[1]
                aid = op[2]
                if aid not in shadow or spring:
                    obs.append([-2])
                    continue
                names = ["collect", "mpl", "component"]
                EXC = [RuntimeError, StopIteration, KeyError, IndexError, AttributeError, TypeError, ValueError]

                def run_entry():
                    if how == 0:
                        return collect_obs(), False
                    if how == 1:
                        return _read_markers(draw(), sp), True
                    return _read_markers(component("matplotlib", False, i).axes[0], sp), True

                fired = []
                if kind == "ucraise":
                    exc = EXC[op[3] % len(EXC)]

                    def h(agent, exc=exc):
                        if agent is agents.get(aid) and not fired:
                            fired.append(1)
                            raise exc("portrayal failed")

                    hook[0] = h
                    try:
                        run_entry()
                        obs.append([-1, 99])
                        fail(f"C20/usercode/{names[how]}/exception-swallowed", i, f"the portrayal raised {exc.__name__} for agent {aid}; the drawing call returned normally")
                    except exc:
                        obs.append([-1, 7])
                    finally:
                        hook[0] = None
                    continue
                target = aid if kind == "ucmove" else op[3]
                x, y = (op[3], op[4]) if kind == "ucmove" else (op[4], op[5])
                if target not in shadow or not _valid_addr(sp, x, y) or (single and occupied(x, y)) or (kind == "ucother" and target == aid):
                    obs.append([-2])
                    continue
                old = dict(shadow)

                def h(agent):
                    if agent is agents.get(aid) and not fired:
                        fired.append(1)
                        put(agents[target], x, y, False)
                        shadow[target] = (shadow[target][0], x, y)

                hook[0] = h
                try:
                    rows, drawn = run_entry()
                finally:
                    hook[0] = None
                mutated(i, "collect")
                obs.append(_rows_obs(rows))
                exp_new = _expected_marks(sp, pt, shadow, drawn=drawn)
                ok = sorted(rows) == exp_new
                if not ok and kind == "ucother":
                    # another agent was moved: it may already have been visited - its marker is at the old or the new location
                    o2 = _Shadow(shadow)
                    o2[target] = old[target]
                    ok = sorted(rows) == _expected_marks(sp, pt, o2, drawn=drawn)
                if not ok:
                    fail(f"C20/usercode/{names[how]}/marker-not-at-current-location", i,
                         f"{names[how]} on {cls} {_dims(sp)}: the portrayal of agent {aid} moved agent {target} from {old[target][1:]} to {(x, y)} "
                         f"(a deferred move settled when the agent is looked at); when the call returns the space holds {shadow} but the markers are "
                         f"{sorted(rows)}; one marker per agent at its CURRENT location is {exp_new}")
            elif kind == "inflayer":
                # a second, float layer that is constantly +inf / -inf, drawn with the default or the explicit scale
                _, cm, neg, explicit = op
                if layer is None:
                    obs.append([-2])
                    continue
                val = -math.inf if neg else math.inf
                if "I" not in inf_layer:
                    if legacy:
                        from mesa.space import PropertyLayer as PL

                        inf_layer["I"] = PL("I", sp["w"], sp["h"], 0.0, dtype=float)
                    else:
                        from mesa.discrete_space import PropertyLayer as PL

                        inf_layer["I"] = PL("I", (sp["w"], sp["h"]), default_value=0.0, dtype=float)
                    space.add_property_layer(inf_layer["I"])
                inf_layer["I"].data[:] = val
                lp = {"colorbar": False}
                lp["color" if cm else "colormap"] = "red" if cm else "viridis"
                if explicit:
                    lp["vmin"] = lp["vmax"] = val
                ax = draw({"I": lp})
                INF = 1000000007

                def code(a):
                    a = float(a)
                    return -7 if a != a else (0 if a == 0 else (INF if a == math.inf else (-INF if a == -math.inf else -6)))

                codes = []
                w, h = sp["w"], sp["h"]
                if fam == "Hex":
                    polys = [c for c in ax.collections if type(c) is lib["PolyCollection"]]
                    fcs = np.asarray(polys[-1].get_facecolors()) if polys else []
                    if len(fcs) != w * h:
                        raise _Bad(f"{len(fcs)} hexagon colours for {w * h} cells")
                    import matplotlib.pyplot as plt

                    base = plt.get_cmap("viridis")(0.0)
                    for fc in fcs:
                        if cm:
                            codes.append(code(fc[3]))
                        else:
                            codes.append(-7 if any(float(x) != float(x) for x in fc) else (0 if all(abs(float(a) - float(b)) < 1e-6 for a, b in zip(fc[:3], base[:3])) else -6))
                else:
                    if not ax.images:
                        raise _Bad("no image drawn")
                    arr = np.ma.getdata(ax.images[-1].get_array())
                    if arr.shape[:2] != (h, w):
                        raise _Bad(f"image shape {arr.shape}")
                    for r in range(h):
                        for c2 in range(w):
                            codes.append(code(arr[r, c2, 3] if cm else arr[r, c2]))
                obs.append([0, h, w] + codes)
                want = 0 if (cm or fam == "Hex") else (-INF if neg else INF)
                if any(c != want for c in codes):
                    fail("C20/layer/constant-inf-layer-alpha-not-zero" if cm else "C20/layer/constant-inf-layer-data", i,
                         f"draw_property_layers on {cls} {w}x{h}, {'color' if cm else 'colormap'} mode, a layer that is constantly {val} "
                         f"({'explicit vmin = vmax = ' + str(val) if explicit else 'default scale'}): per cell "
                         f"{'alpha channel' if cm else 'value handed to Matplotlib'} codes {codes} (0: zero / cmap(0), -7: NaN, +-{INF}: +-inf, -6: other); "
                         f"a constant layer must give {want} everywhere (as Normalize does)")
            elif kind == "layer":
                _, cm, vmin, vmax, a4 = op[:5]
                cbar = bool(op[5]) if len(op) > 5 else False
                if layer is None:
                    obs.append([-2])
                    continue
                flat = [v for col in ldata for v in col]
                lo = vmin if vmin is not None else min(flat)
                hi = vmax if vmax is not None else max(flat)
                if hi < lo:
                    obs.append([-2])
                    continue
                def fresh_lp():
                    d = {"colorbar": cbar, "alpha": a4 / 4}
                    if cm:
                        d["color"] = "red"
                    else:
                        d["colormap"] = "viridis"
                    if vmin is not None:
                        d["vmin"] = vmin
                    if vmax is not None:
                        d["vmax"] = vmax
                    return d

                # the SAME portrayal dict objects are handed over on every redraw with these settings, as SolaraViz does
                lkey = json_key([cm, vmin, vmax, a4, cbar])
                if lkey not in layer_portrayals:
                    layer_portrayals[lkey] = {"L": fresh_lp()}
                lpd = layer_portrayals[lkey]
                try:
                    ax = draw(lpd)
                except IndexError as e:
                    if not shadow:
                        obs.append([-1, 99])
                        fail("C20/mpl/empty-space-raises", i,
                             f"draw_space({cls} {_dims(sp)}, portrayal, propertylayer_portrayal) with no agents in the space raised {type(e).__name__}: {e}")
                        continue
                    raise
                mutated(i, "collect")
                if lpd != {"L": fresh_lp()}:
                    fail("C20/layer/portrayal-dict-mutated", i,
                         f"draw_space(..., propertylayer_portrayal=p) on {cls}: p was {{'L': {fresh_lp()}}} and is now {lpd} "
                         "(the caller's dict was modified; the next redraw with the same dict is not drawn from the layer's current values / range)")
                    layer_portrayals.pop(lkey)
                view, how = _read_layer(ax, sp, cm, lo, hi, a4)
                if fam != "Hex" and not cm and hi != lo and ax.images:
                    view = view + [_near_int(v, "imshow colour limit") for v in ax.images[-1].get_clim()]
                # the colour bar: a second axes whose scale is Normalize(vmin, vmax) (half units; Matplotlib widens a singular scale)
                cb = [0]
                if cbar:
                    cax = [x for x in ax.figure.axes if x is not ax]
                    cb = [len(cax)] + ([_near_int(2 * v, "colorbar limit") for v in cax[-1].get_ylim()] if cax and hi != lo else [])
                obs.append([0, sp["h"], sp["w"]] + view + cb)
                if cbar and cb != [1] + ([] if hi == lo else [2 * lo, 2 * hi]):
                    fail(f"C20/layer/colorbar-scale", i, f"draw_property_layers with colorbar=True, vmin={vmin}, vmax={vmax} on data range [{min(flat)}, {max(flat)}]: "
                         f"colour bar axes / limits (x2) {cb}")
                exp = [(_shown_degenerate(fam, cm, lo, ldata[x][y]) if hi == lo else _shown(fam, cm, lo, hi, a4, ldata[x][y]))
                       for y in range(sp["h"]) for x in range(sp["w"])]
                if fam != "Hex" and not cm and hi != lo:
                    exp = exp + [lo, hi]         # the colour scale handed to imshow is the current (default or given) one
                if hi == lo and cm and fam != "Hex" and how == "image" and view != exp:
                    fail("C20/layer/Orth/constant-layer-color-mode-nan", i,
                         f"draw_property_layers on {cls} {sp['w']}x{sp['h']}, color mode, vmin={vmin}, vmax={vmax}, layer.data[x][y] = {ldata} "
                         f"(scale [{lo}, {hi}] is degenerate): the alpha channel handed to imshow (x4; NaN = -7) is {view}, i.e. 0/0 and x/0; "
                         "a degenerate scale - every constant layer under the default vmin / vmax - divides by zero")
                elif view != exp:
                    key = f"C20/layer/{fam}/wrong-cell-values"
                    if fam == "Hex" and how == "image":
                        key = "C20/layer/Hex/drawn-as-rectangular-image"
                    fail(key, i,
                         f"draw_property_layers on {cls} {sp['w']}x{sp['h']} ({'color' if cm else 'colormap'} mode, vmin={vmin}, vmax={vmax}, alpha={a4}/4), "
                         f"layer.data[x][y] = {ldata}: value shown at the drawing position of each cell, rows y=0.. first: {view} "
                         f"(-9: nothing drawn there; found {how}); the layer's current values in the grid's orientation give {exp}")
            elif kind == "check":
                _, sig, ps = op
                M, src = _make_sig_class(sig)
                params = {n: 1 for n in ps}
                # reference: Python's own keyword binding
                # (inspect.Signature.bind of this Python refuses a keyword that names a positional-only
                #  parameter even when **kw would take it, so the call itself is the reference and bind is
                #  only consulted where the two cannot differ)
                s = inspect.signature(M.__init__)
                try:
                    M(**params)
                    callable_ = True
                except TypeError:
                    callable_ = False
                if not any(p.kind == inspect.Parameter.POSITIONAL_ONLY for p in list(s.parameters.values())[1:]):
                    try:
                        s.bind(object(), **params)
                        bound = True
                    except TypeError:
                        bound = False
                    if bound != callable_:
                        raise _Bad(f"inspect.bind and the call disagree for {src} {params}")
                has_varpos = any(p.kind == inspect.Parameter.VAR_POSITIONAL for p in s.parameters.values())
                must_accept = callable_ and not has_varpos
                try:
                    _check_model_params(M.__init__, params)
                    obs.append([0])
                    accepted = True
                except ValueError as e:
                    obs.append([-1, _check_kind(e)])
                    accepted = False
                sigtxt = src.splitlines()[1].strip()
                if accepted and not must_accept:
                    fail("C20/check_model_params/uncallable-accepted", i,
                         f"_check_model_params accepts {sorted(params)} for `{sigtxt}` although M(**params) raises TypeError"
                         + (" / has *args" if has_varpos else ""))
                if not accepted and must_accept:
                    fail("C20/check_model_params/callable-refused", i,
                         f"_check_model_params refuses {sorted(params)} for `{sigtxt}` (error kind {obs[-1][1]}) although M(**params) is a valid keyword call")
            elif kind == "bind":
                # Python's own verdict on the keyword call: ties Viz.bindable to CPython directly
                _, sig, ps = op
                M, src = _make_sig_class(sig)
                try:
                    M(**{n: 1 for n in ps})
                    obs.append([1])
                except TypeError:
                    obs.append([0])
            elif kind == "creator":
                import solara

                from mesa.visualization.solara_viz import ModelCreator

                _, sig, items = op
                M, src = _make_sig_class(sig)
                params = _param_dict(items, Slider, widgets=True)
                names = {n: 1 for n in params}
                try:
                    M(**names)
                    callable_ = True
                except TypeError:
                    callable_ = False
                has_varpos = any(k == "VarPos" for _, k, _ in sig)
                must_accept = callable_ and not has_varpos
                inst = object.__new__(M)

                mp = solara.reactive({})

                @solara.component
                def _T(inst=inst, params=params, mp=mp):
                    ModelCreator(solara.reactive(inst), params, model_parameters=mp)

                try:
                    _, rc = solara.render(_T(), handle_error=False)
                    rc.close()
                    # the keyword arguments the model will be (re)created with
                    kw = mp.value
                    krows = []
                    for n, val in kw.items():
                        krows.append([NAMES.index(n), _decode_value(val["value"] if isinstance(val, dict) else val)])
                    obs.append(_rows_obs(krows))
                    accepted = True
                    exp = sorted([NAMES.index(n), _payload(t, v)] for n, t, v in items)
                    if sorted(krows) != exp:
                        fail("C20/ModelCreator/kwargs-differ", i,
                             f"ModelCreator with user_params {_show(items)} (payloads {[v for _, _, v in items]}) sets model_parameters to "
                             f"[name, value] {sorted(krows)}; the fixed values and the initial values of the adjustable ones are {exp}")
                except ValueError as e:
                    k = _check_kind(e)
                    if k == 99:
                        raise
                    obs.append([-1, k])
                    accepted = False
                sigtxt = src.splitlines()[1].strip()
                if accepted and not must_accept:
                    fail("C20/ModelCreator/uncallable-accepted", i,
                         f"ModelCreator's parameter check accepts user_params {_show(items)} for `{sigtxt}` although M(**values) raises TypeError"
                         + (" / has *args" if has_varpos else ""))
                if not accepted and must_accept:
                    fail("C20/ModelCreator/callable-refused", i,
                         f"ModelCreator's parameter check refuses user_params {_show(items)} for `{sigtxt}` (error kind {obs[-1][1]}) although "
                         f"M(**{{name: value}}) with the fixed values and the initial values of the adjustable ones is a valid keyword call")
            elif kind == "split":
                items = op[1]
                params = _param_dict(items, Slider)
                inp, fixed = split_model_params(params)

                def rows_of(d):
                    out = []
                    for n, val in d.items():
                        if isinstance(val, Slider):
                            out.append([NAMES.index(n), 1, _decode_value(val.value)])
                        elif isinstance(val, dict):
                            out.append([NAMES.index(n), 2 if "type" in val else 3, _decode_value(val["value"])])
                        else:
                            out.append([NAMES.index(n), 0, _decode_value(val)])
                    return out

                ri, rf = rows_of(inp), rows_of(fixed)
                obs.append([0, len(ri), len(rf)] + [v for r in ri + rf for v in r])
                for n, val in params.items():
                    if (n in inp and inp[n] is val) == (n in fixed and fixed[n] is val):
                        fail("C20/split_model_params/lost-or-duplicated", i, f"split_model_params({params}): key {n} is in "
                             f"{'both' if n in inp else 'neither'} of input={list(inp)} fixed={list(fixed)}")
                if set(inp) | set(fixed) != set(params):
                    fail("C20/split_model_params/lost-or-duplicated", i, f"split_model_params({params}) invented keys")
                for r in ri:
                    if r[1] not in (1, 2):
                        fail("C20/split_model_params/misclassified", i, f"fixed value {NAMES[r[0]]} reported as user-adjustable")
                for r in rf:
                    if r[1] in (1, 2):
                        fail("C20/split_model_params/misclassified", i, f"user-adjustable {NAMES[r[0]]} reported as fixed")
            else:
                raise ValueError(kind)
        except _Bad as e:
            obs.append([-1, 98])
            fail(f"C20/{kind}/undecodable-data", i, f"{op} on {cls}: {e}")
        except Exception as e:  # noqa: BLE001
            import traceback

            obs.append([-1, 99])
            if isinstance(e, ValueError) and variant.get("color_form") in (2, 3, 4) and kind in ("place", "move", "remove", "kind", "collect", "mpl", "mplc", "layer"):
                fail("C20/collect/mixed-color-spellings-raise", i,
                     f"{op} on {cls} with agents {shadow}, portrayal table {pt}, colours given as RGB(A) tuples for some agents and as names "
                     f"(or the default name) for others: collect_agent_data raised {type(e).__name__}: {e}")
                continue
            fail(f"C20/{kind}/unexpected-exception" if kind in ("check", "split", "creator", "bind") else f"C20/{kind}/{fam}/unexpected-exception", i,
                 f"{op} on {cls} {_dims(sp)} with agents {shadow} raised {type(e).__name__}: {e} :: {traceback.format_exc()[-600:]}")
    if variant.get("entry") is not None:
        import matplotlib.pyplot as plt

        plt.close("all")
    return {"obs": obs, "failures": failures,
            "model": not spring and occupied_set is None and not any(o[0].startswith("uc") for o in case["ops"])}


TAG_CLASS = {0: 0, 1: 1, 2: 2, 3: 3, 4: 2, 5: 2, 6: 2, 7: 2, 8: 0, 9: 1, 10: 0, 11: 0, 12: 0}     # tag -> fixed / Slider / dict with type / dict without
TAG_NAME = {0: "fixed int", 1: "Slider", 2: "dict(type=SliderInt)", 3: "dict without type", 4: "dict(type=SliderFloat)",
            5: "dict(type=Select)", 6: "dict(type=Checkbox)", 7: "dict(type=InputText)", 8: "fixed str", 9: "Slider(float)",
            10: "fixed None", 11: "fixed tuple", 12: "fixed numpy int"}


def _encode_value(tag, v):
    """the Python value carrying the integer payload v in a model_params entry of that form"""
    if tag in (0, 1, 2, 3, 5):
        return v
    if tag == 10:
        return None
    if tag == 11:
        return (v,)
    if tag == 12:
        import numpy as np

        return np.int64(v)
    if tag in (4, 9):
        return v / 2
    if tag == 6:
        return bool(v % 2)
    return str(v)


def _decode_value(val):
    if val is None:
        return 0
    if isinstance(val, tuple) and len(val) == 1:
        return val[0]
    if type(val).__module__ == "numpy":
        val = val.item()
    if isinstance(val, bool):
        return int(val)
    if isinstance(val, float):
        return _near_int(val * 2, "float value")
    if isinstance(val, str):
        return int(val)
    if not isinstance(val, int):
        raise _Bad(f"value {val!r} is none of the values given")
    return val


def _param_dict(items, Slider, widgets=False):
    """[name, tag, payload] -> model_params dict, every form the Solara front end accepts:
    fixed values (int, str), Slider objects (int / float), option dicts of the five input types, dict without "type" """
    params = {}
    for n, tag, v in items:
        val = _encode_value(tag, v)
        if tag in (0, 8, 10, 11, 12):
            params[n] = val
        elif tag == 1:
            params[n] = Slider(n, value=val, min=0, max=100)
        elif tag == 9:
            params[n] = Slider(n, value=val, min=0, max=100, step=0.5)
        elif tag == 2:
            params[n] = {"type": "SliderInt", "value": val, "min": 0, "max": 100, "step": 1}
        elif tag == 4:
            params[n] = {"type": "SliderFloat", "value": val, "min": 0, "max": 100, "step": 0.5}
        elif tag == 5:
            params[n] = {"type": "Select", "value": val, "values": [val, val + 1]}
        elif tag == 6:
            params[n] = {"type": "Checkbox", "value": val}
        elif tag == 7:
            params[n] = {"type": "InputText", "value": val}
        else:
            params[n] = {"value": val}
    return params


def _payload(tag, v):
    return v % 2 if tag == 6 else (0 if tag == 10 else v)


def _show(items):
    return {n: TAG_NAME[t] for n, t, _ in items}


class _Shadow(dict):
    """id -> (kind, x, y); printed in full for small populations, abbreviated for the scale stream"""

    npt = 0

    def __repr__(self):
        if len(self) <= 12:
            return dict.__repr__(self)
        special = {a: v for a, v in self.items() if v[0] < self.npt}
        return f"<{len(self)} agents, all of the key-less kind {self.npt} except {dict.__repr__(special)}>"

    __str__ = __repr__


def _dims(sp):
    d = {k: v for k, v in sp.items() if k in ("w", "h", "x0", "y0", "points")}
    if len(d.get("points", [])) > 12:
        d["points"] = f"<{len(d['points'])} points>"
    return d


def _read_markers_spring(ax, sp, space, shadow, pt, i, fail):
    """default spring layout: compare in floats against an independently computed layout (oracle only)"""
    import networkx as nx

    lib = _libs()
    np = lib["np"]
    pos = nx.spring_layout(space.G, seed=0)
    xs = [p[0] for p in pos.values()]
    ys = [p[1] for p in pos.values()]
    m = max(max(xs) - min(xs), max(ys) - min(ys))
    dflt = (180 / m) ** 2
    got = []
    for coll in ax.collections:
        if type(coll) is not lib["PathCollection"]:
            continue
        offs = np.ma.getdata(coll.get_offsets())
        n = len(offs)
        sizes = np.asarray(coll.get_sizes())
        fcs = np.asarray(coll.get_facecolors())
        for j in range(n):
            node = min(pos, key=lambda k: abs(pos[k][0] - offs[j][0]) + abs(pos[k][1] - offs[j][1]))
            exact = abs(pos[node][0] - offs[j][0]) + abs(pos[node][1] - offs[j][1]) < 1e-9
            s = float(sizes[j] if len(sizes) == n else sizes[0])
            sn = -1 if abs(s - dflt) < 1e-6 * dflt else _near_int(s * 4, "size (quarter units)")
            got.append([node if exact else -7, 0, sn, 1, _color_idx(fcs[j] if len(fcs) == n else fcs[0]),
                        _marker_idx(coll.get_paths()[0]), _near_int(coll.get_zorder() * 4, "z")])
    exp = []
    for aid, (kind, x, y) in shadow.items():
        d = pt[kind] if kind < len(pt) else [None] * 4
        exp.append([x, 0, d[0] if d[0] is not None else -1, 1, d[1] or 0, d[2] or 0, d[3] if d[3] is not None else 4])
    if sorted(got) != sorted(exp):
        fail("C20/mpl/Net/markers-differ", i, f"spring layout: markers [node,0,size(-1 default),1,color,marker,zorder] {sorted(got)}, expected {sorted(exp)}")
    return got


def _alpha_code(a, lo, hi):
    """alpha channel as an integer: x 4 (vmax - vmin), or x 4 for a degenerate scale; NaN is -7"""
    a = float(a)
    if a != a:
        return -7
    return _near_int(a * 4 * ((hi - lo) or 1), "alpha channel")


def _read_layer(ax, sp, cm, lo, hi, a4):
    """value shown at the drawing position of each cell (rows first); -9 where nothing is drawn"""
    lib = _libs()
    np = lib["np"]
    fam = CLASSES[sp["cls"]][0]
    w, h = sp["w"], sp["h"]
    polys = [c for c in ax.collections if type(c) is lib["PolyCollection"]]
    view = []
    if fam == "Hex":
        if not polys:
            return [-9] * (w * h), ("image" if ax.images else "nothing")
        pc = polys[-1]
        import matplotlib.pyplot as plt
        from matplotlib.colors import Normalize

        table = {}
        fcs = np.asarray(pc.get_facecolors())
        paths = pc.get_paths()
        for k, p in enumerate(paths):
            c = np.asarray(p.vertices)[:6].mean(axis=0)
            key = _decode_xy(sp, c[0], c[1])
            table.setdefault(key, []).append(fcs[k] if len(fcs) == len(paths) else fcs[0])
        cmap = plt.get_cmap("viridis")
        norm = Normalize(vmin=lo, vmax=hi)
        cand = {v: cmap(norm(v)) for v in range(lo, hi + 1)}
        for y in range(h):
            for x in range(w):
                fc = table.get((2 * x + (1 if y % 2 == 0 else 0), 3 * y))
                if not fc or len(fc) != 1:
                    view.append(-9)
                    continue
                fc = fc[0]
                if cm:
                    view.append(_alpha_code(fc[3], lo, hi))
                else:
                    best = min(cand, key=lambda v: sum(abs(float(a) - float(b)) for a, b in zip(cand[v][:3], fc[:3])))
                    err = sum(abs(float(a) - float(b)) for a, b in zip(cand[best][:3], fc[:3]))
                    view.append(best if err < 1e-6 else -8)
        return view, "hexagons"
    if not ax.images:
        return [-9] * (w * h), "nothing"
    im = ax.images[-1]
    arr = np.ma.getdata(im.get_array())
    left, right, bottom, top = im.get_extent()
    nrows, ncols = arr.shape[:2]
    for y in range(h):
        for x in range(w):
            col = math.floor((x - left) / (right - left) * ncols)
            row = math.floor((y - bottom) / (top - bottom) * nrows)
            if im.origin != "lower":
                row = nrows - 1 - row
            if not (0 <= col < ncols and 0 <= row < nrows):
                view.append(-9)
            elif cm:
                view.append(_alpha_code(arr[row, col, 3], lo, hi))
            else:
                view.append(_near_int(arr[row, col], "pixel"))
    return view, "image"


# ------------------------------------------------------------------ model side
def _ocoord(p):
    return L.opt(L.zpair(p))


def _oz(v):
    return "None" if v is None else f"(Some {L.z(v)})"


def _coq_space(sp):
    fam, single, legacy, altair, has_layer = CLASSES[sp["cls"]]
    pts = L.lst([L.zpair(p) for p in sp.get("points", [])])
    return (f"{{| sp_family := {fam}; sp_w := {L.z(sp.get('w', 0))}; sp_h := {L.z(sp.get('h', 0))}; "
            f"sp_x0 := {L.z(sp.get('x0', 0))}; sp_y0 := {L.z(sp.get('y0', 0))}; sp_single := {L.b(single)}; "
            f"sp_legacy := {L.b(legacy)}; sp_altair := {altair}; sp_points := {pts} |}}")


def _coq_pd(d):
    return (f"{{| pd_size := {_oz(d[0])}; pd_color := {_oz(d[1])}; pd_marker := {_oz(d[2])}; pd_zorder := {_oz(d[3])} |}}")


def _coq_param(n, k, d):
    return f"{{| pn := {NAMES.index(n)}; pk := {k}; pdef := {L.b(d)} |}}"


def _coq_op(op):
    k = op[0]
    if k == "place":
        return f"Place {L.z(op[1])} {L.z(op[2])} {L.z(op[3])} {L.z(op[4])}"
    if k == "move":
        return f"Move {L.z(op[1])} {L.z(op[2])} {L.z(op[3])}"
    if k == "remove":
        return f"Remove {L.z(op[1])}"
    if k == "kind":
        return f"SetKind {L.z(op[1])} {L.z(op[2])}"
    if k == "setlayer":
        return f"SetLayer {L.z(op[1])} {L.z(op[2])} {L.z(op[3])}"
    if k == "collect":
        return "Collect"
    if k == "mpl":
        return "DrawMpl"
    if k == "altair":
        return "DrawAltair"
    if k == "layer":
        return f"DrawLayer {L.b(op[1])} {_oz(op[2])} {_oz(op[3])} {L.z(op[4])} {L.b(len(op) > 5 and op[5])}"
    if k == "mplc":
        return f"DrawMplC {L.b(op[1])}"
    if k == "altairc":
        return f"DrawAltairC {L.b(op[1])}"
    if k == "altairenc":
        return "DrawAltairEnc"
    if k == "inflayer":
        return f"DrawInfLayer {L.b(op[1])} {L.b(op[2])}"
    if k in ("bulk", "ucmove", "ucother", "ucraise"):
        return "Collect"
    if k == "copy":
        return "Collect"        # a copy shows what the original showed; the history then continues on the copy        # scale histories are implementation + oracle only; never evaluated by the model
    if k == "check":
        sig = [_coq_param("self", "PosOrKw", False)] + [_coq_param(*p) for p in op[1]]
        return f"Check {L.lst(sig)} {L.zlist([NAMES.index(n) for n in op[2]])}"
    tags = {t: ["VFixed", "VSlider", "VDictType", "VDictNoType"][c] for t, c in TAG_CLASS.items()}
    if k == "split":
        return "Split " + L.lst([f"({NAMES.index(n)}, {tags[t]} {L.z(_payload(t, v))})" for n, t, v in op[1]])
    if k == "bind":
        sig = [_coq_param("self", "PosOrKw", False)] + [_coq_param(*p) for p in op[1]]
        return f"Bind {L.lst(sig)} {L.zlist([NAMES.index(n) for n in op[2]])}"
    if k == "creator":
        sig = [_coq_param("self", "PosOrKw", False)] + [_coq_param(*p) for p in op[1]]
        return f"Creator {L.lst(sig)} " + L.lst([f"({NAMES.index(n)}, {tags[t]} {L.z(_payload(t, v))})" for n, t, v in op[2]])
    raise ValueError(k)


def coq_case(case):
    sp = case["space"]
    has_layer = CLASSES[sp["cls"]][4]
    pt = L.lst([f"({i}, {_coq_pd(d)})" for i, d in enumerate(case["portrayal"])])
    lay = "None"
    if case.get("layer") is not None and has_layer:
        lay = "(Some " + L.lst([L.zlist(col) for col in case["layer"]]) + ")"
    ops = L.lst([_coq_op(o) for o in case["ops"]])
    return f"{{| c_space := {_coq_space(sp)}; c_portrayal := {pt}; c_layer := {lay}; c_ops := {ops} |}}"


def op_kinds(case):
    out = []
    for op in case["ops"]:
        k = op[0]
        if k in ("mpl", "altair", "collect", "layer", "mplc", "altairc", "altairenc", "inflayer"):
            k += "/" + case["space"]["cls"]
        out.append(k)
    return out


def nontrivial(case):
    obs = case.get("_obs", [])
    draws = [o for op, o in zip(case["ops"], obs) if op[0] in ("mpl", "altair", "collect", "layer", "check", "split", "creator", "bind", "mplc", "altairc", "altairenc", "inflayer") and o and o[0] not in (-2,)]
    return len(case["ops"]) >= 3 and len(draws) >= 1


LEVEL_TEXT = ("43 machine-checked Coq theorems (closed under the global context, 13 Examples) over a Gallina model of the drawing data "
              "of mesa.visualization whose functions are re-generated from the source on every run (code-level T1, 12 constructs) and "
              "proved equal to the model (bridge lemmas in Proofs/VizBridge.v).  For EVERY history of place/move/remove/kind "
              "operations on any space family: the markers handed to Matplotlib are a permutation of one marker per agent at its "
              "drawing location with portrayal-or-default values (C20_one_marker_each, C20_scatter_partition[_of_source]), the same "
              "for collect_agent_data, the Altair rows and the make_space_component wrappers; the observation the correspondence "
              "compares IS the canonical form of the required markers (C20_run_case_draw_is_statement); the Altair chart encodes a "
              "colour / size exactly when some agent portrays one (C20_altair_encoding); hexagon centres coincide with the drawn "
              "mesh, image pixels / hexagons show data[x][y] of the CURRENT layer (orientation, write, view theorems, also of the "
              "translated source), the value map is monotone, injective inside [vmin, vmax] and never NaN "
              "(C20_layer_value_monotone, _values_distinguished, _alpha_proper); _check_model_params accepts exactly the "
              "keyword-bindable sets of *args-free constructors (C20_check_iff_bindable[_of_source]), ModelCreator checks all given "
              "names and passes every value through (C20_creator_*), split_model_params is a lossless, correctly classified "
              "partition.  Tie: T1 translation + bridge proofs, differential evaluation of the model on random and enumerated "
              "histories read back from ax.collections / images / chart (T2), an independent oracle stating the property on the "
              "implementation.")
LEVEL_NOTE = ("Theorems are about the model and the translated code; Matplotlib/Altair rendering, the spring layout (oracle only), "
              "alpha/edgecolors/linewidths, the drawers' decorations (grid lines, spines) and the Solara widgets other than the "
              "ModelCreator effects are not modelled.  13 defects of the unchanged tree were found and repaired by fixes/C20-1..13 "
              "(C20-12 altair falsy agents and C20-13 mixed colour spellings delivered in round 5); refutation witnesses for the "
              "unrepaired check and first-row encodings are kept as theorems.  Trusted: Coq kernel, the translators, the "
              "driver/observer, CPython call semantics as compared by the Bind operations.  No axioms.")
TECHNIQUE = "Coq proof (induction over histories, permutation/partition/sorting lemmas, bridge lemmas to source-translated code) + code-level T1 + vm_compute correspondence"
DESIGN_REF = "DESIGN.md section 4, C20"
