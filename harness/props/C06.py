"""C06 - cell spaces: agent.cell and cell.agents always mirror; capacity holds; every emptiness view
agrees with that truth.  Also the cell-space sites of C18 (a rejected placement / move changes nothing).
Model: coq/Model/CellSpace.v (topology passed in as data read from the real space's cell.connections)."""
import itertools

import coqlit as L

ID = "C06"
COQ_PROPERTY_FILE = "Properties/C06.v"
COQ_DEPS = ["Common/ListX.v", "Common/ObsHash.v", "Common/CellState.v", "Generated/Tables.v", "Model/CellSpace.v", "Proofs/CellSpaceProofs.v",
            "Proofs/CellSpaceRefine.v", "Proofs/CellSpaceBridge.v", "Model/CellSpaceX.v", "Proofs/CellSpaceXProofs.v"]
COQ_IMPORTS = "From Mesa Require Import Model.CellSpace Model.CellSpaceX."
COQ_CASE_TYPE = "xcase"
COQ_RUN = "xrun_case"
TABLE_CONSTRUCTS = ["direction_map", "cell_agents_code", "cell_is_empty_code", "cell_is_full_code", "cell_add_agent_code",
                    "cell_remove_agent_code", "cell_getters", "cell_setter_code", "fixed_setter_code", "move_to_code",
                    "move_relative_code", "move2d_code", "cellagent_remove_code", "fixedagent_remove_code", "empties_code",
                    "try_random_accepts_code", "random_empty_skeleton"]
ENUM_ALWAYS = False
RULE = ("history = one cell space (OrthogonalMooreGrid / OrthogonalVonNeumannGrid in 1-4 dimensions incl. 1xN and 1x1, HexGrid, Network "
        "(fixed and random graphs, isolated nodes, self loops), VoronoiGrid; torus flag; capacity None / 1 / 2 / 3 and - rarely, as documented "
        "boundary - 0, floats 0.5 1.1 1.5 2.3 2.5, True, numpy.float64(2.0), 10**20; per cell on Voronoi; every third space built with a Cell "
        "subclass whose instances are falsy and of len 0; every fourth preceded by another grid with an agent in the same process) "
        "+ up to 8 initial agents (CellAgent, FixedAgent, Grid2DMovingAgent; every other one a falsy / len-0 / sub-sub-class variant) "
        "+ up to ~35 operations: cell assignment (incl. None, the same cell, a full cell), move_to, move_relative (existing and missing "
        "directions), Grid2DMovingAgent.move(name, k) (k in -1..6 and 50, names in mixed case and invalid; positional / keyword / default "
        "argument spellings alternate), remove (also repeated), model.remove_all_agents, agents created mid-history, "
        "select_random_empty_cell under both strategies and placement into the returned cell, CellCollection views / select_random_cell / "
        "select_random_agent / select(filter, at_most) on all_cells and empties (at_most: inf, ints incl. negative, True, 10**20, floats <= 1.0 "
        "dyadic and 0.3 / 0.7, floats > 1.0, numpy.float64), Cell.connect / disconnect / connection queries followed by moves along the edited "
        "keys, on grids read-only calls of the neighbouring property-layer API that shares the 'empty' layer (select_cells with only_empty alone and "
        "with conditions / extreme_values / masks in list and mask form, get_neighborhood_mask, aggregate, layer select_cells, reading grid.empty.data: "
        "no-ops in the model, full view before == after in the oracle), 'probe' points where the driver issues every kind of call that must be rejected in the state reached (C18 fault enumeration), "
        "and - in 12 % of the histories, in their second half - direct cell.add_agent / remove_agent calls (model and correspondence only; the "
        "oracle stops judging a history at its first direct call). SCALE stream (5 cases per quick run, 60 thorough, 40 in the broken-tie enumerator): one "
        "cell filled (op Fill, run-length encoded agent kinds) with 100..513 agents crossing 128/129/256/257/512, then moves out, removals, un-placing, "
        "re-adds, arrivals, stepwise emptying, refills, on small spaces with the model and on 40x40 / 33x31 / 20x20 grids and a 300-node network without it; "
        "all_cells[cell] and the cached neighbourhood agents of every (sampled) cell are compared as well. USER-CODE stream (40 histories per quick run, "
        "1500 thorough, 400 in the broken-tie enumerator; implementation + oracle only, user code is not modelled): CellAgent / FixedAgent / "
        "Grid2DMovingAgent subclasses overriding move_to (declining None and full cells), move_to / move_relative / remove with super() and an extra "
        "constructor argument, the cell property, remove() and cell hooks that re-enter the space (queries, moving another agent), a docstring-only "
        "subclass; Cell subclasses that are falsy / sized / iterable by their occupants, with add_agent / remove_agent hooks and class-level defaults, "
        "that veto some agents, with value equality; removal through agent.remove(), model.remove_all_agents(), AgentSet.do('remove') and "
        "do(callable); the oracle is the statement on the implementation's own state after every operation (removed agents listed nowhere, mirror, "
        "capacity, all emptiness views, space.agents) plus: a Cell subclass gets the connections of the stock Cell. The whole state view is observed after every operation; at the end the "
        "constructor arguments (graph, points, dimensions) must be unchanged. "
        "non-trivial = at least 3 operations of which one was rejected or a removal happened; distinct = by SHA1 of the history")
TRUSTED_BASE = [
    "Coq 8.16.1 kernel (coqc); vm_compute used to evaluate the model in the correspondence and in the non-vacuity examples",
    "no axioms: Print Assumptions reports 'Closed under the global context' for all 53 C06_* and 12 C18_cellspace_* theorems of Properties/C06.v",
    "harness/tables/direction_map.py (DIRECTION_MAP) and harness/tables/cellspace_code.py (class Eff, a statement translator on top of "
    "harness/pyexpr.py) - T1: 14 methods regenerated as Gallina on every run + 2 alpha-normalised statement skeletons",
    "harness/props/C06.py driver+observer, the shadow-dictionary oracle and the Gallina literal printer (T2, differential testing, not a proof)",
    "the hand-written glue of Proofs/CellSpaceBridge.v:gen_step (dispatch on the agent class, applicability guards, legality check of recorded "
    "random outcomes, Agent.remove = deregistration, the loop of model.remove_all_agents) and Model/CellSpaceX.v (direct cell calls, agent "
    "creation, collection queries, select, connect / disconnect overlay); Python list = Coq list, cell.connections = a finite table read "
    "from the real space for the direction keys the history uses",
    "Uint63 primitive hash only in scratch Cases files, never under a theorem",
]
ASSUMPTIONS = [
    "one space per history; agents are moved only between cells of that space (cells shared between spaces are not modelled)",
    "the statement's quantifier is capacities None or ints >= 1 and placements through agent.cell / move_to / move_relative / move / remove: "
    "capacity 0, float / bool / numpy capacities and direct cell.add_agent / remove_agent calls are in the model and the correspondence with "
    "theorems describing what the code does (C06_capacity_zero_boundary, C06_float_capacity_boundary, C06_mirror_partial_direct_calls, "
    "C06_mirror_refuted_by_direct_calls) but are not judged by the oracle beyond that; negative capacities are excluded",
    "Grid.select_random_empty_cell with _try_random on a space without an empty cell loops for ever and is never run (known non-finding, E_LOOP)",
    "direction names are lower-cased as ASCII in the model (non-ASCII names are not generated); the KeyError of DIRECTION_MAP[direction] is "
    "unreachable behind the translated `not in` test and not modelled",
    "select fractions 0.3 / 0.7 are generated only because int(len * f) in binary64 equals the exact floor for every len <= 64 (asserted at import)",
    "order inside cell.agents is compared model-vs-implementation (list semantics) but not constrained by the oracle; cell.neighborhood caches "
    "after connect / disconnect belong to C07",
]

E_FULL, E_FIXED, E_NODIR, E_BADDIR, E_ATTR, E_NOTIN, E_NOEMPTY, E_LOOP = 1, 2, 3, 4, 5, 6, 7, 8
KINDS = ["cell", "fixed", "grid2d"]

# the documented meaning of the compass names (independent of the table in the source)
_COMPASS = {"n": (-1, 0), "s": (1, 0), "e": (0, 1), "w": (0, -1), "ne": (-1, 1), "nw": (-1, -1), "se": (1, 1), "sw": (1, -1)}
_SYN = {"north": "n", "up": "n", "south": "s", "down": "s", "east": "e", "right": "e", "west": "w", "left": "w",
        "northeast": "ne", "upright": "ne", "northwest": "nw", "upleft": "nw", "southeast": "se", "downright": "se",
        "southwest": "sw", "downleft": "sw"}
ORACLE_DIRS = dict(_COMPASS)
ORACLE_DIRS.update({k: _COMPASS[v] for k, v in _SYN.items()})
VECTORS = sorted(set(_COMPASS.values()))

VORONOI_POINTS = [
    [[4.7, 3.1], [8.5, 6.1], [5.8, 6.5]],
    [[5.7, 8.0], [0.6, 1.2], [7.6, 4.7], [3.8, 2.1]],
    [[3.0, 5.9], [8.8, 8.5], [5.1, 5.9], [0.3, 2.4]],
    [[1.1, 9.0], [5.1, 2.1], [6.1, 8.2], [0.2, 0.2], [1.5, 7.2]],
    [[9.1, 8.4], [5.3, 7.7], [5.3, 0.7], [0.4, 1.3], [1.7, 5.4]],
    [[0.3, 8.4], [4.3, 7.6], [0.0, 4.5], [7.2, 2.3], [9.5, 9.0], [0.3, 0.3]],
    [[8.7, 4.7], [3.6, 1.8], [2.1, 2.0], [3.6, 8.2], [0.9, 7.5], [0.9, 5.7], [3.4, 2.3]],
]
GRID_DIMS = [(1,), (3,), (5,), (1, 1), (1, 3), (2, 2), (2, 3), (3, 3), (4, 4), (3, 5), (5, 5), (3, 3, 2), (2, 1, 3), (2, 2, 2, 2)]
GRAPHS = [
    {"nodes": [0], "edges": []},
    {"nodes": [0, 1], "edges": [[0, 1]]},
    {"nodes": [0, 1, 2], "edges": [[0, 1], [1, 2]]},
    {"nodes": [0, 1, 2, 3], "edges": [[0, 1], [1, 2], [2, 0]]},           # node 3 isolated
    {"nodes": [5, 3, 9, 7], "edges": [[5, 3], [3, 9], [9, 7], [7, 5], [5, 5]]},  # ring with a self loop, ids not 0..n
    {"nodes": [0, 1, 2, 3, 4, 5], "edges": [[0, 1], [0, 2], [0, 3], [0, 4], [0, 5]]},  # star
    {"nodes": [0, 1, 2, 3, 4, 5, 6, 7], "edges": [[0, 1], [1, 2], [2, 3], [3, 4], [4, 5], [5, 6], [6, 7], [7, 0], [0, 4]]},
]


# ------------------------------------------------------------------ generation
def _n_cells(sp):
    if sp["type"] in ("moore", "vonneumann", "hex"):
        n = 1
        for d in sp["dims"]:
            n *= d
        return n
    if sp["type"] == "network":
        return len(sp["graph"]["nodes"])
    return len(sp["points"])


def _rand_space(rng):
    t = rng.choice(["moore", "moore", "vonneumann", "vonneumann", "hex", "network", "network", "voronoi"])
    cap = rng.choice([None, 1, 1, 1, 2, 2, 3])
    if rng.random() < 0.06:
        # documented boundary: capacity 0, float capacities (dyadic and not), bool, numpy float, an int beyond 2^53
        cap = rng.choice([0, 0.5, 1.5, 2.5, 2.3, 1.1, "true", "npf2", "big"])
    if t in ("moore", "vonneumann"):
        dims = list(rng.choice(GRID_DIMS))
        return {"type": t, "dims": dims, "torus": rng.random() < 0.5, "capacity": cap}
    if t == "hex":
        dims = list(rng.choice([(1, 1), (2, 2), (2, 3), (3, 3), (4, 4), (2, 4), (4, 2)]))
        return {"type": t, "dims": dims, "torus": rng.random() < 0.5, "capacity": cap}
    if t == "network":
        if rng.random() < 0.04:
            cap = "npi3"
        if rng.random() < 0.5:
            return {"type": t, "graph": rng.choice(GRAPHS), "capacity": cap}
        n = rng.randint(1, 9)
        nodes = rng.sample(range(0, 15), n)
        edges = [[a, b] for i, a in enumerate(nodes) for b in nodes[i + 1:] if rng.random() < 0.35]
        if rng.random() < 0.2:
            v = rng.choice(nodes)
            edges.append([v, v])
        return {"type": t, "graph": {"nodes": nodes, "edges": edges}, "capacity": cap}
    pts = rng.choice(VORONOI_POINTS)
    caps = [rng.choice([None, 1, 1, 2, 3]) for _ in pts] if rng.random() < 0.7 else [cap]
    if rng.random() < 0.1:
        caps = [rng.choice([None, 1, 2, 0, 1.5, 2.5, 2.3, "true", "npf2", "big"]) for _ in pts]
    return {"type": t, "points": pts, "capacity": cap, "caps": caps}


def _rand_dir(rng, sp, ncells, cur=None):
    """a direction key; `cur` = the cell the agent is believed to be in (steers towards existing connections)"""
    t = sp["type"]
    if t in ("moore", "vonneumann", "hex"):
        nd = len(sp["dims"])
        r = rng.random()
        if r < 0.75:
            d = [rng.choice([-1, 0, 1]) for _ in range(nd)]
            if t == "vonneumann" and rng.random() < 0.7:
                d = [0] * nd
                d[rng.randrange(nd)] = rng.choice([-1, 1])
            return d
        if r < 0.85:
            return [rng.choice([-2, 2, 0]) for _ in range(nd)]
        if r < 0.93:
            return [rng.choice([-1, 1]) for _ in range(max(1, nd + rng.choice([-1, 1])))]
        return [0] * nd
    if t == "network":
        nodes = sp["graph"]["nodes"]
        if cur is not None and rng.random() < 0.75:
            me = nodes[cur]
            nb = [b if a == me else a for a, b in sp["graph"]["edges"] if me in (a, b)]
            if nb:
                return [rng.choice(nb)]
        return [rng.choice(nodes)] if rng.random() < 0.9 else [max(nodes) + 1]
    i, j = rng.randrange(ncells), rng.randrange(ncells + 1)
    if cur is not None and rng.random() < 0.8:
        i = cur
    return [i, j]


_NAMES = sorted(ORACLE_DIRS)


def _rand_name(rng):
    r = rng.random()
    n = rng.choice(_NAMES)
    if r < 0.6:
        return n
    if r < 0.8:
        return rng.choice([n.upper(), n.capitalize(), n[:1] + n[1:].upper()])
    return rng.choice(["", "nn", "north ", "norht", "centre", "N-E"])


def _gen_ops(rng, sp, kinds, n_ops):
    """mostly valid histories: first place most agents, then a mix of moves / removals / queries;
    a light shadow (where an agent probably is) steers towards occupied and full cells"""
    ncells = _n_cells(sp)
    n = len(kinds)
    ops = []
    where = {}      # agent -> probable cell
    removed = set()
    ids = list(range(1, n + 1))

    def some_cell(prefer_occupied):
        occ = [c for c in where.values() if c is not None]
        if occ and rng.random() < prefer_occupied:
            return rng.choice(occ)
        return rng.randrange(ncells)

    # placement phase
    for a in ids:
        if rng.random() < 0.8 and len(ops) < n_ops:
            if rng.random() < 0.25:
                ops.append(["place_rand", a, rng.random() < 0.5])
                where[a] = None
            else:
                c = some_cell(0.3)
                ops.append(["set", a, c])
                where[a] = c
    movers = [i for i in ids if kinds[i - 1] != "fixed"]
    g2 = [i for i in ids if kinds[i - 1] == "grid2d"]
    guard = 0
    while len(ops) < n_ops and guard < 1000:
        guard += 1
        a = rng.choice(ids)
        r = rng.random()
        if a in removed and rng.random() < 0.85:
            continue
        if r < 0.22:
            if kinds[a - 1] == "fixed" and a in where and rng.random() < 0.8:
                continue
            c = some_cell(0.5)
            ops.append(["set", a, c])
            where[a] = c
        elif r < 0.27:
            if kinds[a - 1] == "fixed" and rng.random() < 0.8:
                continue
            ops.append(["set", a, None])
            where[a] = None
        elif r < 0.30:
            ops.append(["set", a, where.get(a) if where.get(a) is not None else some_cell(0.5)])
        elif r < 0.40:
            if not movers:
                continue
            a = rng.choice(movers)
            c = some_cell(0.5)
            ops.append(["move_to", a, c])
            where[a] = c
        elif r < 0.60:
            if not movers:
                continue
            a = rng.choice(movers)
            if where.get(a) is None and a not in where and rng.random() < 0.8:
                continue
            ops.append(["move_rel", a, _rand_dir(rng, sp, ncells, where.get(a))])
            where[a] = None     # somewhere else now
        elif r < 0.75:
            if not g2:
                continue
            a = rng.choice(g2)
            if a not in where and rng.random() < 0.8:
                continue
            ops.append(["move2d", a, _rand_name(rng), rng.choice([1, 1, 1, 2, 2, 3, 4, 0, -1, 6, 50])])
        elif r < 0.83:
            if rng.random() < 0.08:
                ops.append(["remove_all"])
                removed.update(ids)
                where.clear()
                continue
            ops.append(["remove", a])
            removed.add(a)
            where.pop(a, None)
        elif r < 0.92:
            q = rng.random()
            if q < 0.14 and len(kinds) < 10:
                k = rng.choice(KINDS)
                kinds.append(k)              # an agent created in the middle of the history
                ids.append(len(kinds))
                if k != "fixed":
                    movers.append(len(kinds))
                if k == "grid2d":
                    g2.append(len(kinds))
                ops.append(["new", k])
                continue
            if q < 0.28:
                if sp["type"] in ("moore", "vonneumann", "hex") and rng.random() < 0.5:
                    ops.append(["layer_query", rng.randrange(12)])     # read-only property-layer calls touching the 'empty' layer
                    continue
                ops.append([rng.choice(["coll_rand_cell", "coll_rand_agent", "coll_view"]), rng.choice(["all", "empties"])])
                continue
            if q < 0.34:
                pred = rng.choice([["any"], ["empty"], ["nonempty"], ["atleast", rng.randint(0, 3)], ["idxmod", rng.randint(1, 3), rng.randint(0, 2)],
                                   ["has", rng.randint(1, len(kinds))]])
                am = rng.choice([None, None, 0, 1, 2, 3, 100, -1, ["frac", 1, 2], ["frac", 1, 4], ["frac", 3, 4], ["frac", 0, 1], ["frac", 1, 1],
                                 ["frac", 3, 10], ["frac", 7, 10], ["float", 2.5], ["float", 1.5], True, 10 ** 20, ["npf", 1, 2]])
                ops.append(["coll_select", rng.choice(["all", "all", "empties"]), pred, am])
                continue
            if q < 0.40:
                # dynamic connections, then (usually) a move along the edited key
                c1, c2 = rng.randrange(ncells), rng.randrange(ncells)
                key = _rand_dir(rng, sp, ncells, c1)
                ops.append(rng.choice([["connect", c1, c2, key], ["connect", c1, c2, key], ["disconnect", c1, c2], ["conn_query", c1]]))
                if movers and rng.random() < 0.7:
                    a2 = rng.choice(movers)
                    ops.append(["set", a2, c1])
                    ops.append(["move_rel", a2, key])
                continue
            if q < 0.7:
                ops.append(["probe"])
                continue
            ops.append(["rand_empty", rng.random() < 0.5])
        else:
            ops.append(["place_rand", a, rng.random() < 0.5])
            where[a] = None
    return ops


def _rand_case(rng, max_ops=30):
    sp = _rand_space(rng)
    ncells = _n_cells(sp)
    two_d = sp["type"] in ("moore", "vonneumann", "hex") and len(sp["dims"]) == 2
    n = rng.randint(1, min(8, max(2, ncells + 2)))
    kinds = []
    for _ in range(n):
        r = rng.random()
        if r < 0.25:
            kinds.append("fixed")
        elif r < (0.75 if two_d else 0.35):
            kinds.append("grid2d")
        else:
            kinds.append("cell")
    init_kinds = list(kinds)
    ops = _gen_ops(rng, sp, kinds, rng.randint(3, max_ops))     # may append kinds of agents created mid-history
    if rng.random() < 0.12:
        # direct cell.add_agent / cell.remove_agent calls (outside the quantifier of C06: model + correspondence only),
        # in the second half so that most of the history stays under the oracle
        for _ in range(rng.randint(1, 3)):
            pos = rng.randint(len(ops) // 2, len(ops))
            ops.insert(pos, [rng.choice(["cell_add", "cell_add", "cell_remove"]), rng.randrange(ncells), rng.randint(1, len(init_kinds))])
    return {"space": sp, "agents": init_kinds, "seed": rng.randrange(1000), "ops": ops}


def _corner_cases():
    """the situations the quantifier and the C18 sites name, written out"""
    out = []
    for t, dims in (("moore", [2, 2]), ("vonneumann", [1, 3]), ("hex", [2, 2]), ("moore", [2, 2, 2])):
        for cap in (1, 2):
            sp = {"type": t, "dims": dims, "torus": False, "capacity": cap}
            kinds = ["cell", "cell", "cell", "fixed", "fixed", "grid2d"]
            fill = [["set", 2, 1]] + ([["set", 3, 1]] if cap == 2 else [])
            # CellAgent into a full cell, from a cell and from nowhere
            out.append({"space": sp, "agents": kinds, "seed": 1,
                        "ops": [["set", 1, 0], *fill, ["set", 1, 1], ["move_to", 1, 1], ["set", 6, 1], ["set", 1, 1], ["remove", 1], ["rand_empty", False]]})
            # FixedAgent into a full cell, then into a second cell, remove, remove again
            out.append({"space": sp, "agents": kinds, "seed": 2,
                        "ops": [*fill, ["set", 4, 1], ["set", 4, 0], ["set", 4, 1], ["remove", 4], ["remove", 4], ["remove", 5], ["set", 5, 0]]})
    # Grid2DMovingAgent.move stopping half-way; move_relative off the grid
    sp = {"type": "vonneumann", "dims": [2, 2], "torus": False, "capacity": None}
    out.append({"space": sp, "agents": ["grid2d", "cell"], "seed": 3,
                "ops": [["set", 1, 2], ["move2d", 1, "north", 3], ["move2d", 1, "North", 1], ["move2d", 1, "n", 1], ["move_rel", 1, [-1, 0]],
                        ["set", 2, 0], ["move_rel", 2, [0, -1]], ["move_rel", 2, [1, 1]], ["move2d", 1, "nowhere", 1], ["move2d", 1, "south", 0]]})
    sp = {"type": "moore", "dims": [3, 3], "torus": True, "capacity": 1}
    out.append({"space": sp, "agents": ["grid2d", "cell", "grid2d"], "seed": 4,
                "ops": [["set", 1, 0], ["set", 2, 3], ["move2d", 1, "south", 2], ["move2d", 1, "south", 3], ["move2d", 1, "s", 1], ["set", 3, 8],
                        ["move2d", 3, "SE", 4], ["move2d", 3, "east", 3], ["remove", 3], ["move2d", 3, "east", 1]]})
    # every direction name of the documented compass, one step and two steps from the centre of a 3x3 Moore torus
    names = sorted(ORACLE_DIRS)
    for s0 in range(0, len(names), 6):
        ops = []
        for nm in names[s0:s0 + 6]:
            ops += [["set", 1, 4], ["move2d", 1, nm, 1], ["move2d", 1, nm.upper(), 2]]
        out.append({"space": {"type": "moore", "dims": [3, 3], "torus": True, "capacity": None}, "agents": ["grid2d"], "seed": 7, "ops": ops})
    # remove_all_agents with a never-placed FixedAgent in the middle, and with a re-placed removed agent
    out.append({"space": {"type": "hex", "dims": [2, 2], "torus": False, "capacity": 2}, "agents": ["cell", "fixed", "cell", "fixed", "grid2d"], "seed": 8,
                "ops": [["set", 1, 0], ["set", 3, 0], ["set", 4, 1], ["set", 5, 2], ["remove", 3], ["set", 3, 3], ["remove_all"], ["rand_empty", False], ["remove_all"]]})
    # round 3: agents created mid-history, collection views, capacity 0 / fractional, and (last) direct cell calls
    out.append({"space": {"type": "moore", "dims": [2, 2], "torus": False, "capacity": 2.5}, "agents": ["cell", "fixed"], "seed": 9,
                "ops": [["coll_view", "all"], ["coll_view", "empties"], ["coll_rand_agent", "all"], ["set", 1, 0], ["set", 2, 0], ["new", "grid2d"], ["set", 3, 0],
                        ["new", "cell"], ["set", 4, 0], ["coll_view", "all"], ["coll_view", "empties"], ["coll_rand_agent", "all"], ["coll_rand_agent", "empties"],
                        ["coll_rand_cell", "empties"], ["coll_rand_cell", "all"], ["move2d", 3, "east", 1], ["remove_all"], ["new", "fixed"], ["set", 5, 1], ["coll_view", "all"]]})
    out.append({"space": {"type": "network", "graph": GRAPHS[2], "capacity": 0}, "agents": ["cell", "cell", "fixed"], "seed": 10,
                "ops": [["set", 1, 0], ["set", 2, 0], ["set", 3, 0], ["coll_view", "empties"], ["rand_empty", False], ["move_rel", 1, [1]], ["remove", 2]]})
    out.append({"space": {"type": "vonneumann", "dims": [3], "torus": True, "capacity": 0.5}, "agents": ["cell", "cell"], "seed": 11,
                "ops": [["set", 1, 0], ["set", 2, 0], ["move_to", 2, 1], ["coll_rand_cell", "empties"], ["new", "cell"], ["place_rand", 3, True]]})
    out.append({"space": {"type": "moore", "dims": [2, 2], "torus": False, "capacity": 1}, "agents": ["cell", "cell", "fixed"], "seed": 12,
                "ops": [["set", 1, 0], ["set", 2, 1], ["cell_add", 1, 1], ["cell_add", 2, 1], ["cell_add", 2, 1], ["cell_remove", 0, 1], ["set", 1, 3], ["remove", 1],
                        ["cell_remove", 3, 2], ["coll_view", "all"], ["rand_empty", False], ["set", 3, 2], ["remove_all"]]})
    # read-only property-layer calls between mutators on a grid (they share the 'empty' layer with the C06 views)
    out.append({"space": {"type": "moore", "dims": [3, 3], "torus": False, "capacity": 2}, "agents": ["cell", "cell", "grid2d", "fixed"], "seed": 14,
                "ops": [["set", 1, 0], ["set", 2, 4]] + [x for v in range(12) for x in (["layer_query", v], ["rand_empty", v % 2 == 0])]
                       + [["set", 3, 8], ["set", 4, 8], ["move2d", 3, "north", 1]] + [["layer_query", v] for v in (1, 5, 6, 2, 11)] + [["remove", 1], ["layer_query", 1]]})
    # round 4: select(filter, at_most) on both collections; connect / disconnect followed by moves along the edited keys
    out.append({"space": {"type": "vonneumann", "dims": [2, 3], "torus": False, "capacity": 2}, "agents": ["cell", "grid2d", "cell"], "seed": 13,
                "ops": [["set", 1, 0], ["set", 2, 0], ["set", 3, 4], ["coll_select", "all", ["nonempty"], None], ["coll_select", "all", ["any"], 2],
                        ["coll_select", "all", ["empty"], ["frac", 1, 2]], ["coll_select", "empties", ["idxmod", 2, 1], 1], ["coll_select", "all", ["atleast", 2], 5],
                        ["coll_select", "all", ["has", 3], None], ["coll_select", "all", ["any"], -1], ["coll_select", "all", ["any"], ["frac", 1, 1]],
                        ["coll_select", "all", ["any"], None], ["conn_query", 0], ["move_rel", 1, [0, 1]], ["connect", 1, 5, [0, 1]], ["conn_query", 1],
                        ["move_rel", 1, [0, 1]], ["disconnect", 0, 1], ["move_rel", 2, [0, 1]], ["move2d", 2, "east", 1], ["connect", 0, 3, [0, 1]],
                        ["move2d", 2, "east", 2], ["conn_query", 0], ["disconnect", 0, 3], ["conn_query", 0], ["connect", 5, 5, [7, 7]], ["move_rel", 1, [7, 7]]]})
    # networks and Voronoi: capacity, un-placing, empties under the list strategy on a full space
    out.append({"space": {"type": "network", "graph": GRAPHS[1], "capacity": 1}, "agents": ["cell", "cell", "fixed"], "seed": 5,
                "ops": [["set", 1, 0], ["set", 2, 1], ["rand_empty", False], ["set", 3, 0], ["move_rel", 1, [1]], ["set", 1, None], ["place_rand", 3, False],
                        ["move_rel", 2, [0]], ["remove", 2], ["remove", 3], ["rand_empty", True]]})
    out.append({"space": {"type": "voronoi", "points": VORONOI_POINTS[1], "capacity": 1, "caps": [1, 2, None, 1]}, "agents": ["cell", "cell", "cell", "fixed"], "seed": 6,
                "ops": [["set", 1, 0], ["set", 2, 0], ["set", 2, 1], ["set", 3, 1], ["set", 4, 1], ["move_rel", 1, [0, 1]], ["move_rel", 1, [0, 2]], ["move_rel", 2, [1, 0]],
                        ["place_rand", 4, False], ["remove", 1]]})
    return out


_CROWDS = [100, 127, 128, 129, 130, 255, 256, 257, 300, 513]


def _scale_case(rng, big=False):
    """SCALE stream: one cell holding hundreds of agents (crossing 100 / 128 / 129 / 256 / 257 / 512), then moves out, removals,
    un-placing, re-adds, new arrivals, with every view compared; `big` = a space with hundreds of cells as well (no model run)"""
    crowd = rng.choice(_CROWDS)
    extra = rng.randint(3, 12)
    if big:
        sp = rng.choice([
            {"type": "moore", "dims": [40, 40], "torus": rng.random() < 0.5, "capacity": rng.choice([None, "big", 1000])},
            {"type": "vonneumann", "dims": [33, 31], "torus": False, "capacity": None},
            {"type": "hex", "dims": [20, 20], "torus": False, "capacity": rng.choice([None, 300])},
            {"type": "network", "graph": {"nodes": list(range(300)), "edges": [[k, (k + 1) % 300] for k in range(300)] + [[k, (k * 7) % 300] for k in range(0, 300, 5)]},
             "capacity": None},
        ])
    else:
        sp = rng.choice([
            {"type": "moore", "dims": [2, 2], "torus": False, "capacity": rng.choice([None, None, "big", 1000, crowd + 2])},
            {"type": "moore", "dims": [5, 5], "torus": True, "capacity": None},
            {"type": "vonneumann", "dims": [3], "torus": True, "capacity": rng.choice([None, crowd])},
            {"type": "hex", "dims": [2, 3], "torus": False, "capacity": None},
            {"type": "network", "graph": GRAPHS[rng.choice([2, 3, 5])], "capacity": rng.choice([None, crowd + 1])},
            {"type": "voronoi", "points": rng.choice(VORONOI_POINTS), "capacity": None, "caps": [None]},
        ])
    ncells = _n_cells(sp)
    two_d = sp["type"] in ("moore", "vonneumann", "hex") and len(sp["dims"]) == 2
    base = "grid2d" if two_d and rng.random() < 0.5 else "cell"
    kinds = [base] * crowd + [rng.choice(KINDS) for _ in range(extra)]
    n = len(kinds)
    c0 = rng.randrange(ncells)
    c1 = (c0 + 1) % ncells
    ops = [["fill", c0, 1, crowd]]
    if big:
        # hundreds of agents overall, spread over the space
        for a in range(crowd + 1, n + 1):
            ops.append(["set", a, rng.randrange(ncells)])
    crowd_ids = list(range(1, crowd + 1))
    rng.shuffle(crowd_ids)
    victims = crowd_ids[:8]
    ops += [["coll_view", "empties"], ["set", victims[0], c1], ["remove", victims[1]], ["set", victims[2], None], ["move_to", victims[3], c1],
            ["move_rel", victims[4], _rand_dir(rng, sp, ncells, c0)], ["set", victims[0], c0], ["new", base], ["set", n + 1, c0],
            ["rand_empty", False], ["set", victims[5], c0], ["remove", victims[6]], ["set", victims[2], c0]]
    if not big:
        ops += [["coll_select", "all", ["atleast", rng.choice([100, 128, 129, 256])], None], ["coll_rand_agent", "all"], ["probe"]]
    # empty the crowded cell step by step across the threshold, then refill
    ops += [["set", a, c1] for a in crowd_ids[8:8 + rng.randint(2, 6)]]
    if rng.random() < 0.5:
        ops += [["remove_all"], ["new", base], ["set", n + 2, c0], ["rand_empty", True]]
    else:
        ops += [["fill", c1, 1, crowd], ["fill", c0, 1, crowd // 2], ["set", victims[7], None]]
    case = {"space": sp, "agents": kinds, "seed": rng.randrange(1000), "ops": ops, "scale": True}
    if big:
        case["nomodel"] = True
    return case


# ------------------------------------------------------------------ USER-CODE stream (wave 10): implementation + oracle only
USER_AGENTS = ["plain_cell", "plain_fixed", "plain_grid2d", "picky", "logging", "propcell", "reentrant", "fixedsub", "docsub"]
USER_CELLS = ["stock", "falsy_when_empty", "hooked", "declining", "eqcell"]


def _user_case(rng):
    """user subclasses as the library intends them (overridden move_to / move_relative / remove / cell property calling super,
    declining, extending; Cell subclasses with hooks, class-level defaults, falsy / iterable instances, value equality), callbacks
    that re-enter the space, and the three removal entry points.  No model run: user code is not modelled; the oracle is the
    statement over the implementation's own state after every operation."""
    sp = _rand_space(rng)
    if isinstance(sp.get("capacity"), (str, float)) or sp.get("capacity") == 0:
        sp["capacity"] = rng.choice([None, 1, 2])
    if sp["type"] == "voronoi":
        sp["caps"] = [rng.choice([None, 1, 2, 3]) for _ in sp["points"]]
    ncells = _n_cells(sp)
    n = rng.randint(2, 9)
    kinds = [rng.choice(USER_AGENTS) for _ in range(n)]
    if rng.random() < 0.6:
        kinds[0] = rng.choice(["picky", "reentrant", "propcell", "logging"])
    ops = []
    for a in range(1, n + 1):
        if rng.random() < 0.85:
            ops.append([rng.choice(["set", "set", "move_to", "place_rand"]), a, rng.randrange(ncells)])
    for _ in range(rng.randint(4, 24)):
        a = rng.randint(1, n)
        r = rng.random()
        if r < 0.25:
            ops.append(["set", a, rng.choice([rng.randrange(ncells), rng.randrange(ncells), None])])
        elif r < 0.40:
            ops.append(["move_to", a, rng.randrange(ncells)])
        elif r < 0.55:
            ops.append(["move_rel", a, _rand_dir(rng, sp, ncells)])
        elif r < 0.63:
            ops.append(["move2d", a, _rand_name(rng), rng.choice([1, 1, 2, 3])])
        elif r < 0.78:
            ops.append(["remove", a])
        elif r < 0.83:
            ops.append([rng.choice(["remove_all", "do_remove", "do_remove_callable"])])
        elif r < 0.90:
            ops.append(["place_rand", a, rng.randrange(ncells)])
        elif r < 0.95:
            ops.append(["new", rng.choice(USER_AGENTS)])
            n += 1
        else:
            ops.append(["rand_empty", rng.random() < 0.5])
    if rng.random() < 0.5:
        ops.append([rng.choice(["remove_all", "do_remove", "do_remove_callable"])])
    return {"space": sp, "agents": kinds, "seed": rng.randrange(1000), "ops": ops, "nomodel": True,
            "user": {"cell": rng.choice(USER_CELLS)}}


def gen_cases(rng, tier):
    cases = _corner_cases()
    for _ in range(40 if tier == "quick" else 1500):
        cases.append(_user_case(rng))
    for k in range(5 if tier == "quick" else 60):
        cases.append(_scale_case(rng, big=(k % 5 == 4)))
    n = 1000 if tier == "quick" else 20000
    for _ in range(n):
        cases.append(_rand_case(rng))
    return cases


def enumerate_cases(tier, broken=False):
    """targeted exhaustive sweep: tiny spaces of every type x capacity {None,1,2} x three agents
    (CellAgent, FixedAgent, Grid2DMovingAgent); after placing agent 1, EVERY sequence of 2 (thorough: 3)
    operations from the alphabet {assign any agent to any cell / None, remove any agent, remove_all_agents, move_relative,
    move(name, k)}, followed by both emptiness strategies."""
    spaces = [
        {"type": "moore", "dims": [1, 2], "torus": False},
        {"type": "vonneumann", "dims": [2], "torus": True},
        {"type": "hex", "dims": [1, 2], "torus": False},
        {"type": "network", "graph": GRAPHS[1]},
        {"type": "voronoi", "points": VORONOI_POINTS[0][:3], "caps": None},
        {"type": "vonneumann", "dims": [2, 1], "torus": False},
    ]
    if broken:
        import random as _r

        urng = _r.Random(20261)
        for _ in range(400):
            yield _user_case(urng)
        srng = _r.Random(20260)
        for k in range(40):
            yield _scale_case(srng, big=(k % 4 == 3))
    kinds = ["cell", "fixed", "grid2d"]
    depth = 3 if tier == "thorough" else 2
    for sp0 in spaces:
        for cap in (None, 1, 2):
            sp = dict(sp0)
            sp["capacity"] = cap
            if sp["type"] == "voronoi":
                sp["caps"] = [cap]
            ncells = _n_cells(sp)
            cells = list(range(min(2, ncells)))
            alphabet = []
            for a in (1, 2, 3):
                for c in cells:
                    alphabet.append(["set", a, c])
                alphabet.append(["remove", a])
            alphabet.append(["set", 1, None])
            alphabet.append(["remove_all"])
            if sp["type"] == "network":
                alphabet.append(["move_rel", 1, [1]])
            elif sp["type"] == "voronoi":
                alphabet.append(["move_rel", 1, [0, 1]])
            else:
                alphabet.append(["move_rel", 3, [0, 1] if len(sp["dims"]) == 2 else [1]])
            alphabet.append(["move2d", 3, "east", 2])
            alphabet.append(["move2d", 3, "south", 1])
            for seq in itertools.product(alphabet, repeat=depth):
                yield {"space": sp, "agents": kinds, "seed": 0,
                       "ops": [["set", 3, 0]] + [list(o) for o in seq] + [["rand_empty", False], ["place_rand", 1, False]]}


# ------------------------------------------------------------------ implementation side
_CAP_TAGS = {"true": True, "big": 10 ** 20}


def _cap(v):
    """capacity value of a case: plain JSON values, or a tag for bool / huge / numpy values"""
    if isinstance(v, str):
        if v in ("npf2", "npi3"):
            import numpy as np

            return np.float64(2.0) if v == "npf2" else np.int64(3)     # numpy ints pass only where nothing validates (Network)
        return _CAP_TAGS[v]
    return v


def _build_space(sp, rnd, cell_klass=None):
    import warnings

    from mesa.discrete_space import HexGrid, Network, OrthogonalMooreGrid, OrthogonalVonNeumannGrid, VoronoiGrid

    t = sp["type"]
    with warnings.catch_warnings():
        warnings.simplefilter("ignore")
        if t in ("moore", "vonneumann", "hex"):
            cls = {"moore": OrthogonalMooreGrid, "vonneumann": OrthogonalVonNeumannGrid, "hex": HexGrid}[t]
            kw = {"cell_klass": cell_klass} if cell_klass is not None else {}
            return cls(tuple(sp["dims"]), torus=bool(sp["torus"]), capacity=_cap(sp["capacity"]), random=rnd, **kw)
        if t == "network":
            import networkx as nx

            g = nx.Graph()
            g.add_nodes_from(sp["graph"]["nodes"])
            g.add_edges_from([tuple(e) for e in sp["graph"]["edges"]])
            kw = {"cell_klass": cell_klass} if cell_klass is not None else {}
            return Network(g, capacity=_cap(sp["capacity"]), random=rnd, **kw)
        caps = [_cap(v) for v in (sp.get("caps") or [sp["capacity"]])]
        counter = itertools.count()
        kw = {"cell_klass": cell_klass} if cell_klass is not None else {}
        return VoronoiGrid([list(p) for p in sp["points"]], capacity=_cap(sp["capacity"]), random=rnd,
                           capacity_function=lambda area: caps[next(counter) % len(caps)], **kw)


def _at_most_value(am):
    """the at_most argument of a coll_select op: None = inf, an int / bool, ["frac", n, d] = the float n/d (<= 1.0),
    ["npf", n, d] = numpy.float64(n/d), ["float", f] = a float > 1.0"""
    if am is None:
        return float("inf")
    if isinstance(am, list):
        if am[0] == "float":
            return float(am[1])
        if am[0] == "npf":
            import numpy as np

            return np.float64(am[1] / am[2])
        return am[1] / am[2]
    return am


# the model computes int(len * f) exactly (len * n / d); non-dyadic fractions are only generated where binary64 agrees
for _n, _d in ((3, 10), (7, 10)):
    assert all(int(_l * (_n / _d)) == _l * _n // _d for _l in range(0, 65)), (_n, _d)


def _key_of(sp, d):
    """direction key as the space uses it: node id on networks, tuple elsewhere"""
    if sp["type"] == "network":
        return d[0] if len(d) == 1 else tuple(d)
    return tuple(d)


def _dirs_used(case):
    keys = []
    for op in case["ops"]:
        if op[0] in ("move_rel", "connect") and len(op) > (2 if op[0] == "move_rel" else 3):
            k = [int(x) for x in (op[2] if op[0] == "move_rel" else op[3])]
            if k not in keys:
                keys.append(k)
    if any(op[0] == "move2d" for op in case["ops"]):
        for v in VECTORS:
            if list(v) not in keys:
                keys.append(list(v))
    return keys


def _static(case, space=None):
    import math

    """what the model needs from the real space: capacities and the connection rows of the directions
    this history uses (cell.connections.get(key) for every cell)"""
    if space is None:
        import random

        space = _build_space(case["space"], random.Random(0))
    cells = list(space._cells.values())
    index = {id(c): i for i, c in enumerate(cells)}
    raw_caps = [c.capacity for c in cells]
    caps = [None if q is None else int(math.ceil(q)) for q in raw_caps]      # admission test n >= q  <=>  n >= ceil(q)
    frac = [bool(q is not None and q != int(math.ceil(q))) for q in raw_caps]  # len == q is never true then
    rows = []
    for k in _dirs_used(case):
        key = _key_of(case["space"], k)
        row = []
        for c in cells:
            t = c.connections.get(key)
            row.append(index[id(t)] if t is not None else -1)
        rows.append([k, row])
    return {"ncells": len(cells), "caps": caps, "frac": frac, "conn": rows, "grid": case["space"]["type"] in ("moore", "vonneumann", "hex")}


def _classify(e, kind="", fixed=False, bad_name=False):
    """exception -> error kind, by exception TYPE and POSITION (the function that raised: innermost frame of the
    traceback), never by the message text"""
    where = ""
    tb = e.__traceback__
    while tb is not None:
        where = tb.tb_frame.f_code.co_name
        tb = tb.tb_next
    if type(e) is Exception:
        return E_FULL if where == "add_agent" else 99
    if isinstance(e, IndexError):
        return E_NOEMPTY
    if isinstance(e, AttributeError):
        return E_ATTR
    if type(e) is ValueError:
        if where == "remove_agent":
            return E_NOTIN                      # list.remove(x): x not in list
        if where == "cell":
            return E_FIXED                      # the FixedCell setter
        if where == "move_relative":
            return E_NODIR
        if where == "move":
            return E_BADDIR if bad_name else E_NODIR
    return 99


SITE = {"set": "cell-setter", "move_to": "cell-setter", "move_rel": "move_relative", "move2d": "move2d", "remove": "remove", "remove_all": "remove_all_agents",
        "rand_empty": "select_random_empty_cell", "place_rand": "place-random-empty"}


def _run_user(case):
    """driver + oracle of the USER-CODE stream"""
    import random as _random
    import warnings

    import mesa
    from mesa.discrete_space import Cell, CellAgent, FixedAgent, Grid2DMovingAgent

    sp = case["space"]
    seed = case.get("seed", 0)
    log = []

    # ---- Cell subclasses
    class FalsyWhenEmpty(Cell):
        """truth value / length / iteration follow the occupants"""
        def __bool__(self):
            return not self.is_empty

        def __len__(self):
            return len(self._agents)

        def __iter__(self):
            return iter(self.agents)

    class Hooked(Cell):
        terrain = "plain"                       # class-level default

        def __init__(self, *a, **k):
            super().__init__(*a, **k)
            self.visits = 0                     # extra attribute

        def add_agent(self, agent):
            super().add_agent(agent)
            self.visits += 1
            hook = getattr(agent, "on_enter", None)
            if hook:
                hook(self)

        def remove_agent(self, agent):
            super().remove_agent(agent)
            hook = getattr(agent, "on_leave", None)
            if hook:
                hook(self)

    class Declining(Cell):
        """refuses some agents BEFORE anything happens (a legitimate veto)"""
        def add_agent(self, agent):
            if getattr(agent, "unique_id", 0) % 4 == 0:
                raise RuntimeError("this cell does not take that agent")
            super().add_agent(agent)

    class EqCell(Cell):
        """value equality by coordinate"""
        def __eq__(self, other):
            return isinstance(other, Cell) and self.coordinate == other.coordinate

        def __hash__(self):
            return hash(("cell", str(self.coordinate)))

    cell_klass = {"stock": None, "falsy_when_empty": FalsyWhenEmpty, "hooked": Hooked, "declining": Declining, "eqcell": EqCell}[case["user"]["cell"]]
    model = mesa.Model(seed=seed)
    rnd = _random.Random(seed)
    space = _build_space(sp, rnd, cell_klass)
    is_grid = sp["type"] in ("moore", "vonneumann", "hex")
    cells = list(space._cells.values())
    ncells = len(cells)
    cidx = {id(c): i for i, c in enumerate(cells)}
    layer = space._mesa_property_layers["empty"] if is_grid else None
    failures = []
    if cell_klass is not None:
        # a Cell subclass (falsy, iterable, hooked ...) must get the connections the stock Cell gets: moves depend on them
        twin = _build_space(sp, _random.Random(seed), None)
        tcells = list(twin._cells.values())
        tidx = {id(c): i for i, c in enumerate(tcells)}
        for j, (c, t) in enumerate(zip(cells, tcells)):
            mine = {k: cidx.get(id(v), -9) for k, v in c.connections.items()}
            stock = {k: tidx.get(id(v), -9) for k, v in t.connections.items()}
            if mine != stock:
                failures.append({"key": "C06/user-code/connections-differ-from-stock-cells", "op": -1,
                                 "what": f"cell {j} of a space built with cell_klass={cell_klass.__name__} has connections {mine}, with the stock Cell {stock}"})
                break

    # ---- agent subclasses
    class Picky(CellAgent):
        """only moves into a cell that has room, otherwise stays put (declines None and full cells)"""
        def move_to(self, cell):
            if cell is None or cell.is_full:
                return
            super().move_to(cell)

    class Logging(Grid2DMovingAgent):
        def __init__(self, model, tag="x"):
            super().__init__(model)
            self.tag = tag                      # extra constructor argument

        def move_to(self, cell):
            log.append(("move_to", self.unique_id))
            super().move_to(cell)

        def move_relative(self, direction):
            log.append(("move_relative", self.unique_id))
            return super().move_relative(direction)

        def remove(self):
            log.append(("remove", self.unique_id))
            super().remove()

    class PropCell(CellAgent):
        """overrides the cell property, delegating to the inherited one"""
        sets = 0

        @property
        def cell(self):
            return CellAgent.cell.fget(self)

        @cell.setter
        def cell(self, value):
            type(self).sets += 1
            CellAgent.cell.fset(self, value)

    class Reentrant(CellAgent):
        """its hooks and its remove() call back into the public API"""
        buddy = None

        def on_enter(self, cell):
            _ = (cell.is_empty, cell.is_full, len(list(space.empties)), len(list(space.agents)))
            b = self.buddy
            if b is not None and b is not self and b.cell is not None and rnd.random() < 0.5:
                free = list(space.empties)
                if free:
                    try:
                        b.cell = rnd.choice(free)
                    except Exception:  # noqa: BLE001   the callback handles its own rejections (a FixedAgent, a declining cell)
                        pass

        def on_leave(self, cell):
            _ = len(list(space.all_cells.agents))

        def remove(self):
            _ = [c.is_empty for c in space.all_cells]
            b = self.buddy
            if b is not None and b is not self and b.cell is not None and self.cell is not None and not self.cell.is_full:
                try:
                    b.move_to(self.cell)
                except Exception:  # noqa: BLE001
                    pass
            super().remove()

    class FixedSub(FixedAgent):
        def remove(self):
            log.append(("fixed-remove", self.unique_id))
            super().remove()

    class DocSub(CellAgent):
        """a docstring-only subclass"""

    klass = {"plain_cell": CellAgent, "plain_fixed": FixedAgent, "plain_grid2d": Grid2DMovingAgent, "picky": Picky, "logging": Logging,
             "propcell": PropCell, "reentrant": Reentrant, "fixedsub": FixedSub, "docsub": DocSub}
    agents = []

    def make(kind):
        a = klass[kind](model, "t") if kind == "logging" else klass[kind](model)
        if isinstance(a, Reentrant):
            # the agent its callbacks move: never another re-entrant one (no agent is moved while it is itself in transit)
            calm = [x for x in agents if not isinstance(x, Reentrant)]
            if calm:
                a.buddy = calm[(len(agents) * 7 + seed) % len(calm)]
        agents.append(a)

    for k in case["agents"]:
        make(k)
    obs = []

    def check(i, op):
        """the statement of C06 on the implementation's own state (no shadow: user code decides what an operation does)"""
        lists = [list(c.agents) for c in cells]
        where = {}
        for j, l in enumerate(lists):
            for x in l:
                where.setdefault(id(x), []).append(j)
        for n_, ag in enumerate(agents, 1):
            js = where.get(id(ag), [])
            inmodel = ag in model.agents
            c = ag.cell
            ci = cidx.get(id(c)) if c is not None else None
            if not inmodel and js:
                return failures.append({"key": "C06/user-code/removed-agent-still-listed", "op": i,
                                        "what": f"after {op}: agent {n_} ({case['agents'][n_ - 1] if n_ <= len(case['agents']) else 'new'}) has left the model but cell(s) {js} still list it"})
            if inmodel or not isinstance(ag, FixedAgent):
                want = [] if ci is None else [ci]
                if js != want:
                    return failures.append({"key": "C06/user-code/mirror", "op": i,
                                            "what": f"after {op}: agent {n_} reports cell {ci} but is listed in {js}"})
        for j, c in enumerate(cells):
            l = lists[j]
            if c.capacity and len(l) > c.capacity:
                return failures.append({"key": "C06/user-code/capacity-exceeded", "op": i, "what": f"after {op}: cell {j} of capacity {c.capacity} holds {len(l)} agents"})
            if bool(c.is_empty) != (not l) or (c.capacity is not None and c.capacity >= 1 and bool(c.is_full) != (len(l) == c.capacity)):
                return failures.append({"key": "C06/user-code/is_empty-is_full", "op": i, "what": f"after {op}: cell {j} lists {len(l)} agents, is_empty={c.is_empty}, is_full={c.is_full}"})
            if is_grid and bool(layer.data[c.coordinate]) != (not l):
                return failures.append({"key": "C06/user-code/empty-layer", "op": i, "what": f"after {op}: cell {j} lists {len(l)} agents, layer says {bool(layer.data[c.coordinate])}"})
        emp = sorted(cidx.get(id(c), -9) for c in space.empties)
        if emp != [j for j in range(ncells) if not lists[j]]:
            return failures.append({"key": "C06/user-code/empties", "op": i, "what": f"after {op}: empties={emp}, lists empty at {[j for j in range(ncells) if not lists[j]]}"})
        listed = sorted(id(x) for l in lists for x in l)
        if sorted(id(x) for x in space.agents) != listed or sorted(id(x) for x in space.all_cells.agents) != listed:
            return failures.append({"key": "C06/user-code/agents", "op": i, "what": f"after {op}: space.agents / all_cells.agents differ from the cells' lists"})
        return None

    for i, op in enumerate(case["ops"]):
        kind = op[0]
        raised = None
        try:
            with warnings.catch_warnings():
                warnings.simplefilter("ignore")
                a = op[1] if len(op) > 1 and isinstance(op[1], int) else None
                ag = agents[a - 1] if a is not None and 1 <= a <= len(agents) else None
                if kind == "new":
                    if op[1] in klass and len(agents) < 14:
                        make(op[1])
                elif kind == "remove_all":
                    model.remove_all_agents()
                elif kind == "do_remove":
                    model.agents.do("remove")
                elif kind == "do_remove_callable":
                    model.agents.do(lambda x: x.remove())
                elif kind == "rand_empty":
                    if is_grid:
                        space._try_random = bool(op[1]) and any(c.is_empty for c in cells)
                    space.select_random_empty_cell()
                elif ag is None or (ag not in model.agents and kind != "remove"):
                    pass        # agents that have left the model are not placed again in this stream
                elif kind == "set":
                    ag.cell = cells[op[2]] if op[2] is not None and 0 <= op[2] < ncells else None
                elif kind == "move_to" and hasattr(ag, "move_to"):
                    ag.move_to(cells[op[2] % ncells])
                elif kind == "move_rel" and hasattr(ag, "move_relative"):
                    ag.move_relative(_key_of(sp, [int(x) for x in op[2]]))
                elif kind == "move2d" and hasattr(ag, "move"):
                    ag.move(str(op[2]), int(op[3]))
                elif kind == "remove":
                    ag.remove()
                elif kind == "place_rand":
                    if is_grid:
                        space._try_random = False
                    ag.cell = space.select_random_empty_cell()
        except Exception as e:  # noqa: BLE001   vetoes, rejections, user errors: the history carries on
            raised = e
        obs.append([-1, 0] if raised is not None else [0])
        if not failures:
            try:
                check(i, op)
            except Exception as e:  # noqa: BLE001
                failures.append({"key": "C06/user-code/view-unexpected-exception", "op": i, "what": f"after {op}: observing raised {type(e).__name__}: {e}"})
    return {"obs": obs, "failures": failures, "model": False}


def run_impl(case):
    if "user" in case:
        return _run_user(case)
    import math

    import mesa
    from mesa.discrete_space import CellAgent, FixedAgent, Grid2DMovingAgent

    import random as _random

    class _BoundedRandom(_random.Random):
        """the space's generator; a rejection-sampling loop that does not terminate (the implementation sees
        no empty cell where the history has one) is cut off instead of hanging the check"""
        draws = 0

        def choice(self, seq):
            self.draws += 1
            if self.draws > 5000:
                raise RuntimeError("select_random_empty_cell did not terminate (5000 draws)")
            return super().choice(seq)

    from mesa.discrete_space import Cell, OrthogonalMooreGrid

    # objects whose truth value is False / whose len() is 0, and subclasses of subclasses (the code must test `is None`)
    class _FalsyCellAgent(CellAgent):
        def __bool__(self):
            return False

    class _ZeroLenGrid2D(Grid2DMovingAgent):
        def __len__(self):
            return 0

    class _SubFixed(FixedAgent):
        pass

    class _SubSubFixed(_SubFixed):
        def __bool__(self):
            return False

    class _FalsyCell(Cell):
        def __bool__(self):
            return False

        def __len__(self):
            return 0

    sp = case["space"]
    seed = case.get("seed", 0)
    model = mesa.Model(seed=seed)
    rnd = _BoundedRandom(seed)
    if seed % 4 == 1:
        # prior history in the same process: another grid (own GridCell class, own 'empty' layer) with an agent in it
        with __import__("warnings").catch_warnings():
            __import__("warnings").simplefilter("ignore")
            decoy = OrthogonalMooreGrid((2, 3), capacity=1, random=_random.Random(1))
        decoy_agent = CellAgent(mesa.Model(seed=1))
        decoy_agent.cell = decoy._cells[(0, 0)]
    space = _build_space(sp, rnd, _FalsyCell if seed % 3 == 1 else None)
    is_grid = sp["type"] in ("moore", "vonneumann", "hex")
    cells = list(space._cells.values())
    ncells = len(cells)
    cidx = {id(c): i for i, c in enumerate(cells)}
    caps = [c.capacity for c in cells]
    kinds = list(case["agents"])
    n = len(kinds)
    variants = {"cell": [CellAgent, _FalsyCellAgent], "fixed": [FixedAgent, _SubSubFixed], "grid2d": [Grid2DMovingAgent, _ZeroLenGrid2D]}

    class _Klass(dict):
        """kind -> class for the NEXT agent: the plain class or, every other agent, its falsy / sub-sub-class variant"""
        def __getitem__(self, k):
            return variants[k][(seed + len(agents)) % 2]

        def __contains__(self, k):
            return k in variants

    agents = []
    klass = _Klass()
    for k in kinds:
        agents.append(klass[k](model))                  # strong references for the whole history
    aid = {id(a): i + 1 for i, a in enumerate(agents)}
    static = _static(case, space)
    layer = space._mesa_property_layers["empty"] if is_grid else None

    def ids_of(lst):
        return [aid.get(id(x), 0) for x in lst]

    def view():
        v = []
        for a in agents:
            c = a.cell
            v += [cidx.get(id(c), -9) if c is not None else -1, 1 if a in model.agents else 0]
        v.append(-4)
        for c in cells:
            l = ids_of(c.agents)
            v += [len(l)] + l + [1 if c.is_empty else 0, 1 if c.is_full else 0]
            if is_grid:
                v.append(1 if bool(layer.data[c.coordinate]) else 0)
        v.append(-5)
        v += sorted(cidx.get(id(c), -9) for c in space.empties)
        v.append(-6)
        v += sorted(ids_of(space.all_cells.agents))
        v.append(-7)
        v += sorted(ids_of(space.agents))
        return v

    # ---- the oracle's shadow: where every agent is according to the history alone
    loc = {a: None for a in range(1, len(agents) + 1)}
    regd = {a: True for a in range(1, len(agents) + 1)}
    dangling = set()         # removed FixedAgents: their pointer is left on its value by design
    failures = []
    poisoned = [False]

    def occupants(c):
        return [a for a in range(1, len(agents) + 1) if loc[a] == c]

    def full(c, entering):
        cap = caps[c]
        return bool(cap) and len([a for a in occupants(c) if a != entering]) >= cap

    def fail(key, i, what):
        # once the state has been found inconsistent, later failures are consequences, not evidence
        if not poisoned[0]:
            failures.append({"key": key, "op": i, "what": what})

    def check_state(site, i, op):
        """the statement of C06 over the implementation's own state; first failing clause only"""
        lists = [ids_of(c.agents) for c in cells]
        listed_in = {}
        for j, l in enumerate(lists):
            for b in l:
                listed_in.setdefault(b, []).append(j)
        occ_map = {}
        for b, cj in loc.items():
            if cj is not None:
                occ_map.setdefault(cj, []).append(b)

        def occupants(j):         # shadows the linear scan of the enclosing scope (same result, built once per check)
            return occ_map.get(j, [])

        class _Cnt:
            def __init__(self, js):
                self.js = js

            def __getitem__(self, j):
                return self.js.count(j)

            def __iter__(self):
                return iter([self.js.count(j) for j in set(self.js)])

        for a in range(1, len(agents) + 1):
            ag = agents[a - 1]
            if ag not in model.agents and kinds[a - 1] == "fixed":
                continue            # a removed FixedAgent keeps its pointer by design
            c = ag.cell
            ci = cidx.get(id(c)) if c is not None else None
            mine = listed_in.get(a, [])
            cnt = _Cnt(mine)
            if ci is not None and cnt[ci] == 0:
                return fail(f"C06/{site}/mirror-agent-not-listed", i,
                            f"after {op}: agent {a} reports cell {ci} but that cell lists {lists[ci]}")
            if any(k > 1 for k in cnt):
                return fail(f"C06/{site}/mirror-listed-twice", i, f"after {op}: agent {a} is listed more than once: {lists}")
            others = sorted({j for j in mine if j != ci})
            if others:
                return fail(f"C06/{site}/mirror-listed-elsewhere", i,
                            f"after {op}: agent {a} reports cell {ci} but is listed in cell(s) {others}")
        for j, l in enumerate(lists):
            if caps[j] and len(l) > math.ceil(caps[j]):
                return fail(f"C06/{site}/capacity-exceeded", i, f"after {op}: cell {j} of capacity {caps[j]} holds {l}")
        # the history's truth
        for a in range(1, len(agents) + 1):
            ag = agents[a - 1]
            if (ag in model.agents) != regd[a]:
                return fail(f"C06/{site}/registration", i, f"after {op}: agent {a} registered={ag in model.agents}, the history says {regd[a]}")
            if a in dangling:
                continue
            c = ag.cell
            ci = cidx.get(id(c), -9) if c is not None else None
            if ci != loc[a]:
                return fail(f"C06/{site}/agent-in-wrong-cell", i, f"after {op}: agent {a} reports cell {ci}, the history puts it in {loc[a]}")
        for j, l in enumerate(lists):
            occ = occupants(j)
            if sorted(l) != occ:
                what = "removed-agent-still-listed" if any(not regd[x] for x in l if x not in occ) else "cell-agents-wrong"
                return fail(f"C06/{site}/{what}", i, f"after {op}: cell {j} lists {l}, the history puts {occ} there")
        for j, c in enumerate(cells):
            occ = occupants(j)
            if bool(c.is_empty) != (not occ):
                return fail(f"C06/{site}/is_empty", i, f"after {op}: cell {j} holds {occ} but is_empty={c.is_empty}")
            if caps[j] is not None and caps[j] >= 1 and bool(c.is_full) != (len(occ) == caps[j]):
                return fail(f"C06/{site}/is_full", i, f"after {op}: cell {j} of capacity {caps[j]} holds {occ} but is_full={c.is_full}")
            if caps[j] is None and c.is_full:
                return fail(f"C06/{site}/is_full", i, f"after {op}: cell {j} without capacity reports is_full")
            if is_grid and bool(layer.data[c.coordinate]) != (not occ):
                return fail(f"C06/{site}/empty-layer", i, f"after {op}: cell {j} holds {occ} but the 'empty' layer says {bool(layer.data[c.coordinate])}")
            if is_grid and bool(c.empty) != (not occ):
                return fail(f"C06/{site}/empty-layer", i, f"after {op}: cell {j} holds {occ} but cell.empty={c.empty}")
        emp = sorted(cidx.get(id(c), -9) for c in space.empties)
        if emp != [j for j in range(ncells) if not occupants(j)]:
            return fail(f"C06/{site}/empties", i, f"after {op}: empties={emp}, the cells without agents are {[j for j in range(ncells) if not occupants(j)]}")
        sa = sorted(ids_of(space.agents))
        exp = sorted(a for a in range(1, len(agents) + 1) if loc[a] is not None)
        if sa != exp:
            return fail(f"C06/{site}/agents", i, f"after {op}: space.agents={sa}, the placed agents are {exp}")
        raw = sorted(ids_of(space.all_cells.agents))
        if raw != exp:
            return fail(f"C06/{site}/agents", i, f"after {op}: all_cells.agents={raw}, the placed agents are {exp}")
        # views that hold the cells' list OBJECTS: all_cells[cell] and the cached neighbourhoods
        ac = space.all_cells
        for j in sample_cells:
            got = sorted(ids_of(ac[cells[j]]))
            if got != sorted(occupants(j)):
                return fail(f"C06/{site}/all_cells-item", i, f"after {op}: all_cells[cell {j}] lists {got}, the history puts {sorted(occupants(j))} there")
        if not connections_edited[0]:
            for j in sample_cells:
                got = sorted(ids_of(cells[j].neighborhood.agents))
                want = sorted(b for nb in neighbours[j] for b in occupants(nb))
                if got != want:
                    return fail(f"C06/{site}/neighborhood-agents", i,
                                f"after {op}: cell {j}.neighborhood.agents = {got}, its neighbours {neighbours[j]} hold {want}")
        return None

    # cells whose all_cells[...] entry and cached neighbourhood are compared (all of them on small spaces)
    sample_cells = list(range(ncells)) if ncells <= 30 else sorted({0, 1, ncells // 2, ncells - 1} | {(seed * 7 + 13 * t) % ncells for t in range(8)})
    neighbours = {j: sorted({cidx[id(t)] for t in cells[j].connections.values() if t is not cells[j]}) for j in sample_cells}
    connections_edited = [False]
    for j in sample_cells:
        _ = cells[j].neighborhood          # built (and cached) now, before any agent is placed
    obs = []
    ops_out = []
    try:
        prev = view()
    except Exception as e:  # noqa: BLE001
        return {"obs": [[-1, 99] for _ in case["ops"]], "model": False,
                "failures": [{"key": "C06/view/unexpected-exception", "op": -1, "what": f"observing a fresh space raised {type(e).__name__}: {e}"}]}

    def probes():
        """C18 fault enumeration: every kind of call the history says must be rejected in the current state
        (at most 12, spread over agents and cells), as explicit operations"""
        out = []
        fullc = [c for c in range(ncells) if full(c, 0)]
        for a in range(1, len(agents) + 1):
            k = kinds[a - 1]
            if k == "fixed":
                if loc[a] is not None or a in dangling:
                    out.append(["set", a, (loc[a] + 1) % ncells if loc[a] is not None else 0])
                elif fullc:
                    out.append(["set", a, fullc[a % len(fullc)]])
                continue
            tg = [c for c in fullc if c != loc[a]]
            if tg:
                out.append(["set" if a % 2 else "move_to", a, tg[a % len(tg)]])
            if loc[a] is None:
                out.append(["move_rel", a, [1] if sp["type"] == "network" else [0, 1]])
            else:
                cell = cells[loc[a]]
                if sp["type"] == "network":
                    cand = [[v] for v in list(sp["graph"]["nodes"]) + [max(sp["graph"]["nodes"]) + 1]]
                elif sp["type"] == "voronoi":
                    cand = [[loc[a], j] for j in range(ncells + 1)]
                else:
                    nd = len(sp["dims"])
                    cand = []
                    for ax in range(nd):
                        for dlt in (-1, 1):
                            v = [0] * nd
                            v[ax] = dlt
                            cand.append(v)
                    cand.append([2] * nd)
                missing = [d for d in cand if cell.connections.get(_key_of(sp, d)) is None]
                if missing:
                    out.append(["move_rel", a, missing[a % len(missing)]])
                if k == "grid2d":
                    out.append(["move2d", a, "nowhere", 1])
                    for nm in ("north", "east", "southwest"):
                        cur, off = cell, False
                        for _ in range(7):
                            cur = cur.connections.get(ORACLE_DIRS[nm])
                            if cur is None:
                                off = True
                                break
                        if off:
                            out.append(["move2d", a, nm, 7])
                            break
        if len(out) > 12:
            step_ = len(out) / 12.0
            out = [out[int(j * step_)] for j in range(12)]
        return out

    outside = [False]     # a direct cell.add_agent / remove_agent call has been made: outside the quantifier of C06

    def extra_op(i, op):
        """round 3: agents created mid-history, direct cell.add_agent / remove_agent, CellCollection views"""
        nonlocal prev
        kind = op[0]
        if kind == "new":
            if op[1] not in klass or len(agents) >= 12:
                obs.append([-2] + prev)
                ops_out.append(["noop"])
                return
            ag = klass[op[1]](model)
            agents.append(ag)
            kinds.append(op[1])
            a = len(agents)
            aid[id(ag)] = a
            loc[a] = None
            regd[a] = True
            cur = view()
            obs.append([0, a] + cur)
            ops_out.append(["new", op[1]])
            if not poisoned[0]:
                check_state("new-agent", i, op)
            prev = cur
            return
        if kind in ("cell_add", "cell_remove"):
            c, a = op[1], op[2]
            if not (isinstance(c, int) and 0 <= c < ncells and isinstance(a, int) and 1 <= a <= len(agents)):
                obs.append([-2] + prev)
                ops_out.append(["noop"])
                return
            raised = None
            try:
                if kind == "cell_add":
                    cells[c].add_agent(agents[a - 1])
                else:
                    cells[c].remove_agent(agents[a - 1])
            except Exception as e:  # noqa: BLE001
                raised = e
            cur = view()
            if raised is not None:
                code = E_FULL if type(raised) is Exception else E_NOTIN if isinstance(raised, ValueError) else 99
                obs.append([-1, code] + cur)
                if cur != prev and not poisoned[0]:
                    fail(f"C18/cell-space/cell.{'add' if kind == 'cell_add' else 'remove'}_agent", i,
                         f"{op} raised {type(raised).__name__}: {raised} but changed the observable state: before {prev} after {cur}")
                if code == 99:
                    fail("C06/cell-direct-call/unexpected-exception", i, f"{op} raised {type(raised).__name__}: {raised}")
            else:
                obs.append([0] + cur)
            ops_out.append(list(op))
            # the statement of C06 quantifies over placements through agent.cell / move_* / remove only: from here on the
            # history is compared with the model but no longer judged by the oracle
            outside[0] = True
            poisoned[0] = True
            prev = cur
            return
        if kind == "fill":
            # scale: n placements in a row (rejections skipped), one observation at the end
            c, a0, cnt_n = op[1], op[2], op[3]
            if not (isinstance(c, int) and 0 <= c < ncells and isinstance(a0, int) and isinstance(cnt_n, int)):
                obs.append([-2] + prev)
                ops_out.append(["noop"])
                return
            okc = 0
            for a in range(a0, a0 + cnt_n):
                if not (1 <= a <= len(agents)):
                    continue
                fixed = kinds[a - 1] == "fixed"
                expect_ok = (not full(c, a) or loc[a] == c) if not fixed else (loc[a] is None and a not in dangling and not full(c, a))
                try:
                    agents[a - 1].cell = cells[c]
                    okc += 1
                    loc[a] = c
                except Exception as e:  # noqa: BLE001
                    if expect_ok:
                        fail("C06/cell-setter/unexpected-exception", i, f"fill: agent {a} into cell {c} raised {type(e).__name__}: {e}")
                        poisoned[0] = True
            cur = view()
            obs.append([0, okc] + cur)
            ops_out.append(["fill", c, a0, cnt_n])
            if not poisoned[0]:
                before = len(failures)
                check_state("cell-setter", i, op)
                if len(failures) > before:
                    poisoned[0] = True
            prev = cur
            return
        if kind == "layer_query":
            # READ-ONLY calls of the neighbouring property-layer API on grids: they touch the same 'empty' layer and must
            # leave every C06 view unchanged (interaction of two public features)
            if not is_grid or not isinstance(op[1], int):
                obs.append([-2] + prev)
                ops_out.append(["noop"])
                return
            import warnings as _w

            import numpy as np

            v = op[1] % 12
            returned = None
            with _w.catch_warnings():
                _w.simplefilter("ignore")
                try:
                    if "sugar" not in space._mesa_property_layers:
                        lay = space.create_property_layer("sugar", default_value=0, dtype=int)
                        for j, c in enumerate(cells):
                            lay.data[c.coordinate] = (j * 7 + seed) % 5
                    dims = tuple(space.dimensions)
                    m1 = np.ones(dims, dtype=bool)
                    m1[cells[0].coordinate] = False
                    m2 = np.zeros(dims, dtype=bool)
                    for j, c in enumerate(cells):
                        m2[c.coordinate] = (j % 3 != 1)
                    if v == 0:
                        returned = space.select_cells(only_empty=True)
                    elif v == 1:
                        returned = space.select_cells(extreme_values={"sugar": "highest"}, only_empty=True)
                    elif v == 2:
                        space.select_cells(extreme_values={"sugar": "lowest"}, only_empty=True, return_list=False)
                    elif v == 3:
                        returned = space.select_cells(conditions={"sugar": lambda d: d >= 2}, only_empty=True)
                    elif v == 4:
                        returned = space.select_cells(masks=m1, only_empty=True)
                    elif v == 5:
                        returned = space.select_cells(conditions={"sugar": lambda d: d <= 3}, extreme_values={"sugar": "highest"},
                                                      masks=[m1, m2], only_empty=True)
                    elif v == 6:
                        space.select_cells(extreme_values={"sugar": "highest", "empty": "highest"}, masks=m2, only_empty=True, return_list=False)
                    elif v == 7:
                        space.get_neighborhood_mask(cells[(i + seed) % ncells].coordinate, include_center=bool(i % 2), radius=1 + i % 2)
                    elif v == 8:
                        space._mesa_property_layers["empty"].aggregate(np.sum)
                        space._mesa_property_layers["sugar"].aggregate(np.max)
                    elif v == 9:
                        space._mesa_property_layers["empty"].select_cells(lambda d: d)
                        space._mesa_property_layers["empty"].select_cells(lambda d: ~d, return_list=False)
                    elif v == 10:
                        _ = space.empty.data.sum() + int(space.empty.data[cells[0].coordinate])
                        space.select_cells(only_empty=False, extreme_values={"sugar": "lowest"})
                    else:
                        space.select_cells(conditions={"empty": lambda d: d}, extreme_values={"sugar": "lowest"}, only_empty=True)
                except Exception:  # noqa: BLE001   a query may legitimately fail (e.g. an extreme value over no cell); it still must change nothing
                    returned = None
            cur = view()
            obs.append([-2] + cur)
            ops_out.append(["noop"])
            if cur != prev:
                fail("C06/layer-query/changed-emptiness-views", i,
                     f"the read-only property-layer call #{v} (select_cells / get_neighborhood_mask / aggregate / reading the 'empty' layer) "
                     f"changed the C06 views: before {prev} after {cur}")
                poisoned[0] = True
            elif returned is not None and not poisoned[0]:
                coord = {tuple(int(q) for q in c.coordinate): j for j, c in enumerate(cells)}
                bad = [tuple(int(q) for q in r) for r in returned if occupants(coord.get(tuple(int(q) for q in r), -1))]
                if bad:
                    fail("C06/layer-query/only-empty-returned-occupied", i, f"select_cells(only_empty=True) variant #{v} returned occupied cells {bad}")
            prev = cur
            return
        if kind in ("connect", "disconnect", "conn_query"):
            # Cell.connect / Cell.disconnect edit the live connections that move_relative / move read
            keys = [list(k) for k, _ in static["conn"]]
            c = op[1]
            o2 = op[2] if kind != "conn_query" else 0
            if not (isinstance(c, int) and 0 <= c < ncells and isinstance(o2, int) and 0 <= o2 < ncells):
                obs.append([-2] + prev)
                ops_out.append(["noop"])
                return
            if kind != "conn_query":
                connections_edited[0] = True      # cached neighbourhoods are C07's business from here on
            try:
                if kind == "connect":
                    cells[c].connect(cells[o2], _key_of(sp, [int(v) for v in op[3]]))
                    obs.append([0] + prev)
                    ops_out.append(["connect", c, o2, [int(v) for v in op[3]]])
                elif kind == "disconnect":
                    cells[c].disconnect(cells[o2])
                    obs.append([0] + prev)
                    ops_out.append(["disconnect", c, o2, keys])
                else:
                    got = [cells[c].connections.get(_key_of(sp, k)) for k in keys]
                    obs.append([0] + [cidx.get(id(t), -9) if t is not None else -1 for t in got] + prev)
                    ops_out.append(["conn_query", c, keys])
            except Exception as e:  # noqa: BLE001
                obs.append([-1, 99] + prev)
                ops_out.append(["noop"])
                fail("C06/connect/unexpected-exception", i, f"{op} raised {type(e).__name__}: {e}")
            return
        w = op[1]
        if w not in ("all", "empties"):
            obs.append([-2] + prev)
            ops_out.append(["noop"])
            return
        if kind == "coll_select":
            pred, am = op[2], op[3]
            pk = pred[0]
            fns = {"any": None, "empty": lambda cl: cl.is_empty, "nonempty": lambda cl: not cl.is_empty,
                   "atleast": lambda cl: len(cl.agents) >= pred[1], "idxmod": lambda cl: cidx[id(cl)] % pred[1] == pred[2],
                   "has": lambda cl: 1 <= pred[1] <= len(agents) and agents[pred[1] - 1] in cl.agents}
            if pk not in fns or (pk == "idxmod" and pred[1] <= 0):
                obs.append([-2] + prev)
                ops_out.append(["noop"])
                return
            coll = space.all_cells if w == "all" else space.empties
            amv = _at_most_value(am)
            try:
                res = coll.select(fns[pk], amv) if i % 2 else coll.select(filter_func=fns[pk], at_most=amv)
                cl = [cidx.get(id(c), -9) for c in res.cells]
                al = ids_of(res.agents)
            except Exception as e:  # noqa: BLE001
                obs.append([-1, 99] + prev)
                ops_out.append(["noop"])
                fail(f"C06/collection-{w}/select-unexpected-exception", i, f"{op} raised {type(e).__name__}: {e}")
                return
            obs.append([0, len(cl)] + cl + [-9] + al + prev)
            ops_out.append(list(op))
            # the statement (as for AgentSet.select, C03): the first `limit` members, in order, that pass the filter
            members = list(range(ncells)) if w == "all" else [j for j in range(ncells) if not occupants(j)]
            sh = {"any": lambda j: True, "empty": lambda j: not occupants(j), "nonempty": lambda j: bool(occupants(j)),
                  "atleast": lambda j: len(occupants(j)) >= pred[1], "idxmod": lambda j: j % pred[1] == pred[2],
                  "has": lambda j: pred[1] in occupants(j)}[pk]
            match = [j for j in members if sh(j)]
            lim = amv
            if isinstance(lim, float) and lim <= 1.0:
                lim = int(len(members) * lim)
            # the generator stops as soon as count >= limit
            exp = match if lim == float("inf") else match[:max(int(math.ceil(lim)), 0)]
            if cl != exp:
                fail(f"C06/collection-{w}/select", i, f"{op}: selected cells {cl}; the first {lim} of {members} passing the filter are {exp}")
            elif sorted(al) != sorted(b for j in exp for b in occupants(j)):
                fail(f"C06/collection-{w}/select-agents", i, f"{op}: agents of the selection {al}")
            return
        free = [j for j in range(ncells) if not occupants(j)]
        placed = sorted(b for b in loc if loc[b] is not None)
        rnd.draws = 0
        raised, ret = None, None
        try:
            coll = space.all_cells if w == "all" else space.empties
            if kind == "coll_rand_cell":
                ret = coll.select_random_cell()
            elif kind == "coll_rand_agent":
                ret = coll.select_random_agent()
            else:
                ret = ([cidx.get(id(c), -9) for c in coll.cells], ids_of(coll.agents), len(coll))
        except Exception as e:  # noqa: BLE001
            raised = e
        site = f"collection-{w}"
        if raised is not None:
            code = E_NOEMPTY if isinstance(raised, IndexError) else 99
            obs.append([-1, code] + prev)
            ops_out.append([kind, w, None])
            expect_members = (list(range(ncells)) if w == "all" else free) if kind == "coll_rand_cell" else (placed if w == "all" else [])
            if code == 99 or (expect_members and kind != "coll_view") or kind == "coll_view":
                fail(f"C06/{site}/unexpected-exception", i, f"{op} raised {type(raised).__name__}: {raised}")
            return
        if kind == "coll_rand_cell":
            rj = cidx.get(id(ret), -9)
            obs.append([0, rj] + prev)
            ops_out.append([kind, w, rj])
            if rj < 0 or (w == "empties" and occupants(rj)):
                fail(f"C06/{site}/random-cell-not-a-member", i, f"{op} returned cell {rj}; cells without agents are {free}")
        elif kind == "coll_rand_agent":
            ra = aid.get(id(ret), 0)
            obs.append([0, ra] + prev)
            ops_out.append([kind, w, ra])
            if w == "empties" or ra not in placed:
                fail(f"C06/{site}/random-agent-not-a-member", i, f"{op} returned agent {ra}; the placed agents are {placed}")
        else:
            cl, al, ln = ret
            obs.append([0, ln] + cl + [-9] + al + prev)
            ops_out.append([kind, w])
            exp_c = list(range(ncells)) if w == "all" else free
            exp_a = placed if w == "all" else []
            if sorted(cl) != exp_c or len(set(cl)) != len(cl) or ln != len(exp_c):
                fail(f"C06/{site}/cells", i, f"{op}: cells {cl} (len {ln}), expected {exp_c}")
            elif sorted(al) != exp_a:
                fail(f"C06/{site}/agents", i, f"{op}: agents {al}, expected {exp_a}")

    queue = [list(o) for o in case["ops"]]
    i = -1
    while queue:
        op = queue.pop(0)
        if op[0] == "probe":
            if not poisoned[0]:
                queue[0:0] = probes()
            continue
        i += 1
        kind = op[0]
        op_m = list(op)
        if kind in ("new", "cell_add", "cell_remove", "coll_rand_cell", "coll_rand_agent", "coll_view", "coll_select", "connect",
                    "disconnect", "conn_query", "layer_query", "fill"):
            extra_op(i, op)
            continue
        a = op[1] if kind not in ("rand_empty", "remove_all") else None
        # ---- applicability (total driver: the shrinker deletes arbitrary ops)
        na = False
        if a is not None and not (isinstance(a, int) and 1 <= a <= len(agents)):
            na = True
        elif kind in ("set", "move_to") and op[2] is not None and not (0 <= op[2] < ncells):
            na = True
        elif kind in ("move_to", "move_rel") and kinds[a - 1] == "fixed":
            na = True
        elif kind == "move2d" and kinds[a - 1] != "grid2d":
            na = True
        if na:
            obs.append([-2] + prev)
            ops_out.append(op_m)
            continue
        ag = agents[a - 1] if a is not None else None
        site = SITE[kind]
        if kind == "set" and kinds[a - 1] == "fixed":
            site = "fixed-setter"
        if kind == "remove" and kinds[a - 1] == "fixed":
            site = "fixed-remove"
        # ---- what the history alone says should happen: (must_not_raise, new location or keep)
        must_succeed = None      # True: a rejection is a failure; None: not constrained by the statement
        new_loc = "keep"
        if kind in ("set", "move_to"):
            tgt = op[2]
            if kinds[a - 1] == "fixed":
                has = loc[a] is not None or a in dangling
                if tgt is not None and not has:
                    must_succeed = not full(tgt, a)
                new_loc = tgt
            else:
                must_succeed = True if tgt is None or tgt == loc[a] else not full(tgt, a)
                new_loc = tgt
        elif kind == "move_rel":
            if loc[a] is not None:
                t = cells[loc[a]].connections.get(_key_of(sp, [int(x) for x in op[2]]))
                if t is not None:
                    tj = cidx[id(t)]
                    must_succeed = True if tj == loc[a] else not full(tj, a)
                    new_loc = tj
        elif kind == "move2d":
            name = str(op[2]).lower()
            k = int(op[3])
            if name in ORACLE_DIRS:
                if k <= 0:
                    must_succeed = True
                elif loc[a] is not None:
                    cur = loc[a]
                    path_free = True
                    for _ in range(k):
                        t = cells[cur].connections.get(ORACLE_DIRS[name])
                        if t is None:
                            cur = None
                            break
                        cur = cidx[id(t)]
                        if cur != loc[a] and full(cur, a):
                            path_free = False
                    if cur is not None:
                        new_loc = cur
                        # passing over a full cell on the way is not constrained by the statement
                        must_succeed = True if path_free else None
        elif kind == "remove":
            first = regd[a]
            must_succeed = True if (kinds[a - 1] != "fixed" or first) else None
        elif kind == "remove_all":
            must_succeed = True
        elif kind in ("rand_empty", "place_rand"):
            strat = bool(op[-1])
            have_empty = any(not c._agents for c in cells) if outside[0] else any(not occupants(j) for j in range(ncells))
            if not have_empty and is_grid and strat:
                # rejection sampling without an empty cell never returns: not run (known non-finding)
                obs.append([-1, E_LOOP] + prev)
                ops_out.append(op_m + [None])
                continue
        # ---- run it
        raised = None
        ret = None
        rnd.draws = 0
        try:
            if kind == "set":
                ag.cell = cells[op[2]] if op[2] is not None else None
            elif kind == "move_to":
                ag.move_to(cells[op[2]]) if i % 2 else ag.move_to(cell=cells[op[2]])
            elif kind == "move_rel":
                dkey = _key_of(sp, [int(x) for x in op[2]])
                ag.move_relative(dkey) if i % 2 else ag.move_relative(direction=dkey)
            elif kind == "move2d":
                if i % 3 == 0:
                    ag.move(str(op[2]), int(op[3]))
                elif i % 3 == 1:
                    ag.move(direction=str(op[2]), distance=int(op[3]))
                elif int(op[3]) == 1:
                    ag.move(str(op[2]))                 # the default distance
                else:
                    ag.move(str(op[2]), distance=int(op[3]))
            elif kind == "remove":
                ag.remove()
            elif kind == "remove_all":
                model.remove_all_agents()
            elif kind in ("rand_empty", "place_rand"):
                if is_grid:
                    space._try_random = bool(op[-1])
                ret = space.select_random_empty_cell()
                if kind == "place_rand":
                    ag.cell = ret
            else:
                raise KeyError(kind)
        except Exception as e:  # noqa: BLE001
            raised = e
        rj = cidx.get(id(ret), -9) if ret is not None else None
        if kind in ("rand_empty", "place_rand") and raised is None and ret is None:
            rj = -9
            fail("C06/select_random_empty_cell/returned-no-cell", i, f"{op}: select_random_empty_cell returned None")
            poisoned[0] = True
        if kind in ("rand_empty", "place_rand"):
            op_m = op_m + [rj]
            have_empty = any(not occupants(j) for j in range(ncells))
            if have_empty:
                if ret is None:
                    fail(f"C06/select_random_empty_cell/unexpected-exception", i,
                         f"{op}: raised {type(raised).__name__}: {raised} although cells {[j for j in range(ncells) if not occupants(j)]} hold no agent")
                    poisoned[0] = True
                elif occupants(rj) or rj < 0:
                    fail("C06/select_random_empty_cell/returned-occupied-cell", i,
                         f"{op}: returned cell {rj}, which holds agents {occupants(rj)}")
                    poisoned[0] = True
                if kind == "place_rand" and ret is not None and rj >= 0 and not occupants(rj):
                    if kinds[a - 1] == "fixed" and (loc[a] is not None or a in dangling):
                        must_succeed = None
                    else:
                        must_succeed = bool(caps[rj] is None or caps[rj] >= 0)
                    new_loc = rj
        ops_out.append(op_m)
        # ---- observe
        try:
            cur = view()
        except Exception as e:  # noqa: BLE001
            fail("C06/view/unexpected-exception", i, f"after {op}: observing the space raised {type(e).__name__}: {e}")
            obs.append([-1, 99])
            poisoned[0] = True
            continue
        if raised is not None:
            code = _classify(raised, kind, a is not None and kinds[a - 1] == "fixed",
                             kind == "move2d" and str(op[2]).lower() not in ORACLE_DIRS)
            obs.append([-1, code] + cur)
            if cur != prev:
                fail(f"C18/cell-space/{site}", i,
                     f"{op} raised {type(raised).__name__}: {raised} but changed the observable state "
                     f"(agent cells/registration, cell lists, emptiness views): before {prev} after {cur}")
            if must_succeed:
                fail(f"C06/{site}/unexpected-exception", i, f"{op} raised {type(raised).__name__}: {raised}; the history gives no reason for a rejection")
                poisoned[0] = True
            elif code == 99:
                fail(f"C06/{site}/unexpected-exception", i, f"{op} raised {type(raised).__name__}: {raised}")
                poisoned[0] = True
        else:
            obs.append(([0, rj] if kind == "rand_empty" else [0]) + cur)
            # the history's truth moves on
            if kind == "remove_all":
                for b in range(1, len(agents) + 1):
                    if regd[b]:
                        regd[b] = False
                        if kinds[b - 1] == "fixed" and loc[b] is not None:
                            dangling.add(b)
                        loc[b] = None
            elif kind == "remove":
                regd[a] = False
                if kinds[a - 1] == "fixed" and loc[a] is not None:
                    dangling.add(a)
                loc[a] = None
            elif kind == "rand_empty":
                pass
            elif new_loc != "keep":
                loc[a] = new_loc
            elif kind in ("move_rel", "move2d") and not (kind == "move2d" and int(op[3]) <= 0):
                # a move the history could not resolve (no such direction / no cell) did not raise
                fail(f"C06/{site}/no-rejection", i, f"{op} returned although the agent has no cell in that direction")
                poisoned[0] = True
        if not poisoned[0]:
            before = len(failures)
            check_state(site, i, op)
            if len([f for f in failures[before:] if f["key"].startswith("C06/")]):
                poisoned[0] = True
        prev = cur
    # caller-owned constructor arguments must come back unchanged
    try:
        if sp["type"] == "network":
            same = (list(space.G.nodes) == list(sp["graph"]["nodes"])
                    and {tuple(sorted(e)) for e in space.G.edges} == {tuple(sorted(e)) for e in sp["graph"]["edges"]})
        elif sp["type"] == "voronoi":
            same = [list(p) for p in space.centroids_coordinates] == [list(p) for p in sp["points"]]
        else:
            same = tuple(space.dimensions) == tuple(sp["dims"])
        if not same:
            failures.append({"key": "C06/caller-arguments/mutated", "op": len(obs) - 1,
                             "what": "the graph / point list / dimensions handed to the space were changed by the history"})
    except Exception as e:  # noqa: BLE001
        failures.append({"key": "C06/caller-arguments/mutated", "op": len(obs) - 1, "what": f"cannot re-read the constructor arguments: {e}"})
    out = {"obs": obs, "failures": failures, "ops_for_model": {"ops": ops_out, "static": static}}
    if case.get("nomodel"):
        out["model"] = False          # hundreds of cells: implementation + oracle only (the Gallina text would be dominated by the tables)
    return out


# ------------------------------------------------------------------ model side
def _codes(s):
    return L.zlist([ord(ch) for ch in str(s)])


def _opt(v):
    return "None" if v is None else f"(Some {L.z(v)})"


def _api(op):
    k = op[0]
    if k == "set":
        return f"SetCell {L.z(op[1])} {_opt(op[2])}"
    if k == "move_to":
        return f"MoveTo {L.z(op[1])} {L.z(op[2])}"
    if k == "move_rel":
        return f"MoveRel {L.z(op[1])} {L.zlist(op[2])}"
    if k == "move2d":
        return f"Move2D {L.z(op[1])} {_codes(op[2])} {L.z(op[3])}"
    if k == "remove":
        return f"Remove {L.z(op[1])}"
    if k == "remove_all":
        return "RemoveAll"
    if k == "rand_empty":
        return f"RandomEmpty {L.b(op[1])} {_opt(op[2] if len(op) > 2 else None)}"
    if k == "place_rand":
        return f"PlaceRandomEmpty {L.z(op[1])} {L.b(op[2])} {_opt(op[3] if len(op) > 3 else None)}"
    if k == "noop":
        return "Remove 0"         # an operation naming a missing agent: NotApplicable in the model too
    raise ValueError(k)


def coq_case(case):
    if "user" in case:
        # user-code histories are not run on the model: an empty history over a one-cell space (only printed for replay files)
        return ("{| x_base := {| c_ncells := 1; c_caps := [None]; c_conn := []; c_grid := false; c_kinds := []; c_ops := [] |}; "
                "x_born0 := 0; x_frac := [false]; x_ops := [] |}")
    m = case.get("_ops_for_model")
    if m:
        ops_src, st = m["ops"], m["static"]
    else:
        ops_src, st = case["ops"], _static(case)
    ops = []
    all_kinds = list(case["agents"])
    coll = {"all": "CAll", "empties": "CEmpties"}
    for op in ops_src:
        k = op[0]
        if k == "probe":
            continue        # only present when the driver did not run (it expands probes into explicit operations)
        if k == "new":
            if op[1] in ("cell", "fixed", "grid2d"):
                all_kinds.append(op[1])
                ops.append("NewAgent")
            else:
                ops.append("Api (Remove 0)")
        elif k == "cell_add":
            ops.append(f"CellAdd {L.z(op[1])} {L.z(op[2])}")
        elif k == "cell_remove":
            ops.append(f"CellRemove {L.z(op[1])} {L.z(op[2])}")
        elif k == "coll_rand_cell" and op[1] in coll:
            ops.append(f"CollRandomCell {coll[op[1]]} {_opt(op[2] if len(op) > 2 else None)}")
        elif k == "coll_rand_agent" and op[1] in coll:
            ops.append(f"CollRandomAgent {coll[op[1]]} {_opt(op[2] if len(op) > 2 else None)}")
        elif k == "coll_view" and op[1] in coll:
            ops.append(f"CollView {coll[op[1]]}")
        elif k == "coll_select" and op[1] in coll:
            pr = op[2]
            pt = {"any": "PAny", "empty": "PEmpty", "nonempty": "PNonEmpty"}.get(pr[0]) or (
                f"(PAtLeast {L.z(pr[1])})" if pr[0] == "atleast" else f"(PIdxMod {L.z(pr[1])} {L.z(pr[2])})" if pr[0] == "idxmod"
                else f"(PHas {L.z(pr[1])})")
            am = op[3]
            if am is None:
                at = "AInf"
            elif isinstance(am, list) and am[0] == "float":
                import math as _m

                at = f"(AInt {L.z(int(_m.ceil(am[1])))})"      # count >= 2.5  <=>  count >= 3
            elif isinstance(am, list):
                at = f"(AFrac {L.z(am[1])} {L.z(am[2])})"
            else:
                at = f"(AInt {L.z(int(am))})"
            ops.append(f"CollSelect {coll[op[1]]} {pt} {at}")
        elif k == "fill":
            ops.append(f"Fill {L.z(op[1])} {L.z(op[2])} {L.z(op[3])}")
        elif k == "connect":
            ops.append(f"Connect {L.z(op[1])} {L.z(op[2])} {L.zlist(op[3])}")
        elif k == "disconnect":
            ops.append(f"Disconnect {L.z(op[1])} {L.z(op[2])} {L.lst([L.zlist(q) for q in op[3]])}")
        elif k == "conn_query":
            ops.append(f"ConnQuery {L.z(op[1])} {L.lst([L.zlist(q) for q in op[2]])}")
        elif k in ("coll_rand_cell", "coll_rand_agent", "coll_view", "coll_select", "layer_query"):
            ops.append("Api (Remove 0)")
        else:
            ops.append(f"Api ({_api(op)})")
    runs = []
    for k in all_kinds:
        g = {"cell": "KCell", "fixed": "KFixed", "grid2d": "KGrid2D"}[k]
        if runs and runs[-1][0] == g:
            runs[-1][1] += 1
        else:
            runs.append([g, 1])
    kinds = " ++ ".join(f"repeat {g} {m}" if m > 3 else L.lst([g] * m) for g, m in runs) if runs else "[]"
    kinds = f"({kinds})"
    caps = L.lst([_opt(c) for c in st["caps"]])
    frac = L.lst([L.b(f) for f in st.get("frac", [False] * len(st["caps"]))])
    conn = L.lst([L.pair(L.zlist(k), L.zlist(row)) for k, row in st["conn"]])
    base = (f"{{| c_ncells := {st['ncells']}; c_caps := {caps}; c_conn := {conn}; c_grid := {L.b(st['grid'])}; "
            f"c_kinds := {kinds}; c_ops := [] |}}")
    return f"{{| x_base := {base}; x_born0 := {len(case['agents'])}; x_frac := {frac}; x_ops := {L.lst(ops)} |}}"


def op_kinds(case):
    if "user" in case:
        return [f"user[{case['user']['cell']}]:{op[0]}" for op in case["ops"]]
    out = []
    for op in case["ops"]:
        k = op[0]
        if k in ("set", "remove") and len(op) > 1 and isinstance(op[1], int) and 1 <= op[1] <= len(case["agents"]):
            k += "/" + case["agents"][op[1] - 1]
        if op[0] == "set" and len(op) > 2 and op[2] is None:
            k += "/None"
        if op[0] in ("rand_empty", "place_rand"):
            k += "/try_random" if op[-1] else "/empties"
        out.append(case["space"]["type"] + ":" + k)
    return out


def nontrivial(case):
    obs = case.get("_obs", [])
    return (len(case["ops"]) >= 3 and any(o and o[0] == -1 for o in obs)) or any(op[0] in ("remove", "remove_all") for op in case["ops"])


LEVEL_TEXT = ("Machine-checked Coq theorems (53 C06_* + 12 C18_cellspace_*, all closed under the global context, 13 non-vacuity examples) over an "
              "executable Gallina model of the cell spaces: Model/CellSpace.v (cell setter, FixedCell setter, move_to, move_relative, "
              "Grid2DMovingAgent.move, CellAgent/FixedAgent.remove, model.remove_all_agents, Cell.add_agent/remove_agent, is_empty, is_full, "
              "empties, space.agents, select_random_empty_cell under both strategies) and its extension Model/CellSpaceX.v (direct cell calls, "
              "agents created mid-history, all_cells / empties as CellCollection with select_random_cell / select_random_agent / "
              "select(filter, at_most), Cell.connect / disconnect with live connections, fractional capacities). For EVERY topology (connection "
              "function), capacity map and history: the mirror invariant agent.cell <-> cell.agents (listed exactly once, in no other cell), the "
              "capacity bound, agreement of flag/'empty' layer, is_empty, is_full, empties, space.agents, exactness of the random empty cell and of "
              "the collection views, removal detaches, every rejection is justified, every rejected call leaves the whole observation unchanged and "
              "is invisible to the rest of the history (C18 cell-space sites), a refinement to an abstract counting specification (the oracle's "
              "shadow dictionary), what survives direct cell.add_agent / remove_agent calls (and a refutation of the rest), and the boundary "
              "behaviour of capacity 0 / float capacities. Code-level T1: 14 methods of cell.py, cell_agent.py, discrete_space.py, grid.py are "
              "re-translated from the working tree into Gallina on every run and proved equal to the model functions by bridge lemmas "
              "(Proofs/CellSpaceBridge.v, step = gen_step), so the headline theorems are restated about the translated source "
              "(C06_mirror_of_source, C06_capacity_of_source, C06_views_agree_of_source, C18_cellspace_atomic_of_source); the DIRECTION_MAP table "
              "and two alpha-normalised statement skeletons cover what cannot be translated. T2: differential evaluation of model vs "
              "implementation on random, corner and exhaustively enumerated small histories over all five space types, with an independent "
              "shadow-dictionary oracle that supplies failing inputs.")
LEVEL_NOTE = ("The four defects found in this area (cell setter and FixedCell setter not atomic on a full cell, Grid2DMovingAgent.move stopping "
              "half-way, FixedAgent.remove without a cell / remove_all_agents stopping half-way; plus the later fix making a second FixedAgent.remove a no-op) are repaired by fix: commits in the repository; "
              "the model follows the repaired code and no known finding remains. Theorems are about the model; the bridge lemmas tie 14 methods to "
              "the source text, the rest (class dispatch, Agent.remove, random draws, CellCollection construction, connect/disconnect) is hand "
              "transcription validated by the correspondence only. Connections are data read from the real space (C07 proves what they are). "
              "Oracle-only: the caller-owned-arguments check, falsy / subclass agent and cell variants, keyword vs positional spellings (the model "
              "does not distinguish them). Trusted: Coq kernel, the translators, driver/observer, CPython list semantics as modelled. No axioms.")
TECHNIQUE = ("Coq proof (invariants by induction over histories, refinement, bridge lemmas to code regenerated from the source) + "
             "source-regenerated tables and alpha-normalised skeletons + vm_compute correspondence + shadow-dictionary oracle")
DESIGN_REF = "DESIGN.md section 4, C06 (and the cell-space sites of C18)"
