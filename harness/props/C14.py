"""C14 - the simulators run each live event once, in (time, priority, FIFO) order.
Model: Model/Devs.v (event list ordered by the key extracted from SimulationEvent.__lt__, both simulator
classes, user code as a small DSL).  Driver, oracle and printer are shared with C15 (devs_common.py)."""
import itertools
import random

from props import devs_common as D
from props.devs_common import coq_case, nontrivial, op_kinds, run_impl  # noqa: F401  (module API)

ID = "C14"
COQ_PROPERTY_FILE = "Properties/C14.v"
COQ_DEPS = ["Generated/Tables.v", "Model/Devs.v", "Model/DevsSpec.v", "Model/Heap.v", "Model/DevsHeap.v", "Proofs/DevsProofs.v", "Proofs/DevsOrderProofs.v",
            "Proofs/DevsOnceProofs.v", "Proofs/DevsLiveProofs.v", "Proofs/DevsAtomicProofs.v", "Proofs/DevsChunkProofs.v",
            "Proofs/DevsStepProofs.v", "Proofs/DevsTopProofs.v", "Proofs/DevsTop14Proofs.v", "Proofs/HeapProofs.v", "Proofs/DevsHeapProofs.v", "Proofs/DevsHeapSimProofs.v", "Proofs/DevsBridge.v", "Model/DevsLife.v", "Model/DevsHeapLife.v", "Proofs/DevsLifeProofs.v", "Proofs/DevsBoundaryProofs.v", "Proofs/DevsHeapLifeProofs.v"]
COQ_IMPORTS = "From Mesa Require Import Generated.Tables Model.Devs Model.DevsLife."
COQ_CASE_TYPE = "xcase"
COQ_RUN = "run_xcase"


def _enable_heap_tie():
    """the heapq tie: the correspondence runs the model that keeps the heapq ARRAY (Model/DevsHeap.v + DevsHeapLife.v) and the
    observations carry the order of EventList._events after every operation.  Always on in the thorough tier (set from
    gen_cases, before the workers are forked), on demand with VERIF_HEAPQ_TIE=1."""
    global COQ_IMPORTS, COQ_RUN
    D.HEAP_TIE = True
    COQ_IMPORTS = "From Mesa Require Import Generated.Tables Model.Devs Model.DevsLife Model.DevsHeap Model.DevsHeapLife."
    COQ_RUN = "run_xcase_heap"


if D.HEAP_TIE:
    _enable_heap_tie()
TABLE_CONSTRUCTS = ["devs_priority_values", "devs_event_key", "devs_step_priority",
                    "devs_skeleton", "devs_rel_code", "devs_abs_code", "devs_now_code", "devs_tick_code", "devs_schedule_event_code", "devs_run_for_code",
                    "devs_until_code", "devs_until_abm_code", "devs_abm_resched_code", "devs_execute_code", "devs_pop_code", "devs_peek_keeps_code", "devs_peek_full_code"]
S = D.S


# ------------------------------------------------------------------ generation
def _random_case(rng, cls, big=False):
    g = D.Gen(rng, cls)
    script = g.script(rng.randint(0, 8)) if g.abm and rng.random() < 0.5 else []
    ops = []
    for _ in range(rng.randint(1, 6)):
        ops.append(g.sched(2, False))
    total = rng.randint(20, 45) if big else rng.randint(5, 22)
    while len(ops) < total:
        x = rng.random()
        if x < 0.36:
            ops.append(g.sched(2, False))
        elif x < 0.68:
            ops.append(g.run_piece(p_outside=0.04))
        elif x < 0.80 and g.tags:
            ops.append(["cancel", rng.choice(g.tags[-6:]) if rng.random() < 0.7 else rng.choice(g.tags)])
        elif x < 0.96:
            ops.append(["peek", rng.choice([1, 1, 2, 3, 3, 4, 5, 6, 8, 12])])
        else:
            ops.append(["drop", rng.randrange(g.nh)])
    if rng.random() < 0.7:
        ops.append(["peek", rng.randint(2, 8)])
        g.clk = max(g.clk, g.tmax) + S
        ops.append(["until", g.clk, g.fl(g.clk)])
    case = {"cls": cls, "script": script, "fuel": 400, "ops": ops}
    if rng.random() < 0.04:
        case["setup"] = False       # setup(model) never called: run calls must raise and change nothing
    return case


def _peek_case(rng, cls):
    """k events pushed in a shuffled order of (time, priority), some cancelled, peak_ahead after every push"""
    g = D.Gen(rng, cls)
    k = rng.randint(3, 8)
    unit = S if g.abm else rng.choice([4, 8, 2])
    keys = [(rng.randint(0, 5) * unit, rng.choice("HDL")) for _ in range(k)]
    ops = []
    for t, p in keys:
        kind = rng.choice(["abs", "rel"])
        ops.append(["sched", kind, t, g.fl(t), p, g.new_tag(), rng.randrange(g.nh), []])
        if rng.random() < 0.4:
            ops.append(["peek", rng.randint(1, k)])
    if rng.random() < 0.5:
        ops.append(["cancel", rng.choice(g.tags)])
    ops.append(["peek", k + 1])
    h = rng.randint(0, 3) * unit
    ops.append(["until", h, g.fl(h)])
    ops.append(["peek", k])
    ops.append(["next"])
    ops.append(["peek", 2])
    return {"cls": cls, "script": [], "fuel": 400, "ops": ops}


def _inside_case(rng, cls):
    """events that schedule now / relative / absolute (also into the past and at a wrong unit), cancel and drop
    while the simulator is running"""
    g = D.Gen(rng, cls)
    ops = []
    for _ in range(rng.randint(2, 5)):
        o = g.sched(2, False, p_bad=0.0)
        if not o[7]:
            g.clk, save = max(g.clk, g.tmax), g.clk
            o[7] = [g.sched(1, True, p_bad=0.35) for _ in range(rng.randint(1, 3))]
            g.clk = save
        ops.append(o)
    for _ in range(rng.randint(2, 6)):
        ops.append(g.run_piece(p_next=0.35))
        if rng.random() < 0.3:
            ops.append(g.sched(1, False, p_bad=0.3))
    g.clk = max(g.clk, g.tmax) + S
    ops.append(["until", g.clk, g.fl(g.clk)])
    return {"cls": cls, "script": g.script(4) if rng.random() < 0.4 else [], "fuel": 400, "ops": ops}


# ------------------------------------------------------------------ non-dyadic float times (implementation + oracle only)
def _fcase(ops):
    return {"cls": "DEVS", "float": True, "script": [], "fuel": 400, "ops": ops}


def _float_pair_cases(kmax):
    """every pair of one-decimal times now <= t (tenths up to kmax/10): an event requested for t up front (clock 0), the clock
    advanced to `now` by run_until, a second event requested for the same t with another priority - once from the top
    level, once from inside an event that runs at `now` - then run_until(t) exactly on the requested time"""
    for a in range(1, kmax + 1):
        for b in range(a, kmax + 1):
            now, t = a / 10, b / 10
            yield _fcase([["sched", "abs", t, True, "L", 1, 0, []], ["until", now, True],
                          ["sched", "abs", t, True, "H", 2, 0, []], ["peek", 2], ["until", t, True]])
            yield _fcase([["sched", "abs", t, True, "D", 1, 0, []],
                          ["sched", "abs", now, True, "D", 2, 0, [["sched", "abs", t, True, "H", 3, 0, []],
                                                                  ["sched", "abs", t, True, "L", 4, 0, []]]],
                          ["until", t, True]])


def _float_case(rng):
    """decimal tenths / hundredths; the clock is moved to non-zero non-dyadic values (run_until to a decimal, run_for by decimal
    deltas so that it becomes a rounded sum) before events are requested for absolute decimal times, several of them for
    the same requested time with different priorities; horizons exactly on requested times"""
    tag = [0]
    requested = []          # absolute times asked for so far

    def nt():
        tag[0] += 1
        return tag[0]

    def dec(lo):
        if requested and rng.random() < 0.45:
            c = [t for t in requested if t >= lo]
            if c:
                return rng.choice(c)
        if rng.random() < 0.8:
            k = int(lo * 10) + rng.randint(0, 14)
            return k / 10
        k = int(lo * 100) + rng.randint(0, 90)
        return k / 100

    def sched(lo, depth):
        kind = rng.choice(["abs", "abs", "abs", "abs", "rel", "now"])
        if kind == "abs":
            t = dec(lo)
            if rng.random() < 0.04 and lo > 0.2:
                t = round(lo - rng.choice([0.1, 0.2]), 2)        # in the past (unless the clock is lower than believed)
            requested.append(t)
        elif kind == "rel":
            t = rng.choice([0.0, 0.1, 0.1, 0.2, 0.3, 0.7, 1.1, 0.05, 0.25, -0.1])
        else:
            t = 0.0
        body = []
        if depth > 0 and rng.random() < 0.4:
            inner_lo = t if kind == "abs" else lo
            for _ in range(rng.randint(1, 3)):
                if rng.random() < 0.85:
                    body.append(sched(max(inner_lo, lo), depth - 1))
                elif tag[0]:
                    body.append(["cancel", rng.randint(1, tag[0])])
        return ["sched", kind, t, True, rng.choice(["H", "D", "D", "L"]), nt(), 0, body]

    ops = []
    clk = 0.0
    for _ in range(rng.randint(1, 4)):
        ops.append(sched(0.0, 1))
    for _ in range(rng.randint(2, 4)):
        x = rng.random()
        if x < 0.55:
            c = [t for t in requested if t >= clk]
            clk = rng.choice(c) if c and rng.random() < 0.6 else dec(clk)
            ops.append(["until", clk, True])
        elif x < 0.9:
            d = rng.choice([0.1, 0.1, 0.2, 0.3, 0.7, 0.05])
            clk = clk + d
            ops.append(["for", d, True])
        else:
            ops.append(["next"])
            clk = max([clk] + requested)
        for _ in range(rng.randint(2, 5)):
            ops.append(sched(clk, 1))
        if rng.random() < 0.3:
            ops.append(["peek", rng.randint(1, 6)])
        if rng.random() < 0.2 and tag[0]:
            ops.append(["cancel", rng.randint(1, tag[0])])
    c = [t for t in requested if t >= clk]
    if c:
        clk = rng.choice(c)
        ops.append(["until", clk, True])
    clk = max([clk] + requested) + 0.5
    ops.append(["until", clk, True])
    return _fcase(ops)


def _life_case(rng, cls):
    """the life cycle: histories on a simulator that was (70%) or was not set up, with reset(), setup() after a reset, a second
    setup(), setup() while events are scheduled or at a non-zero clock, run calls while no model is attached, and cancel_event of
    events that ran or vanished before the reset"""
    g = D.Gen(rng, cls)
    ops = []
    case = {"cls": cls, "script": g.script(6, p=0.3), "fuel": 400, "ops": ops}
    if rng.random() < 0.3:
        case["setup"] = False
    for phase in range(rng.randint(2, 4)):
        for _ in range(rng.randint(0, 3)):
            ops.append(g.sched(1, False, p_bad=0.05))
        x = rng.random()
        if x < 0.25:
            ops.append(["setup"])               # second setup / setup with events pending / setup at a non-zero clock
        for _ in range(rng.randint(0, 3)):
            ops.append(g.run_piece(p_next=0.3))
            if rng.random() < 0.3:
                ops.append(g.sched(1, False))
        if g.tags and rng.random() < 0.5:
            ops.append(["cancel", rng.choice(g.tags)])          # often an event that already ran or was already cancelled
            if rng.random() < 0.3:
                ops.append(["cancel", ops[-1][1]])
        if rng.random() < 0.2:
            ops.append(["peek", rng.randint(1, 4)])
        y = rng.random()
        if y < 0.7:
            ops.append(["reset"])
            g.clk = 0
            if rng.random() < 0.25:
                ops.append(g.run_piece())               # no model attached: must raise
                g.clk = 0
            if rng.random() < 0.3:
                ops.append(g.sched(1, False))           # then setup must be refused (events already scheduled)
            if rng.random() < 0.85:
                ops.append(["setup"])
            if rng.random() < 0.2:
                ops.append(["setup"])
    for _ in range(rng.randint(1, 3)):
        ops.append(g.run_piece())
    return case


def _nested_case(rng, cls):
    """re-entrancy: callables (events, model.step) that call run_next_event() - also recursively - or reset() on the simulator that is
    executing them, mixed with scheduling for now / the future / the past and cancelling themselves, earlier and later events; every run
    path outside.  Implementation + nested_oracle only ("nested": true)."""
    tag = [0]

    def nt():
        tag[0] += 1
        return tag[0]

    def body(depth, t):
        out = []
        for _ in range(rng.randint(1, 4)):
            x = rng.random()
            if x < 0.3:
                out.append(["rnext"])
            elif x < 0.65:
                kind = rng.choice(["abs", "rel", "now", "now"] + (["tick"] if cls == "ABM" else []))
                tt = {"abs": t + rng.choice([-S, 0, 0, S, 2 * S]), "rel": rng.choice([0, S, S, 2 * S, -S])}.get(kind, 0)
                out.append(["sched", kind, max(tt, -S) if kind == "rel" else max(tt, 0), False, rng.choice("HDL"), nt(), 0,
                            body(depth - 1, t + S) if depth > 0 and rng.random() < 0.5 else []])
            elif x < 0.9 and tag[0]:
                out.append(["cancel", rng.choice([tag[0], rng.randint(1, tag[0]), tag[0] + 1])])
            elif x > 0.97 and cls == "DEVS":
                # (ABMSimulator: a reset() from inside an event leaves the enclosing run_until running without a model, and the next
                #  event then fails with AttributeError on self.model.step - HEAD's behaviour, outside the statement, not generated)
                out.append(["rreset"])
        return out

    ops = []
    for _ in range(rng.randint(2, 5)):
        t = rng.randint(0, 5) * S
        tg = nt()
        ops.append(["sched", "abs", t, False, rng.choice("HDL"), tg, 0, body(2, t)])
    script = [[k, body(1, k * S)] for k in range(1, 7) if rng.random() < 0.3] if cls == "ABM" else []
    clk = 0
    for _ in range(rng.randint(2, 5)):
        x = rng.random()
        if x < 0.3:
            ops.append(["next"])
            clk += S
        else:
            d = rng.randint(0, 3) * S
            clk += d
            ops.append(["until", clk, False] if x < 0.65 else ["for", d, False])
        if rng.random() < 0.3:
            ops.append(["sched", "rel", rng.randint(0, 2) * S, False, rng.choice("HDL"), nt(), 0, body(1, clk)])
    ops.append(["for", 12 * S, False])
    return {"cls": cls, "script": script, "fuel": 400, "ops": ops, "nested": True}


def _inject_raise(rng, body):
    """put one ["raise"] somewhere into this body or into the body of one of its schedule calls"""
    inner = [a for a in body if a[0] == "sched" and a[7]]
    if inner and rng.random() < 0.4:
        return _inject_raise(rng, rng.choice(inner)[7])
    body.insert(rng.randint(0, len(body)), ["raise"])


def _exc_case(rng, cls):
    """user callables (events, model.step) that raise in the middle of run_until / run_for / run_next_event; the history goes on
    afterwards (ARaise in the model: run through the correspondence like everything else).  The oracle: the exception
    propagates, the event is consumed, the clock stays at its time, everything else is untouched, and the continuation obeys
    C14 / C15."""
    c = _inside_case(rng, cls)
    g_ops = c["ops"]
    cands = [o for o in g_ops if o[0] == "sched"]
    for o in rng.sample(cands, min(len(cands), rng.randint(1, 2))):
        _inject_raise(rng, o[7])
    if cls == "ABM" and rng.random() < 0.5:
        k = rng.randint(1, 4)
        sc = dict((int(a), b) for a, b in c["script"])
        sc.setdefault(k, [])
        _inject_raise(rng, sc[k])
        c["script"] = [[a, b] for a, b in sorted(sc.items())]
    last = g_ops[-1]
    g_ops.append(["next"])
    g_ops.append(["until", last[1] + S, last[2]] if last[0] == "until" else ["for", S, False])
    g_ops.append(["until", (last[1] if last[0] == "until" else 0) + 40 * S, False])
    c["exc"] = True
    return c


BIG = 2 ** 60          # far beyond 2^53: an int time that a float cannot hold exactly
BIGS = [2 ** 31, 2 ** 53, 2 ** 60, 2 ** 63]


def _bigint_case(rng, cls):
    """int times above 2^53 (exact in Python ints and in the model's Z, not in a float): neighbouring instants BIG+k must stay
    distinct and ordered.  DEVSimulator: events at BIG+k, run_until to int horizons in between (the clock becomes an int),
    small int deltas afterwards; ABMSimulator (which steps every tick) only schedules, peeks and cancels up there."""
    tag = [0]
    BIG = rng.choice(BIGS) - rng.choice([0, 0, 1, 3])      # noqa: N806  (shadows the module constant on purpose)

    def nt():
        tag[0] += 1
        return tag[0]

    ops = []
    ks = [rng.randint(0, 6) for _ in range(rng.randint(3, 7))]
    for k in ks:
        ops.append(["sched", "abs", (BIG + k) * S, False, rng.choice("HDDL"), nt(), rng.randrange(4), []])
        if rng.random() < 0.3:
            ops.append(["peek", rng.randint(1, 5)])
    if rng.random() < 0.5:
        ops.append(["cancel", rng.randint(1, tag[0])])
    ops.append(["peek", len(ks) + 1])
    if cls == "DEVS":
        for h in sorted(rng.sample(range(0, 8), 3)):
            ops.append(["until", (BIG + h) * S, False])
            if rng.random() < 0.6:
                ops.append(["sched", "rel", rng.randint(0, 3) * S, False, rng.choice("HDL"), nt(), rng.randrange(4),
                            [["sched", "abs", (BIG + h + rng.randint(0, 3)) * S, False, "D", nt(), 0, []]]])
            if rng.random() < 0.4:
                ops.append(["next"])
            if rng.random() < 0.4:
                ops.append(["sched", "abs", (BIG + h - 1) * S, False, "D", nt(), 0, []])      # one tick in the past up there
        ops.append(["until", (BIG + 12) * S, False])
    else:
        ops.append(["until", rng.randint(1, 3) * S, False])
        ops.append(["sched", "abs", (BIG + 3) * S, False, "H", nt(), 1, []])
        ops.append(["peek", 3])
    return {"cls": cls, "script": [], "fuel": 400, "ops": ops}


def _wide_tie_case(rng, cls):
    """many events (40-60) for the same instant, most with the same priority: FIFO at scale (heap deeper than a few levels)"""
    n = rng.randint(40, 60)
    t = rng.randint(1, 2) * S
    ops = []
    for i in range(n):
        ops.append(["sched", rng.choice(["abs", "abs", "rel"]), t, cls == "DEVS" and rng.random() < 0.5,
                    rng.choice("DDDDDDHL"), i + 1, rng.randrange(4), []])
    for _ in range(rng.randint(0, 5)):
        ops.append(["cancel", rng.randint(1, n)])
    ops += [["peek", n], ["next"], ["next"], ["until", t, False], ["peek", 3], ["until", t + S, False]]
    return {"cls": cls, "script": [], "fuel": 400, "ops": ops}


SIZES = [8, 16, 32, 64, 100, 128, 256, 512]
BIG_SIZES = [1000, 1024, 2048]          # thousands of events: thorough tier and enumerate_cases only (implementation + oracle)
GAPS = [2 ** 8, 2 ** 16, 2 ** 18 + 1, 2 ** 20, 2 ** 22 + 1, 2 ** 31, 2 ** 32, 2 ** 53, 2 ** 63]


def _idgap_case(rng, cls, gap):
    """the process-wide event-id counter jumps by `gap` (other simulators created that many events) between schedule calls for the
    SAME instant: for every ordered pair of priorities an earlier event and, after the jump, a later one; more jumps before events
    scheduled from inside events and (ABMSimulator) before ticks whose model.step is scheduled late; then every run path.  Order must
    stay (time, priority, FIFO = id order) however far the ids are apart."""
    ops = []
    tag = 0
    t = 0
    for p1 in "HDL":
        for p2 in "HDL":
            t += S
            tag += 1
            inner = [["sched", "abs", t + S * rng.randint(0, 2), False, rng.choice("HDL"), 100 + tag, 0, []]] if rng.random() < 0.4 else []
            ops.append(["sched", rng.choice(["abs", "rel"]), t, False, p1, tag, rng.randrange(4), inner])
            ops.append(["idjump", gap + rng.randint(0, 3)])
            tag += 1
            ops.append(["sched", "abs", t, False, p2, tag, rng.randrange(4), []])
            if rng.random() < 0.3:
                ops.append(["peek", rng.randint(1, 4)])
    ops.append(["peek", 6])
    x = rng.random()
    if x < 0.35:
        ops += [["next"], ["idjump", gap], ["next"], ["until", 3 * S, False], ["idjump", gap], ["for", 3 * S, False]]
    elif x < 0.7:
        ops += [["until", 2 * S, False], ["idjump", gap], ["sched", "abs", 4 * S, False, "D", 90, 0, []], ["for", 2 * S, False], ["next"]]
    else:
        ops += [["for", S, False], ["idjump", gap], ["for", S, False], ["idjump", gap], ["for", S, False]]
    ops += [["peek", 5], ["until", 11 * S, False]]
    return {"cls": cls, "script": [[2, [["sched", "now", 0, False, "H", 95, 0, []]]]] if cls == "ABM" else [], "fuel": 400, "ops": ops}


def _mass_cancel_case(rng, cls, n, frac):
    """n events at random times / priorities (many ties), a fraction `frac` of them cancelled in random order - partly before, partly
    after a first partial run, with a few more scheduled in between - then run to the horizon: the survivors must still run in
    (time, priority, FIFO) order with a clock that never goes back, and the cancelled ones never.  Sizes cross 8/16/32/64/100/128/256/512
    (thresholds at which an implementation may compact, rebuild or re-heapify its list).  n > 70: implementation + oracle only."""
    span = max(4, n // 3)
    ops = []
    for i in range(n):
        t = rng.randint(0, span) * S
        ops.append(["sched", rng.choice(["abs", "abs", "rel"]), t, cls == "DEVS" and rng.random() < 0.3, rng.choice("DDDHL"), i + 1,
                    rng.randrange(4), []])
    victims = rng.sample(range(1, n + 1), int(n * frac))
    cut = rng.randint(len(victims) // 2, len(victims))
    for v in victims[:cut]:
        ops.append(["cancel", v])
    ops.append(["peek", rng.randint(1, 5)])
    h1 = rng.randint(0, span // 3) * S
    ops.append(["until", h1, False])
    for v in victims[cut:]:
        ops.append(["cancel", v])
    for j in range(rng.randint(0, 4)):
        ops.append(["sched", "abs", h1 + rng.randint(0, span) * S, False, rng.choice("DHL"), n + 1 + j, 0, []])
    ops.append(["peek", 4])
    ops.append(["next"])
    ops.append(["until", (span + 2) * S + h1, False])
    c = {"cls": cls, "script": [], "fuel": 900, "ops": ops}
    if n > 70:
        c["nomodel"] = True
    return c


def _exotic(rng, v):
    """the same instant as another kind of number: numpy float64 / int64 scalars, bool (DEVSimulator accepts every numbers.Number)"""
    x = rng.random()
    if isinstance(v, float) and v == int(v) and x < 0.35:
        return {"num": "npi", "v": int(v)} if x < 0.2 or int(v) not in (0, 1) else {"num": "bool", "v": bool(v)}
    if x < 0.75:
        return {"num": "npf", "v": v}
    return v        # (Fraction / Decimal are outside "int and float times": a Fraction clock + 0.0 is a float that may lie before it)


def _exotic_case(rng):
    """the float stream with times handed in as numpy float64 / int64 scalars and bools (oracle only)"""
    c = _float_case(rng)

    def walk(ops):
        for o in ops:
            if o[0] == "sched":
                if o[1] in ("abs", "rel") and rng.random() < 0.6 and o[2] >= 0:
                    o[2] = _exotic(rng, float(o[2]))
                walk(o[7])
            elif o[0] in ("until", "for") and rng.random() < 0.4:
                o[1] = _exotic(rng, float(o[1]))
    walk(c["ops"])
    return c


def gen_cases(rng, tier):
    if tier == "thorough":
        _enable_heap_tie()
    n = 400 if tier == "quick" else 30000
    cases = []
    for i in range(n):
        cls = "ABM" if rng.random() < 0.45 else "DEVS"
        x = rng.random()
        if x < 0.6:
            cases.append(_random_case(rng, cls, big=(tier == "thorough" and i % 5 == 0)))
        elif x < 0.8:
            cases.append(_peek_case(rng, cls))
        else:
            cases.append(_inside_case(rng, cls))
    for _ in range(100 if tier == "quick" else 4000):
        cases.append(_life_case(rng, "ABM" if rng.random() < 0.5 else "DEVS"))
    for _ in range(80 if tier == "quick" else 3000):
        cases.append(_exc_case(rng, "ABM" if rng.random() < 0.5 else "DEVS"))
    # user code in the loop: callables that re-enter the simulator (run_next_event / reset from inside an event or model.step)
    for _ in range(60 if tier == "quick" else 3000):
        cases.append(_nested_case(rng, "ABM" if rng.random() < 0.5 else "DEVS"))
    for _ in range(30 if tier == "quick" else 1500):
        cases.append(_bigint_case(rng, "DEVS" if rng.random() < 0.7 else "ABM"))
    for _ in range(10 if tier == "quick" else 200):
        cases.append(_wide_tie_case(rng, rng.choice(["ABM", "DEVS"])))
    # SCALE stream: the event-id counter jumps across 2^8 ... 2^63 between schedule calls for one instant (all priority pairs, every run path)
    for gap in (GAPS if tier == "quick" else GAPS * 12):
        for cls in ("ABM", "DEVS"):
            cases.append(_idgap_case(rng, cls, gap))
    if tier != "quick":
        for n in BIG_SIZES:
            cases.append(_mass_cancel_case(rng, rng.choice(["ABM", "DEVS"]), n + rng.randint(0, 2), rng.choice([0.3, 0.6, 0.9])))
    # many events, many of them cancelled, sizes around the thresholds (a small share here, the full grid in enumerate_cases)
    for k, n in enumerate(SIZES if tier == "quick" else SIZES * 6):
        cases.append(_mass_cancel_case(rng, "DEVS" if (k + rng.randint(0, 1)) % 2 else "ABM", n + rng.randint(1, 9), rng.choice([0.55, 0.75, 0.9])))
    for _ in range(50 if tier == "quick" else 2000):
        cases.append(_exotic_case(rng))
    # non-dyadic float times: implementation + oracle only (run_impl answers "model": False for them)
    cases += list(_float_pair_cases(18 if tier == "quick" else 40))
    for _ in range(120 if tier == "quick" else 4000):
        cases.append(_float_case(rng))
    return cases


def enumerate_cases(tier, broken=False):
    """every ordered triple (quadruple in the thorough tier) of events over times {0,1,2} x priorities {H,D,L},
    scheduled in that order, one of them cancelled or not, looked at with peak_ahead before and after a partial run,
    for both classes; plus every permutation of 5 distinct times"""
    rng = random.Random(4242)
    keys = [(t, p) for t in (0, S, 2 * S) for p in "HDL"]
    k = 4 if tier == "thorough" else 3
    for cls in ("DEVS", "ABM"):
        for n, combo in enumerate(itertools.product(keys, repeat=k)):
            if k == 4 and n % 3:
                continue
            ops = []
            for j, (t, p) in enumerate(combo):
                ops.append(["sched", "abs" if (n + j) % 2 else "rel", t, cls == "DEVS", p, j + 1, 0, []])
            ops.append(["peek", k])
            c = n % (k + 1)
            if c:
                ops.append(["cancel", c])
                ops.append(["peek", k])
            ops += [["until", S, cls == "DEVS"], ["peek", k], ["next"], ["until", 3 * S, cls == "DEVS"]]
            yield {"cls": cls, "script": [], "fuel": 400, "ops": ops}
        for perm in itertools.permutations(range(5)):
            ops = [["sched", "abs", (t + 1) * S, cls == "DEVS", "D", j + 1, 0, []] for j, t in enumerate(perm)]
            ops += [["peek", 5], ["until", 2 * S, False], ["peek", 5], ["for", 4 * S, False]]
            yield {"cls": cls, "script": [], "fuel": 400, "ops": ops}
    for _ in range(300 if tier == "quick" else 1500):
        yield _inside_case(rng, rng.choice(["ABM", "DEVS"]))
    for _ in range(400):
        yield _nested_case(rng, rng.choice(["ABM", "DEVS"]))
    for gap in GAPS:
        for cls in ("ABM", "DEVS"):
            for _ in range(6):
                yield _idgap_case(rng, cls, gap)
    for n in BIG_SIZES:
        for cls in ("DEVS", "ABM"):
            yield _mass_cancel_case(rng, cls, n + 1, 0.6)
    for n in SIZES:
        for frac in (0.25, 0.5, 0.75, 0.9):
            for cls in ("DEVS", "ABM"):
                for d in (-1, 1, 7):
                    yield _mass_cancel_case(rng, cls, max(2, n + d), frac)


RULE = ("histories = one ABMSimulator / DEVSimulator (set up, or - 4% / the life-cycle family 30% - never set up) + a sequence of "
        "schedule_event_now/_relative/_absolute/_next_tick, cancel_event, dropping the only strong reference to the callable, run_until / "
        "run_for / run_next_event, peak_ahead(n), reset(), setup(<new model>); events carry user code that schedules / cancels / drops / raises. "
        "Families (quick counts): general 400 (ints and dyadic floats, ties in time and priority, 6% past / wrong unit, 4% horizons outside the "
        "statement), peek after shuffled pushes, scheduling from inside events with 35% rejected calls, life cycle 100, user exceptions 80, "
        "int times above 2^53 30, 40-60 events at one instant 10 - all run on the implementation AND the Gallina model; oracle-only streams "
        "(no model run): every pair of one-decimal float times now <= t <= 1.8, 120 random decimal (non-dyadic) histories, 50 histories with "
        "numpy float64 / int64 scalars and bools as times. Driver: four kinds of weakly referenced callables (bound method, function, "
        "functools.partial, instance with __call__), holder objects and the model with truth value False, one function_kwargs dict shared by all "
        "events, positional and keyword spelling of every call alternating, a second simulator consuming event ids in the same process. "
        "User code in the loop: raise acts cycle through custom / IndexError / StopIteration / KeyError / AttributeError / TypeError / GeneratorExit / "
        "LookupError / RuntimeError subclasses; every other history runs on user SUBCLASSES (ABMSimulator / DEVSimulator overriding setup, "
        "_execute_event, _schedule_event, run_for with super(); a Model whose step is overridden once more); lambdas among the callables; the second "
        "simulator is reset() every third operation; re-entrant callables (run_next_event() - recursively - and reset() from inside an event / "
        "model.step, 60 quick) are implementation + nested_oracle only, like the id-jump / mass-cancel (> 70 events) / float / numpy streams. "
        "Thorough: the same families x 30-75, the correspondence on the heapq-array model (order of EventList._events compared). "
        "non-trivial = at least 3 ops and one run call that executed something; distinct = by SHA1 of the history")
TRUSTED_BASE = [
    "Coq 8.16.1 kernel (coqc); vm_compute for finite facts and for evaluating the model in the correspondence",
    "no axioms: Print Assumptions reports 'Closed under the global context' for all 73 theorems of Properties/C14.v",
    "harness/tables/devs.py (T1, tables): Priority values, the SimulationEvent.__lt__ tuple and unique_id = next(itertools.count()), the priority of model.step at every site",
    "harness/pyexpr.py + harness/tables/devs_code.py (T1, code level): 13 translated constructs (bodies of schedule_event_relative/_absolute/_now/"
    "_next_tick, _schedule_event, run_for, the run_until decision of both classes, ABMSimulator._execute_event's re-scheduling test, the tests of "
    "SimulationEvent.execute, EventList.pop_event, EventList.peak_ahead) and one statement skeleton (devs_skeleton: 19 functions, modulo local names, "
    "message texts, docstrings); a wrong translation would make the bridge lemmas talk about the wrong code - cross-checked by T2",
    "harness/props/devs_common.py driver + observer + Gallina printer (T2, differential testing, not a proof); exceptions are classified by type and state, never by message",
    "Model/Devs.v + Model/DevsLife.v are hand transcriptions tied by T1/T2; the heap is abstracted as a list ordered by __lt__ - justified by Model/Heap.v, "
    "Model/DevsHeap.v, Model/DevsHeapLife.v (CPython heapq transcribed) and the theorems C14_heap_refines_sorted_list / C14_heap_simulator_refines / "
    "C14_heap_lifecycle_refines; the heapq transcription is compared with CPython (array order after every operation) in every thorough run",
    "weak references die when the only strong reference is dropped (CPython refcounting) - modelled, exercised by T2",
    "Uint63 primitive hash only in scratch Cases files, never under a theorem",
]
ASSUMPTIONS = [
    "the Gallina model counts time in 1/8: ints (also above 2^53) and dyadic floats are exact; non-dyadic floats, numpy scalars and bools are checked by the "
    "implementation-side oracle only, on the Python numbers as given (an absolute request keeps exactly the requested number, a relative one gets now + delta as the simulator computes it)",
    "Fraction / Decimal times are outside the statement ('int and float times'): a Fraction clock + 0.0 is a float that may lie before it",
    "user callables are the DSL of devs_common.py (schedule / cancel / drop / raise); a schedule call made from user code is wrapped in try/except",
    "run_until(t) with t before now and non-integer ABMSimulator horizons are outside the statement: generated (4%), modelled and compared, not judged; "
    "the boundary is documented by C14_boundary_run_until_before_now / C14_boundary_backwards_then_past_accepted",
    "peak_ahead(n) is modelled for n >= 1 and lists non-cancelled events (an event whose callable died is still listed, as in the code)",
    "not modelled: user code that cancels or schedules model.step itself, model.running (the simulators never read it), peak_ahead(n <= 0); a user "
    "exception inside a run call leaves the simulation advanced (observation, not a finding)",
]
LEVEL_TEXT = ("73 machine-checked Coq theorems (8 examples) over a Gallina transcription of EventList, SimulationEvent and both simulators as repaired by the "
              "three fix: commits (peak_ahead order, negative relative delta, run_next_event re-scheduling model.step), all closed under the global "
              "context, for ALL histories, user code and fuel: the comparison key re-read from __lt__ is a strict total order on distinct ids; in every "
              "reachable state - life cycle (reset / setup / no model) included - the list is ordered with ids below the counter and no event before the "
              "clock, and the event that runs next is the least live one (C14_order, C14_lifecycle_order, C14_fifo); executed events are live, run with "
              "clock = their time inside [now, horizon], clocks never decrease, run_until ends at the horizon with no live event <= horizon left; no id is "
              "executed twice, no live event is lost, every event <= t is executed by a completed run_until t (at most / at least once); cancelled events "
              "and dead callables never run; accepted schedule calls are never in the past nor of the wrong unit; rejected calls, a refused setup() and "
              "run calls without a model change nothing and every continuation observes the same (C18_devs_atomic_*); user callables that raise stop "
              "their body, escape from the run call and leave a legal state (C14_raise_*); events scheduled up front run in key order and peak_ahead shows "
              "that order; a transcription of CPython heapq, the simulator on the heap array and its life cycle refine the model the theorems are about. "
              "Code-level T1: 13 conditions / function bodies are regenerated from the source on every run and proved equal to the model's (DevsBridge.v, "
              "robust to harmless rewrites), the headline statements are restated about the generated code (C14_*_of_source). T2 runs the model against the "
              "implementation on every history; an independent trace oracle states the property on the implementation, including three oracle-only streams "
              "(non-dyadic floats, numpy scalars / bools).")
LEVEL_NOTE = ("Theorems are about the model (Model/Devs.v + DevsLife.v); non-dyadic floats, numpy scalars and bools as times are covered by the oracle only. "
              "Defects of the original tree: #20 peak_ahead order, #21 negative relative delta, (C15) #22 run_next_event - all fixed in /repo, none known. "
              "Trusted: Coq kernel, the T1 extractors / translator, the driver and observer. No axioms.")
TECHNIQUE = ("Coq proof (invariants by induction over histories and fuel, simulation relations, refinement of a heapq transcription; closed under the global "
             "context) + tables and code regenerated from the source with bridge lemmas + vm_compute correspondence + independent trace oracle")
DESIGN_REF = "DESIGN.md section 4, C14"
