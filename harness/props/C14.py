"""C14 - the simulators run each live event once, in (time, priority, FIFO) order.
Model: Model/Devs.v (event list ordered by the key extracted from SimulationEvent.__lt__, both simulator
classes, user code as a small DSL).  Driver, oracle and printer are shared with C15 (devs_common.py)."""
import itertools
import random

from props import devs_common as D
from props.devs_common import coq_case, nontrivial, op_kinds, run_impl  # noqa: F401  (module API)

ID = "C14"
COQ_PROPERTY_FILE = "Properties/C14.v"
COQ_DEPS = ["Generated/Tables.v", "Model/Devs.v", "Model/DevsSpec.v", "Model/Heap.v", "Model/DevsHeap.v", "Proofs/DevsProofs.v", "Proofs/DevsOrderProofs.v",
            "Proofs/DevsOnceProofs.v", "Proofs/DevsLiveProofs.v", "Proofs/DevsAtomicProofs.v", "Proofs/DevsChunkProofs.v",
            "Proofs/DevsStepProofs.v", "Proofs/DevsTopProofs.v", "Proofs/DevsTop14Proofs.v", "Proofs/HeapProofs.v", "Proofs/DevsHeapProofs.v", "Proofs/DevsHeapSimProofs.v", "Proofs/DevsBridge.v", "Model/DevsLife.v", "Model/DevsHeapLife.v", "Proofs/DevsLifeProofs.v", "Proofs/DevsBoundaryProofs.v", "Proofs/DevsHeapLifeProofs.v"]
COQ_IMPORTS = "From Mesa Require Import Generated.Tables Model.Devs Model.DevsLife."
COQ_CASE_TYPE = "xcase"
COQ_RUN = "run_xcase"


def _enable_heap_tie():
    """the heapq tie: the correspondence runs the model that keeps the heapq ARRAY (Model/DevsHeap.v + DevsHeapLife.v) and the
    observations carry the order of EventList._events after every operation.  Always on in the thorough tier (set from
    gen_cases, before the workers are forked), on demand with VERIF_HEAPQ_TIE=1."""
    global COQ_IMPORTS, COQ_RUN
    D.HEAP_TIE = True
    COQ_IMPORTS = "From Mesa Require Import Generated.Tables Model.Devs Model.DevsLife Model.DevsHeap Model.DevsHeapLife."
    COQ_RUN = "run_xcase_heap"


if D.HEAP_TIE:
    _enable_heap_tie()
TABLE_CONSTRUCTS = ["devs_priority_values", "devs_event_key", "devs_step_priority",
                    "devs_skeleton", "devs_rel_code", "devs_abs_code", "devs_now_code", "devs_tick_code", "devs_schedule_event_code", "devs_run_for_code",
                    "devs_until_code", "devs_until_abm_code", "devs_abm_resched_code", "devs_execute_code", "devs_pop_code", "devs_peek_keeps_code", "devs_peek_full_code"]
S = D.S


# ------------------------------------------------------------------ generation
def _random_case(rng, cls, big=False):
    g = D.Gen(rng, cls)
    script = g.script(rng.randint(0, 8)) if g.abm and rng.random() < 0.5 else []
    ops = []
    for _ in range(rng.randint(1, 6)):
        ops.append(g.sched(2, False))
    total = rng.randint(20, 45) if big else rng.randint(5, 22)
    while len(ops) < total:
        x = rng.random()
        if x < 0.36:
            ops.append(g.sched(2, False))
        elif x < 0.68:
            ops.append(g.run_piece(p_outside=0.04))
        elif x < 0.80 and g.tags:
            ops.append(["cancel", rng.choice(g.tags[-6:]) if rng.random() < 0.7 else rng.choice(g.tags)])
        elif x < 0.96:
            ops.append(["peek", rng.choice([1, 1, 2, 3, 3, 4, 5, 6, 8, 12])])
        else:
            ops.append(["drop", rng.randrange(g.nh)])
    if rng.random() < 0.7:
        ops.append(["peek", rng.randint(2, 8)])
        g.clk = max(g.clk, g.tmax) + S
        ops.append(["until", g.clk, g.fl(g.clk)])
    case = {"cls": cls, "script": script, "fuel": 400, "ops": ops}
    if rng.random() < 0.04:
        case["setup"] = False       # setup(model) never called: run calls must raise and change nothing
    return case


def _peek_case(rng, cls):
    """k events pushed in a shuffled order of (time, priority), some cancelled, peak_ahead after every push"""
    g = D.Gen(rng, cls)
    k = rng.randint(3, 8)
    unit = S if g.abm else rng.choice([4, 8, 2])
    keys = [(rng.randint(0, 5) * unit, rng.choice("HDL")) for _ in range(k)]
    ops = []
    for t, p in keys:
        kind = rng.choice(["abs", "rel"])
        ops.append(["sched", kind, t, g.fl(t), p, g.new_tag(), rng.randrange(g.nh), []])
        if rng.random() < 0.4:
            ops.append(["peek", rng.randint(1, k)])
    if rng.random() < 0.5:
        ops.append(["cancel", rng.choice(g.tags)])
    ops.append(["peek", k + 1])
    h = rng.randint(0, 3) * unit
    ops.append(["until", h, g.fl(h)])
    ops.append(["peek", k])
    ops.append(["next"])
    ops.append(["peek", 2])
    return {"cls": cls, "script": [], "fuel": 400, "ops": ops}


def _inside_case(rng, cls):
    """events that schedule now / relative / absolute (also into the past and at a wrong unit), cancel and drop
    while the simulator is running"""
    g = D.Gen(rng, cls)
    ops = []
    for _ in range(rng.randint(2, 5)):
        o = g.sched(2, False, p_bad=0.0)
        if not o[7]:
            g.clk, save = max(g.clk, g.tmax), g.clk
            o[7] = [g.sched(1, True, p_bad=0.35) for _ in range(rng.randint(1, 3))]
            g.clk = save
        ops.append(o)
    for _ in range(rng.randint(2, 6)):
        ops.append(g.run_piece(p_next=0.35))
        if rng.random() < 0.3:
            ops.append(g.sched(1, False, p_bad=0.3))
    g.clk = max(g.clk, g.tmax) + S
    ops.append(["until", g.clk, g.fl(g.clk)])
    return {"cls": cls, "script": g.script(4) if rng.random() < 0.4 else [], "fuel": 400, "ops": ops}


# ------------------------------------------------------------------ non-dyadic float times (implementation + oracle only)
def _fcase(ops):
    return {"cls": "DEVS", "float": True, "script": [], "fuel": 400, "ops": ops}


def _float_pair_cases(kmax):
    """every pair of one-decimal times now <= t (tenths up to kmax/10): an event requested for t up front (clock 0), the clock
    advanced to `now` by run_until, a second event requested for the same t with another priority - once from the top
    level, once from inside an event that runs at `now` - then run_until(t) exactly on the requested time"""
    for a in range(1, kmax + 1):
        for b in range(a, kmax + 1):
            now, t = a / 10, b / 10
            yield _fcase([["sched", "abs", t, True, "L", 1, 0, []], ["until", now, True],
                          ["sched", "abs", t, True, "H", 2, 0, []], ["peek", 2], ["until", t, True]])
            yield _fcase([["sched", "abs", t, True, "D", 1, 0, []],
                          ["sched", "abs", now, True, "D", 2, 0, [["sched", "abs", t, True, "H", 3, 0, []],
                                                                  ["sched", "abs", t, True, "L", 4, 0, []]]],
                          ["until", t, True]])


def _float_case(rng):
    """decimal tenths / hundredths; the clock is moved to non-zero non-dyadic values (run_until to a decimal, run_for by decimal
    deltas so that it becomes a rounded sum) before events are requested for absolute decimal times, several of them for
    the same requested time with different priorities; horizons exactly on requested times"""
    tag = [0]
    requested = []          # absolute times asked for so far

    def nt():
        tag[0] += 1
        return tag[0]

    def dec(lo):
        if requested and rng.random() < 0.45:
            c = [t for t in requested if t >= lo]
            if c:
                return rng.choice(c)
        if rng.random() < 0.8:
            k = int(lo * 10) + rng.randint(0, 14)
            return k / 10
        k = int(lo * 100) + rng.randint(0, 90)
        return k / 100

    def sched(lo, depth):
        kind = rng.choice(["abs", "abs", "abs", "abs", "rel", "now"])
        if kind == "abs":
            t = dec(lo)
            if rng.random() < 0.04 and lo > 0.2:
                t = round(lo - rng.choice([0.1, 0.2]), 2)        # in the past (unless the clock is lower than believed)
            requested.append(t)
        elif kind == "rel":
            t = rng.choice([0.0, 0.1, 0.1, 0.2, 0.3, 0.7, 1.1, 0.05, 0.25, -0.1])
        else:
            t = 0.0
        body = []
        if depth > 0 and rng.random() < 0.4:
            inner_lo = t if kind == "abs" else lo
            for _ in range(rng.randint(1, 3)):
                if rng.random() < 0.85:
                    body.append(sched(max(inner_lo, lo), depth - 1))
                elif tag[0]:
                    body.append(["cancel", rng.randint(1, tag[0])])
        return ["sched", kind, t, True, rng.choice(["H", "D", "D", "L"]), nt(), 0, body]

    ops = []
    clk = 0.0
    for _ in range(rng.randint(1, 4)):
        ops.append(sched(0.0, 1))
    for _ in range(rng.randint(2, 4)):
        x = rng.random()
        if x < 0.55:
            c = [t for t in requested if t >= clk]
            clk = rng.choice(c) if c and rng.random() < 0.6 else dec(clk)
            ops.append(["until", clk, True])
        elif x < 0.9:
            d = rng.choice([0.1, 0.1, 0.2, 0.3, 0.7, 0.05])
            clk = clk + d
            ops.append(["for", d, True])
        else:
            ops.append(["next"])
            clk = max([clk] + requested)
        for _ in range(rng.randint(2, 5)):
            ops.append(sched(clk, 1))
        if rng.random() < 0.3:
            ops.append(["peek", rng.randint(1, 6)])
        if rng.random() < 0.2 and tag[0]:
            ops.append(["cancel", rng.randint(1, tag[0])])
    c = [t for t in requested if t >= clk]
    if c:
        clk = rng.choice(c)
        ops.append(["until", clk, True])
    clk = max([clk] + requested) + 0.5
    ops.append(["until", clk, True])
    return _fcase(ops)


def _life_case(rng, cls):
    """the life cycle: histories on a simulator that was (70%) or was not set up, with reset(), setup() after a reset, a second
    setup(), setup() while events are scheduled or at a non-zero clock, run calls while no model is attached, and cancel_event of
    events that ran or vanished before the reset"""
    g = D.Gen(rng, cls)
    ops = []
    case = {"cls": cls, "script": g.script(6, p=0.3), "fuel": 400, "ops": ops}
    if rng.random() < 0.3:
        case["setup"] = False
    for phase in range(rng.randint(2, 4)):
        for _ in range(rng.randint(0, 3)):
            ops.append(g.sched(1, False, p_bad=0.05))
        x = rng.random()
        if x < 0.25:
            ops.append(["setup"])               # second setup / setup with events pending / setup at a non-zero clock
        for _ in range(rng.randint(0, 3)):
            ops.append(g.run_piece(p_next=0.3))
            if rng.random() < 0.3:
                ops.append(g.sched(1, False))
        if g.tags and rng.random() < 0.5:
            ops.append(["cancel", rng.choice(g.tags)])          # often an event that already ran or was already cancelled
            if rng.random() < 0.3:
                ops.append(["cancel", ops[-1][1]])
        if rng.random() < 0.2:
            ops.append(["peek", rng.randint(1, 4)])
        y = rng.random()
        if y < 0.7:
            ops.append(["reset"])
            g.clk = 0
            if rng.random() < 0.25:
                ops.append(g.run_piece())               # no model attached: must raise
                g.clk = 0
            if rng.random() < 0.3:
                ops.append(g.sched(1, False))           # then setup must be refused (events already scheduled)
            if rng.random() < 0.85:
                ops.append(["setup"])
            if rng.random() < 0.2:
                ops.append(["setup"])
    for _ in range(rng.randint(1, 3)):
        ops.append(g.run_piece())
    return case


def _inject_raise(rng, body):
    """put one ["raise"] somewhere into this body or into the body of one of its schedule calls"""
    inner = [a for a in body if a[0] == "sched" and a[7]]
    if inner and rng.random() < 0.4:
        return _inject_raise(rng, rng.choice(inner)[7])
    body.insert(rng.randint(0, len(body)), ["raise"])


def _exc_case(rng, cls):
    """user callables (events, model.step) that raise in the middle of run_until / run_for / run_next_event; the history goes on
    afterwards (ARaise in the model: run through the correspondence like everything else).  The oracle: the exception
    propagates, the event is consumed, the clock stays at its time, everything else is untouched, and the continuation obeys
    C14 / C15."""
    c = _inside_case(rng, cls)
    g_ops = c["ops"]
    cands = [o for o in g_ops if o[0] == "sched"]
    for o in rng.sample(cands, min(len(cands), rng.randint(1, 2))):
        _inject_raise(rng, o[7])
    if cls == "ABM" and rng.random() < 0.5:
        k = rng.randint(1, 4)
        sc = dict((int(a), b) for a, b in c["script"])
        sc.setdefault(k, [])
        _inject_raise(rng, sc[k])
        c["script"] = [[a, b] for a, b in sorted(sc.items())]
    last = g_ops[-1]
    g_ops.append(["next"])
    g_ops.append(["until", last[1] + S, last[2]] if last[0] == "until" else ["for", S, False])
    g_ops.append(["until", (last[1] if last[0] == "until" else 0) + 40 * S, False])
    c["exc"] = True
    return c


def gen_cases(rng, tier):
    if tier == "thorough":
        _enable_heap_tie()
    n = 500 if tier == "quick" else 30000
    cases = []
    for i in range(n):
        cls = "ABM" if rng.random() < 0.45 else "DEVS"
        x = rng.random()
        if x < 0.6:
            cases.append(_random_case(rng, cls, big=(tier == "thorough" and i % 5 == 0)))
        elif x < 0.8:
            cases.append(_peek_case(rng, cls))
        else:
            cases.append(_inside_case(rng, cls))
    for _ in range(120 if tier == "quick" else 4000):
        cases.append(_life_case(rng, "ABM" if rng.random() < 0.5 else "DEVS"))
    for _ in range(100 if tier == "quick" else 3000):
        cases.append(_exc_case(rng, "ABM" if rng.random() < 0.5 else "DEVS"))
    # non-dyadic float times: implementation + oracle only (run_impl answers "model": False for them)
    cases += list(_float_pair_cases(18 if tier == "quick" else 40))
    for _ in range(150 if tier == "quick" else 4000):
        cases.append(_float_case(rng))
    return cases


def enumerate_cases(tier, broken=False):
    """every ordered triple (quadruple in the thorough tier) of events over times {0,1,2} x priorities {H,D,L},
    scheduled in that order, one of them cancelled or not, looked at with peak_ahead before and after a partial run,
    for both classes; plus every permutation of 5 distinct times"""
    rng = random.Random(4242)
    keys = [(t, p) for t in (0, S, 2 * S) for p in "HDL"]
    k = 4 if tier == "thorough" else 3
    for cls in ("DEVS", "ABM"):
        for n, combo in enumerate(itertools.product(keys, repeat=k)):
            if k == 4 and n % 3:
                continue
            ops = []
            for j, (t, p) in enumerate(combo):
                ops.append(["sched", "abs" if (n + j) % 2 else "rel", t, cls == "DEVS", p, j + 1, 0, []])
            ops.append(["peek", k])
            c = n % (k + 1)
            if c:
                ops.append(["cancel", c])
                ops.append(["peek", k])
            ops += [["until", S, cls == "DEVS"], ["peek", k], ["next"], ["until", 3 * S, cls == "DEVS"]]
            yield {"cls": cls, "script": [], "fuel": 400, "ops": ops}
        for perm in itertools.permutations(range(5)):
            ops = [["sched", "abs", (t + 1) * S, cls == "DEVS", "D", j + 1, 0, []] for j, t in enumerate(perm)]
            ops += [["peek", 5], ["until", 2 * S, False], ["peek", 5], ["for", 4 * S, False]]
            yield {"cls": cls, "script": [], "fuel": 400, "ops": ops}
    for _ in range(300 if tier == "quick" else 1500):
        yield _inside_case(rng, rng.choice(["ABM", "DEVS"]))


RULE = ("histories = one simulator (ABMSimulator or DEVSimulator, after setup) + a sequence of schedule_event_now/_relative/"
        "_absolute/_next_tick (int and dyadic float times, ties in time and priority, 6% into the past or at a wrong unit), "
        "cancel_event, dropping the object whose bound method / function is the callable, 4% of the general histories on a simulator that was never set up, run_until / run_for / run_next_event (4% with a horizon outside the statement), "
        "peak_ahead(n); events carry user code that itself schedules / cancels / drops; three families: general (60%), "
        "peek after shuffled pushes (20%), scheduling from inside running events with 35% rejected calls (20%); "
        "plus a float stream without model run: every pair of one-decimal times now <= t (up to 2.0 quick / 4.0 thorough) with a tie in requested time, from the top level and from inside an event, and 200 (4000) random decimal histories; non-trivial = at least 3 ops and one run call that executed something; distinct = by SHA1 of the history")
TRUSTED_BASE = [
    "Coq 8.16.1 kernel (coqc); vm_compute for finite facts and for evaluating the model in the correspondence",
    "no axioms: Print Assumptions reports 'Closed under the global context' for every C14 theorem",
    "harness/pyexpr.py + harness/tables/devs_code.py (code-level T1): guards, time arithmetic and loop decisions of the simulators and the event list translated to Gallina; their statement skeletons",
    "harness/tables/devs.py (T1): Priority values, the SimulationEvent.__lt__ tuple, the priority of model.step",
    "harness/props/devs_common.py driver+observer+Gallina printer (T2, differential testing, not a proof)",
    "Model/Devs.v is a hand transcription of eventlist.py/simulator.py; the heap is abstracted as a list ordered by __lt__ - justified by "
    "Model/Heap.v + Model/DevsHeap.v (CPython heapq transcribed; the simulator on the heap array) and the theorems "
    "C14_heap_refines_sorted_list / C14_heap_simulator_refines; the heap transcription is tied to the real heapq by fixed example arrays and by "
    "the optional run VERIF_HEAPQ_TIE=1 ./check C14 (array order of EventList._events compared after every operation), not by the default run",
    "weak references die when the holder object is dropped (CPython refcounting) - modelled, exercised by T2",
    "Uint63 primitive hash only in scratch Cases files, never under a theorem",
]
ASSUMPTIONS = [
    "all times and deltas are multiples of 1/8 with small numerators (exact in binary64); model time = Z counting 1/8",
    "user callables are the DSL of devs_common.py; a schedule call made from user code is wrapped in try/except",
    "run_until(t) with t before the current time and non-integer ABMSimulator horizons are outside the statement: generated rarely, modelled, not judged",
    "non-dyadic float times (decimal tenths / hundredths, DEVSimulator) are checked by the implementation-side oracle only, on the Python floats as "
    "given: an absolute request keeps exactly the requested float, a relative one gets now + delta as the simulator computes it; the Gallina model is not run on them",
    "peak_ahead lists non-cancelled events (an event whose callable died is still listed, as in the code)",
]
LEVEL_TEXT = ("Machine-checked Coq theorems over a Gallina transcription of EventList and the simulators (after the three fix: "
              "commits): the comparison key re-extracted from the source is a strict total order on distinct ids; for every history "
              "the event list stays ordered with all times >= clock; each executed event is the least live pending event, runs with "
              "clock = its time, is not cancelled and has a live callable, runs at most once; run_until leaves the clock at the horizon "
              "with no live event <= horizon left; rejected schedule calls (past, wrong unit) leave the simulator untouched; "
              "no live event is lost (at least once); every continuation after a rejected call observes the same; "
              "peak_ahead is the sorted prefix of the live events and its head is the next event to run; a transcription of heapq "
              "refines the ordered list used by the model. T1 ties key/priorities to the "
              "source, T2 runs the model against the implementation on every history, and an independent oracle states the property "
              "on the implementation's own trace.")
LEVEL_NOTE = ("Theorems are about the model; the heapq transcription (Model/Heap.v, Model/DevsHeap.v) is proved to refine the ordered list the "
              "model uses and is compared with CPython (array order included) by the optional VERIF_HEAPQ_TIE=1 run. "
              "Trusted: Coq kernel, the T1 extractors, the driver/observer. No axioms.")
TECHNIQUE = "Coq proof (invariants by induction over histories and fuel, closed under global context) + source-regenerated tables + vm_compute correspondence"
DESIGN_REF = "DESIGN.md section 4, C14"
