"""Importable model classes for C13 (batch_run spawns worker processes that must import them)."""
import mesa
from mesa.datacollection import DataCollector


class BAgent(mesa.Agent):
    def __init__(self, model, val):
        super().__init__(model)
        self.val = val

    def step(self):
        self.val += 1


class BM(mesa.Model):
    """kwargs: n agents, stop (running=False once steps >= stop), ic/sc = how many times it collects at construction /
    inside every step (between two collects at the same model.steps a model-level value and every agent change),
    ar agent reporters on/off, churn agents come and go, k a constant reported by name; other kwargs are ignored.
    Beside the DataCollector the model keeps its own log of what it showed at each collect (evaluated directly)."""

    INSTANCES = []

    def __init__(self, **kwargs):
        super().__init__()
        self.init_kwargs = dict(kwargs)
        g = kwargs.get
        def i(v):   # parameters may arrive as numpy scalars / 0-d arrays: the script works on plain ints
            return v if v is None else int(v)
        self.n, self.stop, self.ic, self.sc = i(g("n", 2)), i(g("stop", None)), i(g("ic", 0)), i(g("sc", 1))
        self.ar, self.churn, self.k = i(g("ar", 1)), i(g("churn", 0)), i(g("k", 0))
        # agent churn BETWEEN two collects of one step: 1 all agents removed, 2 one created, 3 first removed,
        # 4 all removed once the model has stopped (the final step)
        self.mc = i(g("mc", 0))
        # an explicit collection pattern overriding ic / sc: base-4 digit s = number of collects at step s (digit 0: at
        # construction), no collect at steps beyond the digits: arbitrary gaps and duplicates in the collection history
        self.pat = i(g("pat", None))
        self.mr = i(g("mr", 1))      # model reporters on / off (a collector with agent reporters only, or with none at all)
        self.log = []
        self.t = 0
        areps = {"sv": lambda a: a.model.steps * 1000 + a.val, "val": "val"} if self.ar else None
        self.datacollector = DataCollector(
            model_reporters={"Steps": lambda m: m.steps, "Sum": self.total, "K": "k", "T": "t"} if self.mr else None,
            agent_reporters=areps)
        for _ in range(self.n):
            BAgent(self, self.k)
        BM.INSTANCES.append(self)
        self._collects(self._count(self.ic))

    def _count(self, default):
        if self.pat is None or self.pat > -1000:      # the pattern q is passed as -(1000 + q)
            return default
        return ((-self.pat - 1000) // 4 ** self.steps) % 4

    def total(self):
        return sum(a.val for a in self.agents)

    def _collect(self):
        agents = [(a.unique_id, {"sv": self.steps * 1000 + a.val, "val": a.val}) for a in self.agents] if self.ar else []
        self.log.append((self.steps, {"Steps": self.steps, "Sum": self.total(), "K": self.k, "T": self.t} if self.mr else {}, agents))
        self.datacollector.collect(self)

    def _collects(self, count):
        for j in range(count):
            if j > 0:   # the model moves on between two collections made at the same model.steps
                self.t += self.steps + 1
                for a in self.agents:
                    a.val += 1
                if self.mc == 1 or (self.mc == 4 and not self.running):
                    for a in list(self.agents):
                        a.remove()
                elif self.mc == 2:
                    BAgent(self, self.k)
                elif self.mc == 3 and len(self.agents) > 0:
                    next(iter(self.agents)).remove()
            self._collect()

    def step(self):
        self.agents.do("step")
        if self.churn:
            if self.steps % 2 == 1:
                BAgent(self, self.k)
            if self.steps % 3 == 0 and len(self.agents) > 0:
                next(iter(self.agents)).remove()
        if self.stop is not None and self.steps >= self.stop:
            self.running = False
        self._collects(self._count(self.sc))


# ---- user classes as parameter VALUES of batch_run (what _make_model_kwargs makes of them is decided by iterating) ----
class SeqProto:
    """iterable only through the sequence protocol: __len__ + __getitem__, no __iter__"""

    def __init__(self, items):
        self._items = list(items)

    def __len__(self):
        return len(self._items)

    def __getitem__(self, i):
        return self._items[i]

    def __repr__(self):
        return f"SeqProto({self._items})"


class IterOnly:
    """re-iterable through __iter__ only (no __len__, no __getitem__)"""

    def __init__(self, items):
        self._items = list(items)

    def __iter__(self):
        return iter(self._items)

    def __repr__(self):
        return f"IterOnly({self._items})"


class Both(SeqProto):
    def __iter__(self):
        return iter(self._items)


class MappingLike:
    """a read-only mapping: iterating it yields its keys"""

    def __init__(self, keys):
        self._d = {k: str(k) for k in keys}

    def keys(self):
        return self._d.keys()

    def __getitem__(self, k):
        return self._d[k]

    def __iter__(self):
        return iter(self._d)

    def __len__(self):
        return len(self._d)

    def __repr__(self):
        return f"MappingLike({list(self._d)})"


class StrSub(str):
    """a str subclass: a single value like any string"""


class LenOnly:
    """has a length but cannot be iterated or indexed: a single value; `code` identifies it in the rows"""

    def __init__(self, code, n):
        self.code, self._n = code, n

    def __len__(self):
        return self._n

    def __eq__(self, other):
        return isinstance(other, LenOnly) and other.code == self.code

    def __hash__(self):
        return hash(self.code)

    def __repr__(self):
        return f"LenOnly({self.code})"


class SeedModel(mesa.Model):
    """reports values drawn from model.random AND model.rng: rows must not depend on the process that ran the model"""

    def __init__(self, seed=None, rng=None, n=1):
        if rng is not None:
            super().__init__(rng=rng)
        else:
            super().__init__(seed=seed)
        self.draw_r = self.random.random()
        self.draw_g = float(self.rng.random())
        self.datacollector = DataCollector(model_reporters={"r": "draw_r", "g": "draw_g", "i": lambda m: m.random.randint(0, 10 ** 6)})
        for _ in range(n):
            BAgent(self, 0)
        self.datacollector.collect(self)

    def step(self):
        self.draw_r = self.random.random()
        self.draw_g = float(self.rng.random())
        self.agents.shuffle_do("step")
        self.datacollector.collect(self)
