"""C17 - a Computable is never stale and recomputes only when an input changed.

Histories: 1-3 owners (HasObservables instances, each of a class of its own) with 1-3 integer
Observables each, 1-4 Computables whose functions are terms of the DSL
    e ::= ["c", z] | ["o", owner, name] | ["k", j] | ["+", e, e] | ["if", e, e, e]
(read = attribute access on the owner looked up through a registry, so that an owner can be
dropped and collected; a dropped owner reads as 0), installed in index order (computed j may read
computeds k < j), followed by top-level operations
    ["set", owner, name, v]     owner.x<name> = v
    ["read", j]                  owner_of(j).c<j>
    ["kill", owner]              drop the registry's reference, gc.collect()
    ["win", acts]                install a throw-away Computed whose function performs `acts`
                                 (["r", owner, name] | ["rk", j] | ["w", owner, name, v]) in order - the
                                 "function that writes to an observable" of the cycle clause
    ["win2", acts]               the same; when the installation is rejected the Computed stays installed and is
                                 read once more (observed: raises again / returns None / returns a value)
Model: coq/Model/Computed.v.  Observation after every op: tag, value read / rejection status,
evaluation counters of all computeds, values of all observables of live owners."""
import gc
import itertools

import coqlit as L

ID = "C17"
COQ_PROPERTY_FILE = "Properties/C17.v"
COQ_DEPS = ["Common/ListX.v", "Common/ObsHash.v", "Generated/Tables.v", "Model/Computed.v", "Proofs/ComputedProofs.v",
            "Proofs/ComputedBridge.v", "Proofs/ComputedKill.v"]
COQ_IMPORTS = "From Mesa Require Import Model.Computed."
COQ_CASE_TYPE = "case"
COQ_RUN = "run_case"
TABLE_CONSTRUCTS = ["signal_skeleton", "signal_obs_get_code", "signal_obs_set_code", "signal_comp_get_code",
                    "signal_set_dirty_code", "signal_add_parent_code", "signal_remove_parents_code",
                    "signal_cmp_changed_code", "signal_call_code"]
_MS = "mesa/experimental/mesa_signals/mesa_signal.py"
SOURCE_FUNCS = [(_MS, "BaseObservable.__get__"), (_MS, "BaseObservable.__set__"), (_MS, "Observable.__set__"),
                (_MS, "Computable.__get__"), (_MS, "Computable.__set__"), (_MS, "Computed.__init__"),
                (_MS, "Computed._set_dirty"), (_MS, "Computed._add_parent"), (_MS, "Computed._remove_parents"),
                (_MS, "Computed.__call__"), (_MS, "HasObservables.observe"), (_MS, "HasObservables.unobserve"),
                (_MS, "HasObservables.notify"), (_MS, "HasObservables._mesa_notify"),
                ("mesa/experimental/mesa_signals/signals_util.py", "create_weakref")]
RULE = ("model-compared histories (612 quick / 12 012 thorough): 1-3 owners x 1-3 integer Observables (values incl. 1000, 70000), "
        "1-4 Computables (DSL terms  const | obs | comp | + | if  with branches that switch the observables read and chains "
        "of Computables; half of them return None where the model value is 0), owner classes laid out as one class per owner / "
        "ONE class shared by all owners / observables on a base class and Computables on a subclass of a subclass with a mixin "
        "after the framework base; then <= 30 top-level ops: assignments (40 % restore the current or a previous value), reads, "
        "owner collection, throw-away writer Computeds (cycle clause; 40 % of them read the rejected Computed again); first the "
        "hand-written corner histories (chain+restore, branch flip and back, nested comparison, write-other-then-self, None upstream, "
        "rejected installation read again, collected parent) and extreme shapes (chain of 14, a Computable without reads, one "
        "reading 9 observables of 3 owners).  SCALE stream (10 cases in every quick run, 21 in thorough / on a break; beyond 64 "
        "Computables, 130 observables or 400 ops implementation + oracle only): star - ONE observable read by 40 / 257 / 300 (255, 256, "
        "513, 1025) Computables on owners of their own; fan-in - one Computable reading 40 / 300 (256, 257, 1025) observables of one "
        "owner, the same observable 300 times, one observable of each of 260 (257, 1025) owners; chains 40 / 90 (129) deep read "
        "top-down and 250 (280) deep read bottom-up (below what HEAD manages under Python's recursion limit); 700 (3000) write/read "
        "rounds on a small graph.  USER CODE in the model-compared stream (behaviour-neutral on HEAD, so the Coq model is unchanged): "
        "Computeds as instances of user subclasses - value-based __eq__/__hash__ (30 % of the Computeds share their function with another "
        "one on a different owner: equal but distinct instances), overridden __call__ calling super() with a class-level default, positional "
        "args; functions given as partials, bound methods and callable objects whose __eq__ is always True; Observable / Computable "
        "subclasses (extra constructor argument, class attribute).  Oracle-only histories (200 quick / 4 000 thorough, not representable over Z): "
        "observable values bool / float (non-dyadic, -0.0) / int > 2^53 and < -2^63 / None / str / tuple / Fraction / Decimal, "
        "functions that build tuples, test truthiness and raise a user exception (`req`), owners whose truth value is False "
        "(__len__ 0 / __bool__ False), two distinct owners that compare EQUAL (value-based __eq__/__hash__; HEAD conflates them in "
        "Computed.parents: known finding C17/Computed/equal-owners-conflated), user exceptions of eight types incl. StopIteration, "
        "AttributeError, TypeError and GeneratorExit, also raised while the Computed is being installed.  ObservableList inputs (61 quick / "
        "1 501 thorough histories): Computeds over sum / len / contents of two ObservableLists, directly, through a chain and behind a "
        "branch; judged after `+=`, assignment of a new list, of the SAME list object, of the list read back or an equal copy; the "
        "in-place methods (append ... slices) are observed only - HEAD compares the list by identity and serves a stale value after "
        "them (cand/ key, reported).  Targeted enumerator (thorough / on a break): all op sequences of length <= 4 (5) over "
        "{set x 0|1, set y 0|1, read c0, read c1} on six shapes, with and without None results, and all writer action lists "
        "of length <= 3.  non-trivial = at least one computed re-evaluated after installation and at least one read served from "
        "cache; distinct = SHA1 of the history")
TRUSTED_BASE = [
    "Coq 8.16.1 kernel (coqc); vm_compute used for the non-vacuity examples, the refutation witness, the skeleton flag and the correspondence",
    "no axioms: Print Assumptions reports 'Closed under the global context' for every C17 theorem (37 statements in Properties/C17.v)",
    "harness/props/C17.py driver+observer, the DSL->closure builder and the Gallina literal printer (T2, differential testing, not a proof)",
    "harness/tables/computed_code.py + harness/pyexpr.py (code-level T1): the statement translator SigTr and its fixed dictionary "
    "source statement -> model primitive (object plumbing: getattr / setattr / notify / observe / PROCESSING_SIGNALS); the normaliser "
    "(locals alpha-renamed, exception messages abstracted)",
    "Model/Computed.v: state = store, liveness, per-Computed dirty/first/value/count/parents (nested insertion-ordered dict), subscriber "
    "lists, PROCESSING_SIGNALS; Python int = Z, dict = association list, WeakKeyDictionary = the same filtered at collection; "
    "HasObservables.observe/unobserve/notify are transcribed by hand for the 'change' signal only (the weak subscriber list is the "
    "model's index/liveness test in set_dirty)",
    "Uint63 primitive hash only in scratch Cases files, never under a theorem",
]
ASSUMPTIONS = [
    "model-compared histories: observable values are Python ints, computed functions are pure DSL terms (reads, +, if); functions "
    "with side effects occur only as throw-away writer Computeds (ops win / win2); everything else about values (floats, None, str, "
    "tuples, Fraction, Decimal, huge ints, bool), user exceptions inside functions and falsy owners is checked by the oracle only",
    "a computed flagged none0 returns None where the model value is 0 and every read of a Computable maps None back to 0, so the model "
    "stays over Z while None flows through _value, the remembered parent values and the forwarded change signals",
    "top-level sequences of assignments and reads (the quantifier); handlers that read a Computable during a notification are outside it",
    "owners carry only Observable and Computable descriptors (every signal-type set is {'change'}), so the check is insensitive to "
    "the C16 unobserve defect and to its repair",
    "cycle clause: demanded for a function that itself reads an observable and later assigns it (C17_cycle_rejected, full strength); "
    "a transitive cycle through a Computable served from cache is ACCEPTED by the code (C17_cycle_through_cache_accepted) and not "
    "demanded; a function that reads nothing can be rejected because PROCESSING_SIGNALS keeps the reads of earlier evaluations "
    "until the next top-level assignment (C17_read_set_persists_until_assignment) - neither is promised by the statement",
    "never-stale / no-spurious / parents-are-last-reads theorems: all histories WITHOUT owner collection; with collection: proved for "
    "healthy clean computeds right after any number of collections (C17_never_stale_after_collections_partial) and the invariant "
    "relative to the healthy set survives collections (C17_healthy_invariant_survives_collections); the evaluation chain in states "
    "with dead owners is not proved; a Computed that read a collected owner stays stale: known finding "
    "C17/Computed/stale-after-parent-collected (refutation witness C17_never_stale_refuted)",
    "second known finding C17/Computed/equal-owners-conflated: Computed.parents and PROCESSING_SIGNALS key owners by ==/hash, so two "
    "distinct owners that compare equal are conflated (stale value / re-run on every dirty check / AttributeError in the comparison "
    "loop); oracle only - the model identifies owners by their index and cannot express two equal ones without re-keying the parents "
    "dictionary and its invariants",
    "observations recorded, not judged: a rejected installation leaves the Computed installed and later reads return None "
    "(C17_rejected_installation_then_read_returns_none); after a user exception inside a function later reads serve the cached value "
    "instead of raising (cand/ key; functions that raise are outside the quantifier).  Judged since fix C17-5 is committed: an owner "
    "whose truth value is False must not be taken for collected (key C17/Computed.__call__/falsy-owner-treated-as-collected)",
]
SHRINK = True

T_SET, T_READ, T_KILL, T_WIN, T_WIN2 = 0, 1, 2, 3, 4
E_CYCLE = 1


# ------------------------------------------------------------------ generation
def _rand_expr(rng, owners, j, depth):
    """owners: list of obs counts; j: index of the computed being defined"""
    def obs():
        o = rng.randrange(len(owners))
        return ["o", o, rng.randrange(owners[o])]

    def leaf():
        r = rng.random()
        if r < 0.55 or (j == 0 and r < 0.85):
            return obs()
        if r < 0.85 and j > 0:
            return ["k", rng.randrange(j)]
        return ["c", rng.randint(-1, 3)]

    if depth <= 0:
        return leaf()
    r = rng.random()
    if r < 0.35:
        return ["if", obs() if rng.random() < 0.8 else _rand_expr(rng, owners, j, depth - 1),
                _rand_expr(rng, owners, j, depth - 1), _rand_expr(rng, owners, j, depth - 1)]
    if r < 0.7:
        return ["+", _rand_expr(rng, owners, j, depth - 1), _rand_expr(rng, owners, j, depth - 1)]
    return leaf()


def _rand_case(rng, nops):
    nown = rng.choice([1, 1, 2, 2, 3])
    owners = [rng.randint(1, 3) for _ in range(nown)]
    init = [[rng.choice([0, 0, 1, 2, -1]) for _ in range(k)] for k in owners]
    ncomp = rng.randint(1, 4)
    comps = []
    for j in range(ncomp):
        if comps and rng.random() < 0.3:
            # the SAME function on another owner: two Computeds that a value-based __eq__ makes equal
            twin = rng.choice(comps)
            comps.append({"owner": rng.randrange(nown), "expr": twin["expr"], "none0": twin["none0"]})
            continue
        comps.append({"owner": rng.randrange(nown), "expr": _rand_expr(rng, owners, j, rng.choice([1, 2, 2, 3])),
                      "none0": rng.random() < 0.5})
    hist = {}
    ops = []
    cur = {(o, n): init[o][n] for o in range(nown) for n in range(owners[o])}
    for _ in range(nops):
        r = rng.random()
        if r < 0.48:
            o = rng.randrange(nown)
            n = rng.randrange(owners[o])
            q = rng.random()
            if q < 0.2:
                v = cur[(o, n)]                               # same value again
            elif q < 0.4 and hist.get((o, n)):
                v = rng.choice(hist[(o, n)])                  # restore a previous value
            else:
                v = rng.choice([0, 0, 1, 1, 2, 3, -1, 1000, 70000])
            hist.setdefault((o, n), []).append(cur[(o, n)])
            cur[(o, n)] = v
            ops.append(["set", o, n, v])
        elif r < 0.9:
            ops.append(["read", rng.randrange(ncomp)])
        elif r < 0.93:
            ops.append(["kill", rng.randrange(nown)])
        else:
            acts = []
            for _ in range(rng.randint(1, 4)):
                q = rng.random()
                o = rng.randrange(nown)
                n = rng.randrange(owners[o])
                if q < 0.4:
                    acts.append(["r", o, n])
                elif q < 0.55:
                    acts.append(["rk", rng.randrange(ncomp)])
                else:
                    acts.append(["w", o, n, rng.choice([0, 1, 2, 5])])
            ops.append(["win2" if rng.random() < 0.4 else "win", acts])
    return {"init": init, "comps": comps, "ops": ops, "layout": rng.choice(["own", "own", "shared", "deep"]),
            "csub": rng.choice(["stock", "stock", "eq", "eq", "call"]), "osub": rng.random() < 0.3, "fwrap": rng.random() < 0.3}


# --- oracle-only stream (the Z-valued model cannot represent it): arbitrary Python values in the observables, functions
# that build tuples / test truthiness / raise, owners whose truth value is False, class layouts
_POOL = [["i", 0], ["i", 1], ["b", True], ["b", False], ["f", "1.0"], ["f", "2.5"], ["f", "0.30000000000000004"],
         ["f", "0.3"], ["i", 2 ** 53 + 1], ["i", 10 ** 20], ["i", -(2 ** 63)], ["n"], ["s", "a"], ["s", ""],
         ["t", [["i", 1], ["i", 2]]], ["t", []], ["F", 1, 3], ["D", "1.5"], ["f", "-0.0"]]


def json_dumps(x):
    import json

    return json.dumps(x)


# the exception types a user function raises in the oracle-only stream (`req`), incl. the "control-flow" ones
_EXC_KINDS = ["LookupError", "KeyError", "AttributeError", "TypeError", "StopIteration", "IndexError", "ZeroDivisionError", "GeneratorExit"]


def _user_exc(kind):
    import builtins

    return getattr(builtins, _EXC_KINDS[kind % len(_EXC_KINDS)])("__user__")


def _is_user_exc(ex):
    return getattr(ex, "args", ())[:1] == ("__user__",)


def _dec(v):
    import decimal
    import fractions

    t = v[0]
    if t == "i":
        return int(v[1])
    if t == "b":
        return bool(v[1])
    if t == "f":
        return float(v[1])
    if t == "n":
        return None
    if t == "s":
        return v[1]
    if t == "t":
        return tuple(_dec(x) for x in v[1])
    if t == "F":
        return fractions.Fraction(v[1], v[2])
    if t == "D":
        return decimal.Decimal(v[1])
    raise ValueError(t)


def _het_expr(rng, owners, j, depth):
    def obs():
        o = rng.randrange(len(owners))
        return ["o", o, rng.randrange(owners[o])]
    r = rng.random()
    if depth <= 0 or r < 0.3:
        q = rng.random()
        if q < 0.6 or j == 0:
            return obs()
        if q < 0.9:
            return ["k", rng.randrange(j)]
        return ["c", rng.choice(_POOL)]
    if r < 0.55:
        return ["if", obs(), _het_expr(rng, owners, j, depth - 1), _het_expr(rng, owners, j, depth - 1)]
    if r < 0.9:
        return ["+", _het_expr(rng, owners, j, depth - 1), _het_expr(rng, owners, j, depth - 1)]
    return ["req", _het_expr(rng, owners, j, depth - 1), rng.randrange(len(_EXC_KINDS))]


def _het_case(rng):
    nown = rng.choice([1, 2, 2, 3])
    owners = [rng.randint(1, 3) for _ in range(nown)]
    init = [[rng.choice(_POOL) for _ in range(k)] for k in owners]
    ncomp = rng.randint(1, 4)
    comps = [{"owner": rng.randrange(nown), "expr": _het_expr(rng, owners, j, rng.choice([1, 2, 2, 3]))} for j in range(ncomp)]
    if ncomp > 1 and rng.random() < 0.3 and comps[1]["expr"][0] != "k":
        comps[0] = {"owner": comps[0]["owner"], "expr": comps[1]["expr"]} if "k" not in json_dumps(comps[1]["expr"]) else comps[0]
    ops = []
    hist = {}
    for _ in range(rng.randint(4, 24)):
        r = rng.random()
        if r < 0.5:
            o = rng.randrange(nown)
            n = rng.randrange(owners[o])
            v = rng.choice(hist[(o, n)]) if hist.get((o, n)) and rng.random() < 0.35 else rng.choice(_POOL)
            hist.setdefault((o, n), []).append(v)
            ops.append(["set", o, n, v])
        elif r < 0.97:
            ops.append(["read", rng.randrange(ncomp)])
        else:
            ops.append(["kill", rng.randrange(nown)])
    falsy = [o for o in range(nown) if rng.random() < 0.2]
    eqown = []
    if nown >= 2 and rng.random() < 0.15:
        eqown = [0, 1]           # two distinct owners that compare EQUAL (value-based __eq__/__hash__)
        ops = [op for op in ops if op[0] != "kill"]      # keep the other known finding / observations out of these histories
        falsy = []

        def strip(e):
            if e[0] == "req":
                return strip(e[1])
            if e[0] in ("+", "if"):
                return [e[0]] + [strip(x) for x in e[1:]]
            return e
        comps = [{"owner": c["owner"], "expr": strip(c["expr"])} for c in comps]
    return {"het": True, "init": init, "comps": comps, "ops": ops, "falsy": falsy, "eqown": eqown,
            "layout": "own" if eqown else rng.choice(["own", "shared", "deep"]),
            "csub": rng.choice(["stock", "eq", "call"]), "osub": rng.random() < 0.3, "fwrap": rng.random() < 0.3}


# --- SCALE stream: dependency graphs whose sizes cross 255/256/257, 512, 1024 ... (subscriber lists, parents dicts,
# PROCESSING_SIGNALS, recursion): big on the implementation side; beyond 64 Computables implementation + oracle only
def _bsum(terms):
    """balanced sum, so that neither the closures nor the printers recurse deeply"""
    while len(terms) > 1:
        terms = [["+", terms[i], terms[i + 1]] if i + 1 < len(terms) else terms[i] for i in range(0, len(terms), 2)]
    return terms[0]


def _scale_star(n, layout="shared"):
    """ONE observable (owner 0) read by n Computables, each on an owner of its own"""
    init = [[1]] + [[i % 3] for i in range(n)]
    comps = [{"owner": i + 1, "expr": ["+", ["o", 0, 0], ["o", i + 1, 0]], "none0": i % 7 == 0} for i in range(n)]
    allr = [["read", j] for j in range(n)]
    ops = allr + [["set", 0, 0, 5]] + allr + [["set", 0, 0, 5]] + allr + [["set", 1, 0, 9], ["set", n, 0, 9], ["set", 0, 0, -2]] + allr
    return {"scale": True, "init": init, "comps": comps, "ops": ops, "layout": layout}


def _scale_fan_one_owner(m):
    """one Computable reading m observables of ONE owner (and one reading the same observable m times)"""
    init = [[(i * 7) % 5 for i in range(m)]]
    comps = [{"owner": 0, "expr": _bsum([["o", 0, i] for i in range(m)])},
             {"owner": 0, "expr": _bsum([["o", 0, 0] for _ in range(m)])},
             {"owner": 0, "expr": ["+", ["k", 0], ["k", 1]]}]
    ops = [["read", 2], ["set", 0, m - 1, 100], ["read", 2], ["set", 0, 0, 1000], ["read", 1], ["read", 2], ["set", 0, 0, 1000],
           ["read", 2], ["set", 0, m // 2, 7], ["set", 0, m // 2, (m // 2 * 7) % 5], ["read", 0], ["read", 2]]
    return {"scale": True, "init": init, "comps": comps, "ops": ops, "layout": "own"}


def _scale_fan_many_owners(m):
    """one Computable reading one observable of each of m owners"""
    init = [[i % 4] for i in range(m)]
    comps = [{"owner": 0, "expr": _bsum([["o", i, 0] for i in range(m)])}, {"owner": m - 1, "expr": ["+", ["k", 0], ["o", m - 1, 0]]}]
    ops = [["read", 1], ["set", m - 1, 0, 50], ["read", 1], ["set", m // 2, 0, 60], ["read", 0], ["read", 1], ["set", 0, 0, 0], ["read", 1],
           ["set", 1, 0, 70], ["set", 1, 0, 1], ["read", 1]]
    return {"scale": True, "init": init, "comps": comps, "ops": ops, "layout": "shared"}


def _scale_chain(n, top_down):
    """a chain n deep; top_down: after a write the LAST link is read first (the comparison recurses through the
    whole chain, several Python frames per link - sizes stay below what HEAD manages under the default recursion limit);
    otherwise the links are read bottom-up (only the dirty cascade recurses, three frames per link)"""
    init = [[1, 2]]
    comps = [{"owner": 0, "expr": ["o", 0, 0]}] + [{"owner": 0, "expr": ["+", ["k", j - 1], ["o", 0, j % 2]]} for j in range(1, n)]
    up = [["read", j] for j in range(n)]
    if top_down:
        ops = [["read", n - 1], ["set", 0, 0, 3], ["read", n - 1], ["set", 0, 1, 2], ["read", n - 1], ["set", 0, 1, 5], ["read", n // 2], ["read", n - 1]]
    else:
        ops = [["set", 0, 0, 3]] + up + [["set", 0, 1, 4]] + up + [["set", 0, 1, 4]] + up[::7] + [["read", n - 1]]
    return {"scale": True, "init": init, "comps": comps, "ops": ops, "layout": "own"}


def _scale_rounds(r):
    """thousands of write/read rounds on a small graph: every evaluation subscribes again"""
    comps = [{"owner": 0, "expr": ["+", ["o", 0, 0], ["o", 1, 0]]}, {"owner": 1, "expr": ["if", ["o", 0, 1], ["k", 0], ["o", 1, 0]]},
             {"owner": 1, "expr": ["+", ["k", 1], ["k", 0]]}]
    ops = []
    for i in range(r):
        ops += [["set", 0, 0, i % 5], ["read", 2]]
        if i % 3 == 0:
            ops += [["set", 0, 1, (i // 3) % 2], ["read", 1]]
        if i % 50 == 0:
            ops += [["set", 1, 0, i % 4], ["read", 2], ["read", 0]]
    return {"scale": True, "init": [[0, 1], [2]], "comps": comps, "ops": ops, "layout": "shared"}


def _is_big(case):
    """scale cases beyond these sizes are run on the implementation and judged by the oracle only"""
    return bool(case.get("scale")) and (len(case["comps"]) > 64 or sum(len(v) for v in case["init"]) > 130 or len(case["ops"]) > 400)


def _scale_cases(tier, broken=False):
    cs = [_scale_star(40), _scale_chain(40, True), _scale_fan_one_owner(40)]          # model-compared sizes
    cs += [_scale_star(257), _scale_star(300, "deep"), _scale_fan_one_owner(300), _scale_fan_many_owners(260),
           _scale_chain(90, True), _scale_chain(250, False), _scale_rounds(700)]
    if tier == "thorough" or broken:
        cs += [_scale_star(n) for n in (255, 256, 513, 1025)]
        cs += [_scale_fan_one_owner(n) for n in (256, 257, 1025)] + [_scale_fan_many_owners(n) for n in (257, 1025)]
        cs += [_scale_chain(129, True), _scale_chain(280, False), _scale_rounds(3000)]
    return cs


# --- ObservableList inputs (oracle only): Computeds over len / sum / contents of lists, every way to change a list
CAND_INPLACE = "cand/C17/Computed.__call__/in-place-list-change-compared-by-identity"   # HEAD finding (wave 11), observed
_LST_INPLACE = ["append", "extend", "insert", "remove", "pop", "clear", "reverse", "setitem", "delitem", "setslice", "delslice"]


def _lst_case(rng, inplace=True):
    ops = []
    kinds = ["iadd", "iadd", "new", "same", "copy", "setx", "read", "read", "read"] + (["inplace"] if inplace else [])
    for _ in range(rng.randint(4, 16)):
        k = rng.choice(kinds)
        li = rng.randrange(2)
        if k in ("iadd", "new"):
            ops.append([k, li, [rng.randint(0, 5) for _ in range(rng.randint(0, 3))]])
        elif k in ("same", "copy"):
            ops.append([k, li])
        elif k == "setx":
            ops.append([k, rng.randint(0, 2)])
        elif k == "inplace":
            ops.append([k, li, rng.choice(_LST_INPLACE), rng.randint(0, 5)])
        else:
            ops.append(["read", rng.randrange(5)])
    ops += [["read", j] for j in (3, 4, 2)]
    return {"lst": True, "init": [[rng.randint(0, 4) for _ in range(rng.randint(0, 3))] for _ in range(2)], "ops": ops}


def _lst_corner():
    return [{"lst": True, "init": [[1, 2, 3], [4]], "ops": [["read", 3], ["iadd", 0, [4, 5]], ["read", 3], ["read", 0], ["iadd", 1, [1]],
                                                           ["read", 2], ["read", 4], ["same", 0], ["read", 3], ["copy", 1], ["read", 2],
                                                           ["new", 0, []], ["read", 3], ["iadd", 0, []], ["read", 0], ["setx", 0], ["iadd", 1, [9]],
                                                           ["read", 4], ["setx", 1], ["read", 4]]}]


def _run_lst(case):
    """owner with two ObservableLists l0, l1 and an Observable x; c0 = sum(l0), c1 = len(l0) + x, c2 = tuple(l1),
    c3 = c0 + c1 (chain), c4 = sum(l1) if x else 0.  Judged: after `+=`, assignment of a new list, of the SAME list object,
    of the list read back / an equal copy, and assignments to x, every read equals a fresh evaluation.  In-place methods
    are observed only (HEAD compares the list by identity: report), and everything after one of them in a history."""
    from mesa.experimental.mesa_signals.mesa_signal import Computable, Computed, HasObservables, Observable
    from mesa.experimental.mesa_signals.observable_collections import ObservableList

    class L(HasObservables):
        l0 = ObservableList()
        l1 = ObservableList()
        x = Observable()
        c0 = Computable()
        c1 = Computable()
        c2 = Computable()
        c3 = Computable()
        c4 = Computable()

    a = L()
    sh = [list(case["init"][0]), list(case["init"][1])]
    shx = [1]
    a.l0, a.l1, a.x = list(sh[0]), list(sh[1]), 1
    a.c0 = Computed(lambda: sum(a.l0))
    a.c1 = Computed(lambda: len(a.l0) + a.x)
    a.c2 = Computed(lambda: tuple(a.l1))
    a.c3 = Computed(lambda: a.c0 + a.c1)
    a.c4 = Computed(lambda: sum(a.l1) if a.x else 0)

    def fresh(j):
        return [sum(sh[0]), len(sh[0]) + shx[0], tuple(sh[1]), sum(sh[0]) + len(sh[0]) + shx[0], sum(sh[1]) if shx[0] else 0][j]

    failures, obs, inplace_seen = [], [], False
    for i, op in enumerate(case["ops"]):
        k = op[0]
        try:
            if k == "read":
                got, exp = getattr(a, f"c{op[1]}"), fresh(op[1])
                if got != exp:
                    failures.append({"key": CAND_INPLACE if inplace_seen else "C17/Computable/stale-value", "op": i,
                                     "what": f"Computed over an ObservableList: read c{op[1]} = {got!r}; its function evaluated now gives {exp!r} "
                                             f"(lists {sh}, x = {shx[0]}; history {case['ops'][:i + 1]})"})
                obs.append([10])
                continue
            name = f"l{op[1]}" if k != "setx" else None
            if k == "iadd":
                lst = getattr(a, name)
                lst += op[2]
                setattr(a, name, lst)                # what `a.l += items` does: __iadd__ in place, then the attribute is assigned
                sh[op[1]] += list(op[2])
            elif k == "new":
                setattr(a, name, list(op[2]))
                sh[op[1]] = list(op[2])
            elif k == "same":
                setattr(a, name, getattr(a, name))   # o.l = o.l
            elif k == "copy":
                setattr(a, name, list(getattr(a, name)))
            elif k == "setx":
                a.x = op[1]
                shx[0] = op[1]
            elif k == "inplace":
                inplace_seen = True
                lst, m, v, py = getattr(a, name), op[2], op[3], sh[op[1]]
                try:
                    if m == "append":
                        lst.append(v); py.append(v)
                    elif m == "extend":
                        lst.extend([v, v]); py.extend([v, v])
                    elif m == "insert":
                        lst.insert(0, v); py.insert(0, v)
                    elif m == "remove":
                        if v in py:
                            lst.remove(v); py.remove(v)
                    elif m == "pop":
                        if py:
                            lst.pop(); py.pop()
                    elif m == "clear":
                        lst.clear(); py.clear()
                    elif m == "reverse":
                        lst.reverse(); py.reverse()
                    elif m == "setitem":
                        if py:
                            lst[0] = v; py[0] = v
                    elif m == "delitem":
                        if py:
                            del lst[0]; del py[0]
                    elif m == "setslice":
                        lst[0:1] = [v, v]; py[0:1] = [v, v]
                    elif m == "delslice":
                        del lst[0:1]; del py[0:1]
                finally:
                    sh[op[1]] = list(getattr(a, name))       # whatever HEAD's list does is the truth for later reads
            obs.append([11])
        except Exception as e:  # noqa: BLE001
            obs.append([-1, 99])
            key = CAND_INPLACE if k == "inplace" else f"C17/list-{k}/unexpected-exception"
            failures.append({"key": key, "op": i, "what": f"{op} raised {type(e).__name__}: {e}"})
    return {"obs": obs, "failures": failures, "model": False}


def _extreme_cases():
    """extreme but legal shapes: a chain of 14 Computables, a Computable without any read, one reading every
    observable of three owners, an empty history tail, the same read repeated"""
    cs = []
    chain = [{"owner": 0, "expr": ["o", 0, 0]}] + [{"owner": j % 2, "expr": ["+", ["k", j - 1], ["o", 0, 0]]} for j in range(1, 14)]
    cs.append({"init": [[1], [0]], "comps": chain, "layout": "shared",
               "ops": [["read", 13], ["set", 0, 0, 2], ["read", 13], ["read", 13], ["set", 0, 0, 2], ["read", 6], ["read", 13],
                       ["set", 0, 0, 0], ["read", 0], ["read", 13]]})
    cs.append({"init": [[1, 2, 3], [4, 5, 6], [7, 8, 9]], "layout": "deep",
               "comps": [{"owner": 0, "expr": ["c", 5]},
                         {"owner": 1, "expr": ["+", ["+", ["+", ["o", 0, 0], ["o", 0, 1]], ["+", ["o", 0, 2], ["o", 1, 0]]],
                                                ["+", ["+", ["o", 1, 1], ["o", 1, 2]], ["+", ["+", ["o", 2, 0], ["o", 2, 1]], ["+", ["o", 2, 2], ["k", 0]]]]]}],
               "ops": [["read", 0], ["read", 0], ["set", 2, 2, 0], ["read", 1], ["read", 0], ["set", 2, 2, 9], ["read", 1],
                       ["set", 0, 0, 1], ["set", 1, 1, 5], ["read", 1], ["kill", 2], ["read", 1], ["set", 1, 1, 6], ["read", 1]]})
    cs.append({"init": [[0]], "comps": [{"owner": 0, "expr": ["c", 0], "none0": True}], "ops": [["read", 0], ["set", 0, 0, 1], ["read", 0]]})
    return cs


def _corner_cases():
    """the corner histories the statement names, hand-written (each also minimal for one known defect)"""
    cs = []
    # chain b=f(x), a=g(x,b); assign, read, assign the same value, read  (#28)
    cs.append({"init": [[1]], "comps": [{"owner": 0, "expr": ["+", ["o", 0, 0], ["c", 1]]},
                                         {"owner": 0, "expr": ["+", ["o", 0, 0], ["k", 0]]}],
               "ops": [["set", 0, 0, 2], ["read", 1], ["set", 0, 0, 2], ["read", 1], ["read", 0]]})
    # branch flip away from b and back; b changes while not read
    cs.append({"init": [[1, 10]], "comps": [{"owner": 0, "expr": ["+", ["o", 0, 1], ["c", 1]]},
                                             {"owner": 0, "expr": ["if", ["o", 0, 0], ["k", 0], ["c", 0]]}],
               "ops": [["read", 1], ["set", 0, 0, 0], ["read", 1], ["set", 0, 1, 20], ["read", 1], ["set", 0, 0, 0],
                       ["read", 1], ["set", 0, 0, 1], ["read", 1], ["set", 0, 1, 10], ["read", 1]]})
    # nested comparison: c = 5 whatever x; a = y + c
    cs.append({"init": [[1, 10]], "comps": [{"owner": 0, "expr": ["if", ["o", 0, 0], ["c", 5], ["c", 5]]},
                                             {"owner": 0, "expr": ["+", ["o", 0, 1], ["k", 0]]}],
               "ops": [["read", 1], ["set", 0, 1, 11], ["set", 0, 0, 2], ["read", 1], ["set", 0, 0, 3], ["read", 1]]})
    # an upstream Computable whose function legitimately returns None (model value 0), read only through the chain
    cs.append({"init": [[0, 10]], "comps": [{"owner": 0, "expr": ["if", ["o", 0, 0], ["o", 0, 1], ["c", 0]], "none0": True},
                                             {"owner": 0, "expr": ["+", ["k", 0], ["c", 1]], "none0": False},
                                             {"owner": 0, "expr": ["if", ["k", 0], ["c", 0], ["c", 7]], "none0": True}],
               "ops": [["read", 1], ["set", 0, 0, 1], ["read", 1], ["read", 2], ["set", 0, 0, 0], ["read", 2], ["read", 1],
                       ["set", 0, 1, 0], ["set", 0, 0, 1], ["read", 1], ["set", 0, 1, 4], ["read", 2], ["read", 1]]})
    # several owners, chain of three
    cs.append({"init": [[1], [2], [3]], "comps": [{"owner": 0, "expr": ["+", ["o", 1, 0], ["o", 2, 0]]},
                                                   {"owner": 1, "expr": ["if", ["o", 0, 0], ["k", 0], ["o", 2, 0]]},
                                                   {"owner": 2, "expr": ["+", ["k", 1], ["k", 0]]}],
               "ops": [["read", 2], ["set", 1, 0, 5], ["read", 2], ["set", 0, 0, 0], ["read", 2], ["set", 1, 0, 7],
                       ["read", 2], ["read", 0], ["set", 0, 0, 1], ["read", 2], ["set", 2, 0, 3], ["read", 2]]})
    # cycle clause: direct; write-other-then-self (#29); write then read (not demanded)
    cs.append({"init": [[1, 2]], "comps": [{"owner": 0, "expr": ["o", 0, 0]}],
               "ops": [["win", [["r", 0, 0], ["w", 0, 0, 5]]], ["read", 0],
                       ["win", [["r", 0, 0], ["w", 0, 1, 7], ["w", 0, 0, 6]]], ["read", 0],
                       ["win", [["w", 0, 0, 8], ["r", 0, 0]]], ["read", 0],
                       ["win", [["rk", 0], ["w", 0, 1, 9]]], ["read", 0]]})
    # a rejected installation leaves the Computed installed: read it again (unchanged parents -> None; a parent
    # Computable that the function itself made dirty -> the function runs again)
    cs.append({"init": [[1, 2]], "comps": [{"owner": 0, "expr": ["o", 0, 1]}],
               "ops": [["set", 0, 0, 1], ["win2", [["r", 0, 0], ["w", 0, 0, 5]]], ["read", 0],
                       ["set", 0, 0, 1], ["win2", [["rk", 0], ["w", 0, 1, 7], ["r", 0, 0], ["w", 0, 0, 6]]], ["read", 0],
                       ["set", 0, 0, 1], ["win2", [["r", 0, 0], ["w", 0, 1, 9], ["w", 0, 0, 6]]], ["read", 0],
                       ["win2", [["w", 0, 1, 3]]], ["set", 0, 0, 2], ["win2", [["w", 0, 1, 3]]]]})
    # two Computeds with the SAME function on different owners (equal under a value-based __eq__), one shared observable
    for csub in ("eq", "call", "stock"):
        cs.append({"init": [[1], [0], [0]], "csub": csub, "fwrap": csub == "call", "osub": csub == "eq",
                   "comps": [{"owner": 1, "expr": ["+", ["o", 0, 0], ["c", 100]]}, {"owner": 2, "expr": ["+", ["o", 0, 0], ["c", 100]]},
                             {"owner": 2, "expr": ["+", ["k", 0], ["k", 1]]}],
                   "ops": [["read", 0], ["read", 1], ["set", 0, 0, 2], ["read", 0], ["read", 1], ["read", 0], ["set", 0, 0, 3],
                           ["read", 1], ["read", 0], ["set", 0, 0, 4], ["read", 0], ["read", 1], ["set", 0, 0, 5], ["read", 2]]})
    # collected parent
    cs.append({"init": [[1], [7]], "comps": [{"owner": 0, "expr": ["+", ["o", 1, 0], ["o", 0, 0]]}],
               "ops": [["read", 0], ["kill", 1], ["read", 0], ["set", 0, 0, 1], ["read", 0], ["set", 0, 0, 2], ["read", 0]]})
    # collected owner of a computed that others read
    cs.append({"init": [[1], [7]], "comps": [{"owner": 1, "expr": ["o", 0, 0]}, {"owner": 0, "expr": ["+", ["k", 0], ["c", 1]]}],
               "ops": [["read", 1], ["kill", 1], ["set", 0, 0, 4], ["read", 1], ["read", 0], ["set", 1, 0, 1]]})
    return cs


def gen_cases(rng, tier):
    cases = _corner_cases() + _extreme_cases() + _scale_cases(tier)
    n = 600 if tier == "quick" else 12000
    for _ in range(n):
        cases.append(_rand_case(rng, rng.randint(4, 30)))
    for _ in range(200 if tier == "quick" else 4000):
        cases.append(_het_case(rng))
    cases += _lst_corner()
    for i in range(60 if tier == "quick" else 1500):
        cases.append(_lst_case(rng, inplace=(i % 3 == 0)))
    return cases


_TEMPLATES = [
    # (init, comps)
    ([[0, 0]], [{"owner": 0, "expr": ["+", ["o", 0, 0], ["c", 1]]}, {"owner": 0, "expr": ["+", ["o", 0, 0], ["k", 0]]}]),
    ([[0, 0]], [{"owner": 0, "expr": ["+", ["o", 0, 1], ["c", 1]]}, {"owner": 0, "expr": ["if", ["o", 0, 0], ["k", 0], ["c", 0]]}]),
    ([[0, 0]], [{"owner": 0, "expr": ["if", ["o", 0, 0], ["c", 5], ["c", 5]]}, {"owner": 0, "expr": ["+", ["o", 0, 1], ["k", 0]]}]),
    ([[0], [0]], [{"owner": 1, "expr": ["if", ["o", 0, 0], ["o", 1, 0], ["c", 1]]}, {"owner": 0, "expr": ["if", ["o", 1, 0], ["k", 0], ["o", 0, 0]]}]),
    ([[0, 0]], [{"owner": 0, "expr": ["o", 0, 0]}, {"owner": 0, "expr": ["if", ["k", 0], ["o", 0, 1], ["k", 0]]}]),
    ([[0], [0]], [{"owner": 0, "expr": ["+", ["o", 0, 0], ["o", 1, 0]]}, {"owner": 1, "expr": ["+", ["k", 0], ["k", 0]]}]),
]


def enumerate_cases(tier, broken=False):
    """all op sequences of length <= 4 (5 thorough) over {set x 0|1, set y 0|1, read c0, read c1} on six
    two-observable, two-computed shapes (chain, branch flip, constant branch, cross-owner, ...)"""
    ln = 5 if tier == "thorough" else 4
    if broken:
        yield from _scale_cases("thorough", broken=True)
    for ti, (init, comps0) in enumerate(_TEMPLATES + _TEMPLATES):
        # second pass: the functions return None where the model value is 0
        comps = [dict(c, none0=(ti >= len(_TEMPLATES))) for c in comps0]
        if len(init) == 1:
            xs = [(0, 0), (0, 1)]
        else:
            xs = [(0, 0), (1, 0)]
        alphabet = [["set", xs[0][0], xs[0][1], 0], ["set", xs[0][0], xs[0][1], 1],
                    ["set", xs[1][0], xs[1][1], 0], ["set", xs[1][0], xs[1][1], 1], ["read", 0], ["read", 1]]
        for seq in itertools.product(range(len(alphabet)), repeat=ln):
            if not any(alphabet[i][0] == "read" for i in seq):
                continue
            yield {"init": init, "comps": comps, "ops": [list(alphabet[i]) for i in seq]}
    # cycle clause: all action lists of length <= 3 over two observables
    acts = [["r", 0, 0], ["r", 0, 1], ["w", 0, 0, 5], ["w", 0, 1, 6], ["rk", 0]]
    for k in (2, 3):
        for seq in itertools.product(range(len(acts)), repeat=k):
            yield {"init": [[1, 2]], "comps": [{"owner": 0, "expr": ["o", 0, 0]}],
                   "ops": [["win", [list(acts[i]) for i in seq]], ["read", 0]]}
            yield {"init": [[1, 2]], "comps": [{"owner": 0, "expr": ["o", 0, 1]}],
                   "ops": [["set", 0, 0, 1], ["win2", [list(acts[i]) for i in seq]], ["read", 0]]}


# ------------------------------------------------------------------ implementation side
class _Env:
    pass


def _z(v):
    """a Computable of a `none0` computed holds None where the model holds 0 (a function may legitimately return None)"""
    return 0 if v is None else v


_FROZEN = []


def _pure(env, e, j):
    """direct evaluation of a DSL term on the shadow store: what the function returns if evaluated right now.
    The values of the Computables below are computed bottom-up (iteratively, memoised for the duration of one
    top-level call) so that chains hundreds deep do not recurse."""
    if getattr(env, "_memo", None) is not None:
        return _pure1(env, e, j)
    env._memo = {}
    try:
        return _pure1(env, e, j)
    finally:
        env._memo = None


def _den(env, k):
    memo = env._memo
    if k not in memo:
        for i in range(k + 1):
            if i not in memo:
                try:
                    memo[i] = (True, _pure1(env, env.exprs[i], i))
                except _Required as ex:
                    memo[i] = (False, ex)
    ok, v = memo[k]
    if not ok:
        raise v
    return v


def _pure1(env, e, j):
    t = e[0]
    if t == "c":
        return _dec(e[1]) if env.het else e[1]
    if t == "o":
        return env.shadow[(e[1], e[2])] if e[1] in env.alive else 0
    if t == "k":
        k = e[1]
        if k < j and env.cowner[k] in env.alive:
            return _den(env, k)
        return 0
    if t == "+":
        a = _pure1(env, e[1], j)
        b = _pure1(env, e[2], j)
        return (a, b) if env.het else a + b
    if t == "if":
        return _pure1(env, e[2], j) if _pure1(env, e[1], j) else _pure1(env, e[3], j)
    if t == "req":
        v = _pure1(env, e[1], j)
        if not v:
            raise _Required()
        return v
    raise ValueError(t)


class _Required(Exception):
    """direct evaluation: the function raises now (`req`: it needs a truthy value; the implementation side raises
    one of _EXC_KINDS with the marker argument "__user__")"""


_GONE = object()


def _cur(env, src):
    """current value of a source, _GONE if its owner is gone (or its function raises now)"""
    if src[0] == "o":
        return env.shadow[(src[1], src[2])] if src[1] in env.alive else _GONE
    k = src[1]
    if env.cowner[k] not in env.alive:
        return _GONE
    try:
        return _pure(env, env.exprs[k], k)
    except _Required:
        return _GONE


KEY_FALSY = "C17/Computed.__call__/falsy-owner-treated-as-collected"   # repaired (fix C17-5): a verdict if it returns
CAND_EXC = "cand/C17/Computed.__call__/exception-in-function-then-cached-value-served"
KEY_EQOWN = "C17/Computed/equal-owners-conflated"   # KNOWN FINDING (wave 10): owners keyed by ==/hash in Computed.parents


def _owners_in(env, e, j, out):
    t = e[0]
    if t == "o":
        out.add(e[1])
    elif t == "k":
        if e[1] < j:
            out.add(env.cowner[e[1]])        # a Computable is a parent keyed by ITS owner
        if e[1] < j and e[1] not in env._cone_seen:
            env._cone_seen.add(e[1])
            _owners_in(env, env.exprs[e[1]], e[1], out)
    elif t in ("+", "if", "req"):
        for x in e[1:]:
            if isinstance(x, list):
                _owners_in(env, x, j, out)


def _cone_has_equal_owners(env):
    """does the Computed being read at top level (or, through it, any Computable below) have parents - observables or
    Computables - on BOTH equal owners?"""
    j = getattr(env, "top_j", None)
    if j is None:
        return False
    env._cone_seen = set()
    out = set()
    _owners_in(env, env.exprs[j], j, out)
    return all(o in out for o in env.eqown)


def _fail(env, key, what):
    """symptoms that follow from a user-code exception inside a function earlier in the history are an OBSERVATION
    (functions that raise are outside C17's quantifier) recorded under a cand/ key the framework does not report;
    a re-run caused by an owner whose truth value is False is the repaired defect C17-5: a verdict"""
    if getattr(env, "eqown", None) and key.startswith("C17/") and _cone_has_equal_owners(env):
        # every spelling of the known finding (stale value, re-run on every dirty check, AttributeError from the comparison
        # loop): only in a history with two equal-but-distinct owners, and only for a Computed whose cone reads BOTH
        key = KEY_EQOWN
    elif getattr(env, "exc_seen", False) and key.startswith("C17/"):
        key = CAND_EXC
    elif getattr(env, "falsy", None) and "spurious-recompute" in key:
        key = KEY_FALSY
    env.failures.append({"key": key, "op": env.opi, "what": what})


def _classify_spurious(env, j):
    """which remembered entry triggered a re-run although nothing read last time changed (white-box look at
    Computed.parents, only to name the defect)"""
    try:
        comp = getattr(env.owners[env.cowner[j]], f"_c{j}")
        last = {s for s, _ in env.last_reads[j]}
        for parent in list(comp.parents.keys()):
            oi = env.ids.get(id(parent))
            for name, old in list(comp.parents[parent].items()):
                src = ("o", oi, int(name[1:])) if name[0] == "x" else ("k", int(name[1:]))
                if _cur(env, src) != env.z(old):
                    if src in last:
                        return "remembered-parent-value-was-never-read", f"remembers {name}={old} of owner {oi}, but the value it read was {dict(env.last_reads[j])[src]}"
                    if src in env.ever_reads[j]:
                        return "parents-of-earlier-evaluation-kept", f"still compares {name} of owner {oi}, which its last evaluation did not read"
                    return "dependency-registered-by-nested-comparison", f"compares {name} of owner {oi}, which its function never read (registered while a parent Computed compared its own parents)"
    except Exception:  # noqa: BLE001
        pass
    return "recompute-without-change", "no value read by the last evaluation differs now"


def _chain_check(env, k, v, who):
    """no stale value is served through chains either"""
    try:
        exp = _pure(env, env.exprs[k], k)
    except _Required:
        key = "C17/Computed/stale-after-parent-collected" if _dead_upstream(env, k) else "C17/Computable/stale-value-in-chain"
        _fail(env, key, f"{who} read c{k} and got {v!r}; c{k}'s function evaluated now raises")
        return
    if v != exp:
        dead = _dead_upstream(env, k)
        if dead:
            _fail(env, "C17/Computed/stale-after-parent-collected",
                  f"{who} read c{k} = {v}; c{k}'s function evaluated now gives {exp}: an owner it read "
                  f"({[list(s) for s in dead]}) was garbage-collected and nothing marked the Computed dirty")
        else:
            _fail(env, "C17/Computable/stale-value-in-chain",
                  f"{who} read c{k} and got {v}; c{k}'s function evaluated now gives {exp}")


def _mk_func(env, j, expr):
    def ev(e):
        t = e[0]
        if t == "c":
            return _dec(e[1]) if env.het else e[1]
        if t == "req":
            v = ev(e[1])
            if not v:
                raise _user_exc(e[2] if len(e) > 2 else 0)
            return v
        if t == "o":
            o = env.owners.get(e[1])
            if o is None:
                return 0
            v = getattr(o, f"x{e[2]}")
            env.reads.append((("o", e[1], e[2]), v))
            return v
        if t == "k":
            k = e[1]
            o = env.owners.get(env.cowner[k])
            if o is None or k >= j:
                return 0
            v = env.z(getattr(o, f"c{k}"))
            env.reads.append((("k", k), v))
            _chain_check(env, k, v, f"computed c{j}")
            return v
        if t == "+":
            a = ev(e[1])
            b = ev(e[2])
            return (a, b) if env.het else a + b
        if t == "if":
            return ev(e[2]) if ev(e[1]) else ev(e[3])
        raise ValueError(t)

    def func():
        env.cnt[j] += 1
        if j in env.last_reads:
            lr = env.last_reads[j]
            # (a collected owner upstream makes the cached parents differ from their functions - the known
            #  finding - so "changed or not" cannot be judged from the store then)
            if all(_cur(env, s) == v for s, v in lr) and not _dead_upstream(env, j):
                sub, why = _classify_spurious(env, j)
                _fail(env, f"C17/Computed/spurious-recompute/{sub}",
                      f"function of c{j} re-run although none of the values it read last time changed "
                      f"(last reads {[(list(s), v) for s, v in lr]}): {why}")
        saved = env.reads
        env.reads = []
        try:
            r = ev(expr)
        except BaseException as ex:
            if _is_user_exc(ex):
                env.exc_seen = True
            raise
        finally:
            mine = env.reads
            env.reads = saved
        env.last_reads[j] = mine
        env.ever_reads[j].update(s for s, _ in mine)
        return None if (not env.het and r == 0 and env.none0[j]) else r

    return func


def _state_obs(env):
    if env.het or env.big:
        return []
    out = list(env.cnt)
    for o in sorted(env.alive):
        own = env.owners[o]
        for n in range(env.nobs[o]):
            out.append(int(getattr(own, f"x{n}")))
    return out


def run_impl(case):
    if case.get("lst"):
        return _run_lst(case)
    import mesa.experimental.mesa_signals.mesa_signal as ms
    from mesa.experimental.mesa_signals.mesa_signal import Computable, Computed, HasObservables, Observable

    gc.disable()
    if not _FROZEN:
        gc.collect()
        gc.freeze()          # keeps the later gc.collect() calls (one per kill / writer op) cheap
        _FROZEN.append(1)
    ms.PROCESSING_SIGNALS.clear()
    ms.CURRENT_COMPUTED = None
    env = _Env()
    env.failures = []
    env.opi = -1
    env.het = bool(case.get("het"))
    env.big = _is_big(case)
    env.z = (lambda v: v) if env.het else _z
    env.exc_seen = False
    env.falsy = list(case.get("falsy", [])) if env.het else []
    env.eqown = list(case.get("eqown", [])) if env.het else []
    dec = _dec if env.het else (lambda v: v)
    init = case["init"]
    comps = case["comps"]
    env.nobs = [len(v) for v in init]
    env.cowner = [c["owner"] for c in comps]
    env.exprs = [c["expr"] for c in comps]
    env.none0 = [bool(c.get("none0", False)) for c in comps]
    env.cnt = [0] * len(comps)
    env.last_reads = {}
    env.ever_reads = [set() for _ in comps]
    env.reads = []
    env.shadow = {}
    env.owners = {}
    env.ids = {}
    env.alive = set()

    class Dummy(HasObservables):
        t = Observable()

    dummy = Dummy()
    if case.get("osub"):          # user subclasses of the descriptors: docstring-only / class-level default / extra argument
        class MyObservable(Observable):
            """an Observable with a label"""

            def __init__(self, fallback_value=None, label=""):
                super().__init__(fallback_value=fallback_value)
                self.label = label

        class MyComputable(Computable):
            unit = "u"

        def mkobs():
            return MyObservable(label="x")

        mkcomp = MyComputable
    else:
        mkobs, mkcomp = Observable, Computable

    class EqComputed(Computed):
        """compares by WHAT it computes (value-based __eq__/__hash__): two instances with the same function are equal"""
        key = None

        def __eq__(self, other):
            return isinstance(other, EqComputed) and self.key == other.key

        def __hash__(self):
            return hash(self.key)

    class CallComputed(Computed):
        calls = 0                 # class-level default, extra attribute

        def __call__(self):
            self.calls += 1
            return super().__call__()

    class Holder:                 # functions that are bound methods of an object with a permissive __eq__
        def __init__(self, f):
            self.f = f

        def __eq__(self, other):
            return True

        def __hash__(self):
            return 0

        def run(self):
            return self.f()

        def __call__(self):
            return self.f()

    def make_computed(j, expr):
        import functools

        f = _mk_func(env, j, expr)
        if case.get("fwrap"):
            f = [f, functools.partial(f), Holder(f).run, Holder(f)][j % 4]
        kind = case.get("csub", "stock")
        if kind == "eq":
            c = EqComputed(f)
            c.key = json_dumps(expr)
            return c
        if kind == "call":
            return CallComputed(f) if j % 2 == 0 else Computed(lambda tag: f(), "tag")
        return Computed(f)

    layout = case.get("layout", "own")
    shared = None
    if layout == "shared":        # every owner is an instance of ONE class carrying all descriptors (class-level state)
        ns = {f"x{n}": mkobs() for n in range(max(len(v) for v in init))}
        ns.update({f"c{j}": mkcomp() for j in range(len(comps))})
        shared = type("SharedOwner", (HasObservables,), ns)

    class Mixin:                  # placed AFTER the framework base in the MRO
        tag = "mixin"

        def describe(self):
            return self.tag

    for o, vals in enumerate(init):
        mine = {f"c{j}": mkcomp() for j, c in enumerate(comps) if c["owner"] == o}
        if shared is not None:
            cls = shared
        elif layout == "deep":    # observables on a base class, Computables on a subclass of a subclass + mixin
            base = type(f"Base{o}", (HasObservables,), {f"x{n}": mkobs() for n in range(len(vals))})
            mid = type(f"Mid{o}", (base,), {})
            cls = type(f"Owner{o}", (mid, Mixin), mine)
        else:
            ns = {f"x{n}": mkobs() for n in range(len(vals))}
            ns.update(mine)
            cls = type(f"Owner{o}", (HasObservables,), ns)
        if o in env.falsy:        # an owner whose truth value is False (a container that is empty)
            extra = {"__len__": (lambda self: 0)} if o % 2 == 0 else {"__bool__": (lambda self: False)}
            cls = type(f"Falsy{o}", (cls,), extra)
        if o in env.eqown:        # distinct owners that compare equal and hash alike
            cls = type(f"EqOwner{o}", (cls,), {"__eq__": (lambda self, other: getattr(other, "_eqtag", None) == "t"),
                                               "__hash__": (lambda self: 17), "_eqtag": "t"})
        inst = cls()
        env.owners[o] = inst
        env.ids[id(inst)] = o
        env.alive.add(o)
        for n, v in enumerate(vals):
            v = dec(v)
            setattr(inst, f"x{n}", v)
            env.shadow[(o, n)] = v
    setup_ok = True
    for j, c in enumerate(comps):
        try:
            setattr(env.owners[c["owner"]], f"c{j}", make_computed(j, c["expr"]))
        except BaseException as e:  # noqa: BLE001
            if _is_user_exc(e):
                env.exc_seen = True          # the user function raised while being installed: the Computed stays installed
                continue
            setup_ok = False
            _fail(env, "C17/Computable.__set__/unexpected-exception", f"installing the computeds raised {type(e).__name__}: {e}")
            break
    obs = []
    for i, op in enumerate(case["ops"]):
        env.opi = i
        env.top_j = None
        kind = op[0]
        if not setup_ok:
            obs.append([-1, 99])
            continue
        try:
            if kind == "set":
                _, o, n, v = op
                if o not in env.alive:
                    obs.append([-2])
                    continue
                v = dec(v)
                env.shadow[(o, n)] = v
                setattr(env.owners[o], f"x{n}", v)
                obs.append([T_SET] + _state_obs(env))
            elif kind == "read":
                j = op[1]
                if env.cowner[j] not in env.alive:
                    obs.append([-2])
                    continue
                env.top_j = j
                if env.het:
                    obs.append(_het_read(env, j))
                    continue
                got = env.z(getattr(env.owners[env.cowner[j]], f"c{j}"))
                exp = _pure(env, env.exprs[j], j)
                if got != exp:
                    dead = []
                    deadk = _dead_upstream(env, j)
                    if deadk:
                        _fail(env, "C17/Computed/stale-after-parent-collected",
                              f"read c{j} = {got}; its function evaluated now gives {exp}: an owner it read "
                              f"({[list(s) for s in (dead or deadk)]}) was garbage-collected and nothing marked the Computed dirty")
                    else:
                        _fail(env, "C17/Computable/stale-value",
                              f"read c{j} = {got}; its function evaluated now gives {exp} (store {sorted(env.shadow.items())})")
                obs.append([T_READ, int(got)] + _state_obs(env))
            elif kind == "kill":
                o = op[1]
                if o not in env.alive:
                    obs.append([-2])
                    continue
                dummy.t = 0            # a successful top-level assignment empties PROCESSING_SIGNALS (it holds owners strongly)
                env.alive.discard(o)
                inst = env.owners.pop(o)
                env.ids.pop(id(inst), None)
                del inst
                gc.collect()
                obs.append([T_KILL] + _state_obs(env))
            elif kind == "win":
                obs.append(_win(env, op[1], ms, Computable, Computed, HasObservables))
            elif kind == "win2":
                obs.append(_win(env, op[1], ms, Computable, Computed, HasObservables, keep=True))
            else:
                raise ValueError(kind)
        except Exception as e:  # noqa: BLE001
            obs.append([-1, 99])
            _fail(env, f"C17/{kind}/unexpected-exception", f"{op} raised {type(e).__name__}: {e}")
            ms.CURRENT_COMPUTED = None
        # the observables themselves must hold what was assigned
        for o in env.alive:
            for n in range(env.nobs[o]):
                if getattr(env.owners[o], f"x{n}") != env.shadow[(o, n)]:
                    _fail(env, "C17/Observable/value-differs-from-assignment", f"x{n} of owner {o} holds {getattr(env.owners[o], f'x{n}')}, last assigned {env.shadow[(o, n)]}")
                    env.shadow[(o, n)] = getattr(env.owners[o], f"x{n}")
    gc.enable()
    if env.het or env.big:
        return {"obs": obs, "failures": env.failures, "model": False}
    return {"obs": obs, "failures": env.failures}


def _het_read(env, j):
    """read in the oracle-only stream: arbitrary values, functions that may raise _Required"""
    try:
        exp, exp_raises = _pure(env, env.exprs[j], j), False
    except _Required:
        exp, exp_raises = None, True
    try:
        got, got_raises = getattr(env.owners[env.cowner[j]], f"c{j}"), False
    except BaseException as ex:
        if not _is_user_exc(ex):
            raise
        got, got_raises = None, True
        env.exc_seen = True
    if exp_raises and not got_raises:
        key = "C17/Computed/stale-after-parent-collected" if _dead_upstream(env, j) else "C17/Computable/stale-value"
        _fail(env, key, f"read c{j} = {got!r}; its function evaluated now raises")
    elif got_raises and not exp_raises:
        _fail(env, "C17/read/unexpected-exception", f"read c{j} raised; its function evaluated now gives {exp!r}")
    elif not got_raises and not (got == exp):
        if _dead_upstream(env, j):
            _fail(env, "C17/Computed/stale-after-parent-collected", f"read c{j} = {got!r}; its function evaluated now gives {exp!r} (collected owner upstream)")
        else:
            _fail(env, "C17/Computable/stale-value", f"read c{j} = {got!r}; its function evaluated now gives {exp!r}")
    return [T_READ, 1 if got_raises else 0]


def _dead_upstream(env, j, seen=None):
    """sources with a collected owner among the transitive last reads of j"""
    out = []
    for s, _ in env.last_reads.get(j, []):
        if _cur(env, s) is _GONE:
            out.append(s)
        elif s[0] == "k":
            out += _dead_upstream(env, s[1])
    return out


def _win(env, acts, ms, Computable, Computed, HasObservables, keep=False):
    """throw-away Computed whose function reads and writes observables; keep: when its installation is
    rejected it stays installed - read it once more and observe what comes back"""
    read_here = []          # observables this function has read so far, with the number of writes done since
    state = {"writes": 0, "must_reject": None, "runs": 0}

    def func():
        state["runs"] += 1
        del read_here[:]
        state["writes"] = 0
        for a in acts:
            if a[0] == "r":
                o = env.owners.get(a[1])
                if o is None:
                    continue
                getattr(o, f"x{a[2]}")
                read_here.append(((a[1], a[2]), state["writes"]))
            elif a[0] == "rk":
                k = a[1]
                o = env.owners.get(env.cowner[k])
                if o is None:
                    continue
                v = env.z(getattr(o, f"c{k}"))
                _chain_check(env, k, v, "a writer function")
            else:
                _, oi, n, v = a
                o = env.owners.get(oi)
                if o is None:
                    continue
                prior = [w for (s, w) in read_here if s == (oi, n)]
                if prior and state["must_reject"] is None and state["runs"] == 1:
                    state["must_reject"] = (oi, n, min(prior) < state["writes"], all(w < state["writes"] for w in prior))
                old = env.shadow[(oi, n)]
                env.shadow[(oi, n)] = v
                try:
                    setattr(o, f"x{n}", v)
                except BaseException:
                    env.shadow[(oi, n)] = old
                    raise
                state["writes"] += 1
        return 0

    class Tmp(HasObservables):
        t = Computable()

    tmp = Tmp()
    status = 0
    try:
        tmp.t = Computed(func)
    except ValueError:
        # by TYPE and position: the writer function only reads and assigns observables, so the only ValueError that
        # can come out of the installation is the cycle rejection of Observable.__set__ (never by message text)
        status = E_CYCLE
    if state["must_reject"] is not None and status != E_CYCLE:
        oi, n, _, after_other = state["must_reject"]
        sub = "cycle-not-rejected-after-intervening-write" if after_other else "cycle-not-rejected"
        _fail(env, f"C17/Observable.__set__/{sub}",
              f"a Computed whose function performs {acts} read x{n} of owner {oi} and later assigned it; the assignment was accepted "
              f"instead of raising the cyclical-dependency ValueError")
    status2 = 0
    if keep and status == E_CYCLE:
        # the statement promises the rejection; what a later read of the still installed Computed does is
        # observed and compared with the model (report: finding candidate), not judged here
        try:
            r = tmp.t
            status2 = 2 if r is None else 3
        except ValueError:
            status2 = 1
    del tmp
    gc.collect()
    return ([T_WIN2, status, status2] if keep else [T_WIN, status]) + _state_obs(env)


# ------------------------------------------------------------------ model side
def _expr(e):
    t = e[0]
    if t == "c":
        return f"(Const {L.z(e[1])})"
    if t == "o":
        return f"(Obs {L.z(e[1])} {L.z(e[2])})"
    if t == "k":
        return f"(Comp {int(e[1])})"
    if t == "+":
        return f"(Add {_expr(e[1])} {_expr(e[2])})"
    if t == "if":
        return f"(If {_expr(e[1])} {_expr(e[2])} {_expr(e[3])})"
    raise ValueError(t)


def _act(a):
    if a[0] == "r":
        return f"ARead {L.z(a[1])} {L.z(a[2])}"
    if a[0] == "rk":
        return f"AReadC {int(a[1])}"
    return f"AWrite {L.z(a[1])} {L.z(a[2])} {L.z(a[3])}"


def coq_case(case):
    if case.get("het") or case.get("lst") or _is_big(case):
        # oracle-only history (values the Z-valued model cannot represent): never sent to the model; a replay file of
        # such a history asks for model observations all the same - give it the empty case
        return "{| c_init := []; c_comps := []; c_ops := [] |}"
    init = L.lst([L.zlist(v) for v in case["init"]])
    comps = L.lst([f"(mkdef {L.z(c['owner'])} {_expr(c['expr'])})" for c in case["comps"]])
    ops = []
    for op in case["ops"]:
        if op[0] == "set":
            ops.append(f"Assign {L.z(op[1])} {L.z(op[2])} {L.z(op[3])}")
        elif op[0] == "read":
            ops.append(f"Read {int(op[1])}")
        elif op[0] == "kill":
            ops.append(f"Kill {L.z(op[1])}")
        elif op[0] == "win2":
            ops.append(f"WriteInsideKeep {L.lst([_act(a) for a in op[1]])}")
        else:
            ops.append(f"WriteInside {L.lst([_act(a) for a in op[1]])}")
    return f"{{| c_init := {init}; c_comps := {comps}; c_ops := {L.lst(ops)} |}}"


def op_kinds(case):
    return [op[0] for op in case["ops"]]


def nontrivial(case):
    obs = case.get("_obs", [])
    if case.get("lst"):
        return sum(1 for o in obs if o == [10]) >= 2 and any(o == [11] for o in obs)
    n = len(case["comps"])
    reads = [o for o in obs if o and o[0] == T_READ]
    if len(reads) < 2:
        return False
    last = None
    recomputed = cached = False
    for o in obs:
        if not o or o[0] < 0:
            continue
        cnts = o[3:3 + n] if o[0] == T_WIN2 else o[2:2 + n] if o[0] in (T_READ, T_WIN) else o[1:1 + n]
        if last is not None:
            if cnts != last:
                recomputed = True
            elif o[0] == T_READ:
                cached = True
        last = cnts
    return recomputed and cached


LEVEL_TEXT = ("Machine-checked Coq theorems (37 statements incl. 13 non-vacuity examples, all closed under the global context) over "
              "Model/Computed.v, an executable Gallina transcription of the Observable/Computable/Computed machinery of mesa_signal.py "
              "as repaired by four fix: commits (read registration, dirty cascade through subscriber lists, comparison of remembered "
              "parent values in dict order, dependency rebuild, PROCESSING_SIGNALS cycle detection, owner collection, rejected "
              "installations).  For every dependency structure and every history of assignments, reads and writer Computeds without "
              "owner collection: a read returns the direct recursive evaluation of the function on the current store, through chains of "
              "any length (C17_never_stale_partial, C17_chain_read_is_recursive_evaluation); Computed.parents is exactly the reads of "
              "the last evaluation with the values read, subscribed to each (C17_parents_are_last_reads); reading ANY computed runs the "
              "function of k at most once and only if a value it read last time differs (C17_recompute_justified_partial, "
              "C17_no_spurious_partial, C17_assignment_runs_nothing); a function that reads an observable and later assigns it is "
              "rejected in every state (C17_cycle_rejected) and what the code accepts/rejects beyond that is characterised exactly "
              "(C17_write_rejected_iff_in_read_set, C17_read_computable_then_write, C17_cycle_through_cache_accepted, "
              "C17_read_set_persists_until_assignment, C17_rejected_installation_then_read_returns_none).  Owner collection: refutation "
              "witness for the computeds that read the collected owner, exactness for the healthy clean ones after any number of "
              "collections, and the invariant relative to the healthy set (environment form RDe) preserved by collections.  Code-level "
              "T1: nine constructs regenerate gen_obs_get, gen_obs_set, gen_comp_get, gen_set_dirty, gen_add_parent, "
              "gen_remove_parents, gen_cmp_changed, gen_call and a normalised statement skeleton from the working tree on every run; "
              "bridge lemmas prove each model function equal to the generated one and a machine assembled from the generated code "
              "equal to the model (C17_source_code_is_model), so the headline theorem is restated for the translated source "
              "(C17_never_stale_of_source, C17_cycle_rejected_of_source).  T2: model and implementation are compared after every "
              "operation; an independent oracle (direct evaluation of the term on a shadow store, read-recording closures) states "
              "the property on the implementation, also over arbitrary Python values, raising functions and falsy owners.")
LEVEL_NOTE = ("Theorems are about the model; the tie to the code is T1 (translated control flow with a trusted statement dictionary, "
              "skeleton for the weak-reference loop nest, try/finally and Computable.__set__) and T2 (differential testing).  Not proved: "
              "Computed.__call__ in states with dead owners (histories continuing after a collection), hence the _partial names.  "
              "Oracle only: non-int values, user exceptions in functions, falsy owners, class layouts.  Defects: 5 repaired "
              "(cached parent value registered; read set cleared inside an evaluation; parents of earlier evaluations kept; nested "
              "comparison registers on the enclosing Computed; falsy owner taken for collected), 2 known findings (stale after a parent "
              "owner is collected; equal-but-distinct owners conflated), 2 observations (rejected installation stays installed; cached value served after a user exception).  Trusted: Coq kernel, translator + dictionary, driver/observer, CPython "
              "dict/weakref/gc semantics as modelled.  No axioms.")
TECHNIQUE = ("Coq proof (fuel-indexed evaluation, invariant over all histories, second induction for run counts, healthy-set invariant "
             "for collections; closed under the global context) + code-level T1 (statement translator, bridge lemmas, normalised "
             "skeleton) + vm_compute correspondence + independent oracle incl. an oracle-only value/exception/falsy-owner stream")
DESIGN_REF = "DESIGN.md section 4, C17"
