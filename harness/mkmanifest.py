"""Regenerates /verif/MANIFEST.json from the property modules (run by hand after adding a module)."""
import importlib
import json
import os
import sys

HERE = os.path.dirname(os.path.abspath(__file__))
VERIF = os.path.dirname(HERE)
sys.path.insert(0, HERE)

ALL = [json.loads(l)["id"] for l in open(os.path.join(VERIF, "properties.jsonl"))]
NOT_BUILT = json.load(open(os.path.join(HERE, "not_applicable.json")))

checks = []
na = []
for pid in ALL:
    if os.path.exists(os.path.join(HERE, "props", pid + ".py")) and pid not in NOT_BUILT:
        m = importlib.import_module("props." + pid)
        checks.append({
            "property_id": pid,
            "quick_cmd": f"./check {pid} --tier quick",
            "thorough_cmd": f"./check {pid} --tier thorough",
            "evidence_file": f"/verif/evidence/{pid}.json",
            "replay_cmd_template": f"./check {pid} --replay {{path}}",
            "engine": "coq-models",
            "level_claimed": {"category": "proof", "text": m.LEVEL_TEXT, "design_ref": m.DESIGN_REF},
            "level_note": m.LEVEL_NOTE,
            "technique": m.TECHNIQUE,
        })
    else:
        na.append({"property_id": pid, "reason": NOT_BUILT.get(pid, "no Coq model has been built for this property yet; it is not claimed")})

man = {
    "version": 1,
    "setup_cmd": "./setup.sh",
    "hooks": {
        "guard": "MESA_VERIF",
        "enable": "no hooks are needed: every observer reads state reachable from outside; checks import /repo directly (PYTHONPATH=/repo)",
        "baseline_off_cmd": "cd /repo && /venv/bin/python -m pytest -ra -q -p no:cacheprovider --timeout=900 --continue-on-collection-errors",
        "source_commits": [],
        "add_only": True,
    },
    "engines": [{
        "name": "coq-models", "path": "/verif/coq",
        "serves_properties": [c["property_id"] for c in checks],
        "kind_free_text": "Coq 8.16.1 development (Gallina models, theorems, Print Assumptions) + Python harness: source->table translator (T1), model-vs-implementation correspondence by vm_compute (T2), implementation-side oracle and shrinker",
    }],
    "checks": checks,
    "notes": "Single entry point ./check <id> --tier quick|thorough [--replay file]; see DESIGN.md. known_findings.json lists genuine defects (fixed / known).",
    "not_applicable": na,
}
json.dump(man, open(os.path.join(VERIF, "MANIFEST.json"), "w"), indent=1)
print("checks:", [c["property_id"] for c in checks], "not claimed:", [n["property_id"] for n in na])
