#!/bin/sh
# usage: harness/applyfix.sh <fix-basename> [<fix-basename> ...]   (several = one combined commit, message of the first)
# applies /verif/fixes/<name>.diff to /repo, runs the pinned suite, commits as "fix: ..." ; aborts and reverts on failure
set -u
cd /repo
[ -z "$(git status --porcelain)" ] || { echo "/repo not clean"; exit 2; }
for n in "$@"; do git apply --3way /verif/fixes/$n.diff >/dev/null 2>&1 || git apply /verif/fixes/$n.diff || { echo "APPLY FAILED $n"; git checkout -- .; git reset -q; exit 1; }; done
/venv/bin/python -m pytest -q -p no:cacheprovider --timeout=900 -x > /tmp/applyfix.log 2>&1; rc=$?
res=$(grep -E "passed|failed" /tmp/applyfix.log | tail -1)
if [ $rc -ne 0 ]; then echo "TESTS FAILED after $*: $res"; git checkout -- .; git reset -q; exit 1; fi
git add -A mesa
git commit -q -F /verif/fixes/$1.msg
echo "COMMITTED $(git log --oneline | head -1)  [$res]"
