import argparse
import os
import sys

sys.path.insert(0, os.path.dirname(os.path.abspath(__file__)))
import framework  # noqa: E402


def main():
    ap = argparse.ArgumentParser()
    ap.add_argument("prop")
    ap.add_argument("--tier", default=os.environ.get("VERIF_TIER", "quick"), choices=["quick", "thorough"])
    ap.add_argument("--seed", type=int, default=int(os.environ.get("VERIF_SEED", "0")))
    ap.add_argument("--replay")
    a = ap.parse_args()
    if a.replay:
        sys.exit(framework.run_replay(a.prop, a.replay))
    sys.exit(framework.run_check(a.prop, a.tier, a.seed))


main()
