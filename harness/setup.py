"""MANIFEST.setup_cmd: build the whole Coq development from files on disk, cross-check the
observation hash between Coq and Python, smoke-import the repository."""
import os
import subprocess
import sys

sys.path.insert(0, os.path.dirname(os.path.abspath(__file__)))
import framework as F  # noqa: E402
import obshash  # noqa: E402
import translate  # noqa: E402
import coqlit  # noqa: E402


def main():
    text, broken = translate.translate()
    tpath = os.path.join(F.COQ, "Generated", "Tables.v")
    if not os.path.exists(tpath) or open(tpath).read() != text:
        open(tpath, "w").write(text)
    for b in broken.values():
        print("WARNING", b)
    with F.Lock(os.path.join(F.COQ, ".lock")):
        F.ensure_makefile()
        p = subprocess.run(["make", "-k", "-j16"], cwd=F.COQ, capture_output=True, text=True, timeout=3000)
        sys.stdout.write(p.stdout[-3000:])
        sys.stderr.write(p.stderr[-3000:])
        if p.returncode != 0:
            print("setup: make reported errors (the affected checks will report them)")
    # hash cross-check
    d = os.path.join(F.COQ, "Cases")
    os.makedirs(d, exist_ok=True)
    path = os.path.join(d, "HashVectors.v")
    vec = coqlit.lst([coqlit.zlist(v) for v, _ in obshash.VECTORS])
    open(path, "w").write(
        "From Coq Require Import ZArith List Uint63.\nFrom Mesa Require Import Common.ObsHash.\nImport ListNotations.\n"
        "Set Printing Width 100000.\n"
        f"Eval vm_compute in map hash_obs {vec}%Z.\n")
    rc, out, err = F.sh(["coqc", "-Q", F.COQ, "Mesa", path], cwd=d)
    got = coqlit.parse_eval_outputs(out)[-1] if rc == 0 else None
    want = [h for _, h in obshash.VECTORS]
    assert got == want and all(obshash.hash_obs(v) == h for v, h in obshash.VECTORS), (got, want, err)
    print("obshash vectors agree between Coq and Python")
    import mesa  # noqa: F401

    print("mesa imported from", os.path.dirname(mesa.__file__))


main()
